#!/usr/bin/env python3
''' Systematic sweep: small syntactic changes to one source file of /repo, each run against the quick
checks of the properties anchored there. Not a registered check — a tool for finding what the generators
and monitors do not reach (DESIGN 12.13). Survivors are either equivalent changes or gaps.

  harness/mutsweep.py src/tcpcl/session.py C01,C04,C07,C09,C14,C17,C18 [--max 300] [--jobs 12] [--seed 0]
                      [--only-lines 300-1600] [--out /tmp/vt0/sweep.jsonl]

Every worker owns a private git worktree of /repo and a private copy of the Lean project; nothing in /repo or
in /verif/evidence is touched. '''
import argparse
import ast
import json
import os
import random
import re
import shutil
import subprocess
import sys
import tempfile
from concurrent.futures import ThreadPoolExecutor

VERIF = os.path.dirname(os.path.dirname(os.path.abspath(__file__)))

CMP = {ast.Lt: '<', ast.LtE: '<=', ast.Gt: '>', ast.GtE: '>=', ast.Eq: '==', ast.NotEq: '!=',
       ast.Is: 'is', ast.IsNot: 'is not', ast.In: 'in', ast.NotIn: 'not in'}
FLIP = {'<': '<=', '<=': '<', '>': '>=', '>=': '>', '==': '!=', '!=': '==', 'is': 'is not', 'is not': 'is',
        'in': 'not in', 'not in': 'in'}


def sites(src):
    ''' [(kind, lineno, description, new_source)] '''
    tree = ast.parse(src)
    lines = src.split('\n')
    out = []

    def replace_span(l0, c0, l1, c1, text):
        if l0 != l1:
            return None
        ln = lines[l0 - 1]
        new = ln[:c0] + text + ln[c1:]
        return '\n'.join(lines[:l0 - 1] + [new] + lines[l0:])

    for node in ast.walk(tree):
        if isinstance(node, ast.Compare) and len(node.ops) == 1:
            op = CMP.get(type(node.ops[0]))
            left, right = node.left, node.comparators[0]
            if op and left.end_lineno == right.lineno:
                ln = lines[left.end_lineno - 1]
                seg = ln[left.end_col_offset:right.col_offset]
                m = re.fullmatch(r'(\s*)(' + re.escape(op).replace(r'\ ', r'\s+') + r')(\s*)', seg)
                if m:
                    new = replace_span(left.end_lineno, left.end_col_offset, right.lineno, right.col_offset, m.group(1) + FLIP[op] + m.group(3))
                    if new:
                        out.append(('cmp', node.lineno, '%s -> %s' % (op, FLIP[op]), new))
        elif isinstance(node, ast.BoolOp) and len(node.values) >= 2:
            a, b = node.values[0], node.values[1]
            if a.end_lineno == b.lineno:
                ln = lines[a.end_lineno - 1]
                seg = ln[a.end_col_offset:b.col_offset]
                word = 'and' if isinstance(node.op, ast.And) else 'or'
                other = 'or' if word == 'and' else 'and'
                m = re.fullmatch(r'(\s*\)*\s*)' + word + r'(\s*\(*\s*)', seg)
                if m:
                    new = replace_span(a.end_lineno, a.end_col_offset, b.lineno, b.col_offset, m.group(1) + other + m.group(2))
                    if new:
                        out.append(('bool', node.lineno, '%s -> %s' % (word, other), new))
        elif isinstance(node, ast.UnaryOp) and isinstance(node.op, ast.Not):
            ln = lines[node.lineno - 1]
            if ln[node.col_offset:node.col_offset + 4] == 'not ':
                new = replace_span(node.lineno, node.col_offset, node.lineno, node.col_offset + 4, '')
                if new:
                    out.append(('not', node.lineno, 'not removed', new))
        elif isinstance(node, ast.Constant) and isinstance(node.value, bool):
            new = replace_span(node.lineno, node.col_offset, node.end_lineno, node.end_col_offset, str(not node.value))
            if new:
                out.append(('const', node.lineno, '%s -> %s' % (node.value, not node.value), new))
        elif isinstance(node, ast.Constant) and isinstance(node.value, int) and not isinstance(node.value, bool) and 0 <= node.value <= 16:
            new = replace_span(node.lineno, node.col_offset, node.end_lineno, node.end_col_offset, str(node.value + 1))
            if new:
                out.append(('const', node.lineno, '%d -> %d' % (node.value, node.value + 1), new))
        elif isinstance(node, (ast.Expr, ast.Assign, ast.AugAssign)) and hasattr(node, 'end_lineno'):
            first = lines[node.lineno - 1]
            text = '\n'.join(lines[node.lineno - 1:node.end_lineno])
            if 'logger' in text.lower() or isinstance(getattr(node, 'value', None), ast.Constant) and isinstance(node, ast.Expr):
                continue
            is_call = isinstance(node, ast.Expr) and isinstance(node.value, ast.Call)
            is_self_assign = isinstance(node, (ast.Assign, ast.AugAssign)) and 'self.' in first.split('=')[0]
            if is_call or is_self_assign:
                indent = first[:len(first) - len(first.lstrip())]
                new = '\n'.join(lines[:node.lineno - 1] + [indent + 'pass'] + lines[node.end_lineno:])
                out.append(('del', node.lineno, 'deleted: ' + first.strip()[:70], new))
    return out


def sh(cmd, cwd=None, env=None, timeout=None):
    p = subprocess.run(cmd, shell=True, cwd=cwd, env=env, stdout=subprocess.PIPE, stderr=subprocess.STDOUT,
                       universal_newlines=True, timeout=timeout)
    return p.returncode, p.stdout


class Worker(object):
    def __init__(self, ix):
        self.dir = tempfile.mkdtemp(prefix='sweep%d_' % ix, dir='/tmp')
        self.repo = os.path.join(self.dir, 'repo')
        rc, out = sh('git -C /repo worktree add -q --detach %s HEAD' % self.repo)
        if rc != 0:
            raise RuntimeError(out)
        self.lean = os.path.join(self.dir, 'lean')
        shutil.copytree(os.path.join(VERIF, 'lean'), self.lean, symlinks=True)
        self.out = os.path.join(self.dir, 'out')
        os.makedirs(self.out)

    def run(self, rel, new_src, props, seed):
        path = os.path.join(self.repo, rel)
        orig = open(path).read()
        res = {}
        try:
            with open(path, 'w') as f:
                f.write(new_src)
            env = dict(os.environ, VERIF_REPO=self.repo, VERIF_LEAN_DIR=self.lean, VERIF_OUT_DIR=self.out, VERIF_SEED=str(seed))
            for p in props:
                shutil.rmtree(os.path.join(self.out, 'replays'), ignore_errors=True)
                try:
                    rc, out = sh('./check %s --tier quick' % p, cwd=VERIF, env=env, timeout=900)
                except subprocess.TimeoutExpired:
                    rc, out = 2, 'timeout'
                sigs = []
                rdir = os.path.join(self.out, 'replays')
                if os.path.isdir(rdir):
                    for fn in sorted(os.listdir(rdir)):
                        try:
                            d = json.load(open(os.path.join(rdir, fn)))
                        except Exception:
                            continue
                        if 'signature' in d:
                            sigs.append(d['signature'])
                        elif d.get('no_failing_input_found'):
                            sigs.append('unproved')
                res[p] = {'exit': rc, 'sigs': sigs[:4]}
                if rc == 1:
                    break       # detected: no need to run the other properties
        finally:
            with open(path, 'w') as f:
                f.write(orig)
        return res

    def close(self):
        sh('git -C /repo worktree remove --force %s' % self.repo)
        shutil.rmtree(self.dir, ignore_errors=True)
        sh('git -C /repo worktree prune')


def main():
    ap = argparse.ArgumentParser()
    ap.add_argument('file')
    ap.add_argument('props')
    ap.add_argument('--max', type=int, default=300)
    ap.add_argument('--jobs', type=int, default=10)
    ap.add_argument('--seed', type=int, default=0)
    ap.add_argument('--only-lines', default=None)
    ap.add_argument('--skip-kinds', default='')
    ap.add_argument('--out', default='/tmp/vt0/sweep.jsonl')
    args = ap.parse_args()
    props = args.props.split(',')
    src = open(os.path.join('/repo', args.file)).read()
    cand = sites(src)
    if args.only_lines:
        lo, hi = [int(x) for x in args.only_lines.split('-')]
        cand = [c for c in cand if lo <= c[1] <= hi]
    skip = set(k for k in args.skip_kinds.split(',') if k)
    cand = [c for c in cand if c[0] not in skip]
    good = []
    for c in cand:
        try:
            compile(c[3], args.file, 'exec')
            good.append(c)
        except SyntaxError:
            pass
    rng = random.Random(args.seed)
    rng.shuffle(good)
    good = good[:args.max]
    print('%d candidate sites, %d compile, running %d' % (len(cand), len(good), len(good)), flush=True)
    workers = [Worker(i) for i in range(args.jobs)]
    free = list(workers)
    import threading
    lock = threading.Lock()
    outf = open(args.out, 'a')

    def task(c):
        with lock:
            w = free.pop()
        try:
            res = w.run(args.file, c[3], props, args.seed)
        except Exception as err:
            res = {'error': str(err)[:200]}
        finally:
            with lock:
                free.append(w)
        rec = {'file': args.file, 'kind': c[0], 'line': c[1], 'what': c[2], 'result': res,
               'detected': any(isinstance(v, dict) and v.get('exit') == 1 for v in res.values())}
        with lock:
            outf.write(json.dumps(rec) + '\n')
            outf.flush()
        return rec

    try:
        with ThreadPoolExecutor(max_workers=args.jobs) as ex:
            recs = list(ex.map(task, good))
    finally:
        for w in workers:
            w.close()
    det = sum(1 for r in recs if r['detected'])
    print('done: %d mutants, %d detected, %d survived' % (len(recs), det, len(recs) - det))


if __name__ == '__main__':
    sys.exit(main())
