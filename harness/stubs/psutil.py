AF_LINK = 17


class _Addr(object):
    def __init__(self, family, address):
        self.family = family
        self.address = address


def net_if_addrs():
    return {'veth0': [_Addr(AF_LINK, '02:00:00:00:00:01')], 'lo': [_Addr(AF_LINK, '00:00:00:00:00:00')]}
