''' Recording stand-in for dbus-python (absent in the sandbox).
Signals are recorded with their raw Python arguments; nothing is marshalled.
'''
import sys
from . import service, bus, exceptions  # noqa
from .exceptions import DBusException


class String(str):
    pass


class ObjectPath(str):
    pass


class Boolean(int):
    pass


class Array(list):
    def __init__(self, it=(), signature=None):
        list.__init__(self, it)
        self.signature = signature


class ByteArray(bytes):
    pass


class Byte(int):
    pass


class Dictionary(dict):
    def __init__(self, it=(), signature=None):
        dict.__init__(self, it)
        self.signature = signature


class Interface(object):
    def __init__(self, obj, iface):
        self._obj = obj
        self._iface = iface

    def connect_to_signal(self, name, func, **kwargs):
        return self._obj.connect_to_signal(name, func, dbus_interface=self._iface)

    def __getattr__(self, name):
        return getattr(self._obj, name)
