''' Recording dbus.service: every signal emission is appended to LOG (and to the
object's own _verif_signals) as (object_path, name, signature, args). '''
import functools

LOG = []
LOST = []  # signals raised on an object no longer exported (never reach the bus)
HOOKS = []   # callables (obj, name, signature, args)


class BusName(object):
    def __init__(self, name=None, bus=None, do_not_queue=False, **kw):
        self._name = name

    def get_name(self):
        return self._name


class Object(object):
    def __init__(self, conn=None, object_path=None, bus_name=None):
        self._verif_conn = conn
        self._verif_path = object_path
        self._verif_signals = []
        self._verif_lost = []
        self.locations = [(conn, object_path)] if object_path else []

    def remove_from_connection(self, connection=None, path=None):
        self.locations = []


def signal(dbus_interface, signature=None, **kw):
    def deco(func):
        @functools.wraps(func)
        def emit(self, *args, **kwargs):
            func(self, *args, **kwargs)
            rec = (getattr(self, '_verif_path', None), func.__name__, signature, args)
            # dbus-python sends one message per location: an object which has been removed from its
            # connection runs the method body but emits nothing
            if not getattr(self, 'locations', True):
                LOST.append(rec)
                try:
                    self._verif_lost.append(rec)
                except AttributeError:
                    pass
                return
            LOG.append(rec)
            try:
                self._verif_signals.append(rec)
            except AttributeError:
                pass
            for hook in list(HOOKS):
                hook(self, func.__name__, signature, args)
        emit._dbus_is_signal = True
        emit._dbus_signature = signature
        emit._dbus_interface = dbus_interface
        return emit
    return deco


def method(dbus_interface, in_signature=None, out_signature=None, **kw):
    def deco(func):
        func._dbus_is_method = True
        func._dbus_in_signature = in_signature
        func._dbus_out_signature = out_signature
        func._dbus_interface = dbus_interface
        return func
    return deco
