BUS_SESSION = 0
BUS_SYSTEM = 1


class BusConnection(object):
    def __init__(self, addr=None):
        self.addr = addr

    def get_object(self, name, path):
        raise RuntimeError('no bus in harness')
