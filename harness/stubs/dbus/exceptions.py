class DBusException(Exception):
    pass
