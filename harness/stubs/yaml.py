''' Stand-in for PyYAML (not installed in the sandbox): the JSON-compatible subset of YAML 1.2.

`safe_load` accepts a text / bytes string or a file object whose content is a JSON document
(flow mappings / sequences, double-quoted strings, numbers, true / false / null) - every such
document is a YAML document with the same meaning. An empty document loads as None, as in PyYAML.
`safe_dump` writes that subset. Anything else raises YAMLError: the harness only ever feeds files
it wrote itself. '''
import json


class YAMLError(Exception):
    pass


def safe_load(stream):
    text = stream.read() if hasattr(stream, 'read') else stream
    if isinstance(text, bytes):
        text = text.decode('utf-8')
    if not text.strip():
        return None
    try:
        return json.loads(text)
    except ValueError as err:
        raise YAMLError('harness yaml stub reads the JSON subset only: %s' % err)


load = safe_load


def safe_dump(data, stream=None, **_kw):
    text = json.dumps(data, indent=1, sort_keys=True) + '\n'
    if stream is None:
        return text
    stream.write(text)
    return None


dump = safe_dump
