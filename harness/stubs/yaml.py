def safe_load(fileobj):
    raise RuntimeError('yaml not available in harness')
