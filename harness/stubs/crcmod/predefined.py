''' Table-driven reflected CRCs standing in for crcmod (absent in the sandbox). '''


def _mk(poly_reflected, width):
    table = []
    for n in range(256):
        c = n
        for _ in range(8):
            c = (c >> 1) ^ poly_reflected if c & 1 else c >> 1
        table.append(c)
    mask = (1 << width) - 1

    def func(data, crc=0):
        c = (crc ^ mask) & mask
        for b in bytes(data):
            c = table[(c ^ b) & 0xFF] ^ (c >> 8)
        return (c ^ mask) & mask
    return func


_DEFS = {
    'x-25': (0x8408, 16),
    'crc-32c': (0x82F63B78, 32),
}


def mkPredefinedCrcFun(name):
    poly, width = _DEFS[name]
    return _mk(poly, width)
