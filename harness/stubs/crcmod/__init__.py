from . import predefined  # noqa
