from . import GLib  # noqa
