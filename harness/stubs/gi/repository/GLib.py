''' Deterministic virtual-time stand-in for GLib's main loop API.
Sources are data; the harness decides which fires (see harness/simglib.py). '''
IO_IN = 1
IO_OUT = 4
IO_HUP = 16
IO_ERR = 8
PRIORITY_DEFAULT = 0


class Source(object):
    __slots__ = ('sid', 'kind', 'func', 'args', 'obj', 'cond', 'interval', 'deadline', 'alive')

    def __init__(self, sid, kind, func, args):
        self.sid = sid
        self.kind = kind      # 'idle' | 'timeout' | 'io'
        self.func = func
        self.args = args
        self.obj = None
        self.cond = None
        self.interval = None
        self.deadline = None
        self.alive = True

    def __repr__(self):
        return '<Source %d %s %s>' % (self.sid, self.kind, getattr(self.func, '__name__', self.func))


class Loop(object):
    def __init__(self):
        self.reset()

    def reset(self):
        self.now = 0          # virtual milliseconds
        self.next_id = 1
        self.sources = {}     # sid -> Source (insertion ordered)
        self.escaped = []     # (source repr, exception)

    def add(self, kind, func, args):
        src = Source(self.next_id, kind, func, args)
        self.next_id += 1
        self.sources[src.sid] = src
        return src

    def pending(self, kind=None):
        return [s for s in self.sources.values() if s.alive and (kind is None or s.kind == kind)]

    def fire(self, src):
        ''' Run one source callback the way GLib would; return (ran, exc). '''
        if not src.alive or src.sid not in self.sources:
            return (False, None)
        try:
            if src.kind == 'io':
                keep = src.func(src.obj, src.cond, *src.args)
            else:
                keep = src.func(*src.args)
        except Exception as err:  # PyGObject prints the traceback and drops the source
            self.escaped.append((repr(src), err))
            keep = False
            exc = err
        else:
            exc = None
        if not keep:
            src.alive = False
            self.sources.pop(src.sid, None)
        elif src.kind == 'timeout':
            src.deadline = self.now + src.interval
        return (True, exc)


LOOP = Loop()


def idle_add(func, *args, **kwargs):
    return LOOP.add('idle', func, args).sid


def timeout_add(interval, func, *args, **kwargs):
    src = LOOP.add('timeout', func, args)
    src.interval = int(interval)
    src.deadline = LOOP.now + int(interval)
    return src.sid


def timeout_add_seconds(interval, func, *args, **kwargs):
    return timeout_add(int(interval) * 1000, func, *args)


def io_add_watch(obj, cond, func, *args, **kwargs):
    src = LOOP.add('io', func, args)
    src.obj = obj
    src.cond = cond
    return src.sid


def source_remove(sid):
    src = LOOP.sources.pop(sid, None)
    if src is not None:
        src.alive = False
        return True
    return False


class MainLoop(object):
    def run(self):
        raise RuntimeError('harness drives sources explicitly')

    def quit(self):
        pass
