''' Stub: chain validation outcome is a harness flag (trusted base). '''
ACCEPT = True


class ValidationContext(object):
    def __init__(self, **kwargs):
        self.kwargs = kwargs


class CertificateValidator(object):
    def __init__(self, end_entity_cert=None, intermediate_certs=None, validation_context=None):
        self.ee = end_entity_cert

    def validate_usage(self, **kwargs):
        if not ACCEPT:
            raise RuntimeError('certificate chain rejected (harness)')
        return []
