class HWAddress(object):
    size = 48

    def __init__(self, address):
        if isinstance(address, HWAddress):
            self._b = address._b
        elif isinstance(address, (bytes, bytearray)):
            self._b = bytes(address)
        else:
            self._b = bytes(int(p, 16) for p in str(address).replace('-', ':').split(':'))
        if len(self._b) != 6:
            raise ValueError('bad address')

    def __bytes__(self):
        return self._b

    def __str__(self):
        return '-'.join('%02X' % b for b in self._b)

    def __repr__(self):
        return 'EUI48(%r)' % str(self)

    def __eq__(self, other):
        return isinstance(other, HWAddress) and other._b == self._b

    def __hash__(self):
        return hash(self._b)


class EUI48(HWAddress):
    pass
