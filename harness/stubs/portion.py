''' Integer-interval stand-in for the `portion` library (absent in the sandbox).
Intervals are normalised sorted lists of half-open integer ranges [lo, hi).
Only the API the repository uses is provided: closedopen, empty, |, ==, in,
iteration over atomic intervals (.lower/.upper), iterate(step=1),
AbstractDiscreteInterval + create_api(singleton, closed, empty).
Contract assumed of the real library (documented in DESIGN.md §4): for integer
bounds, union of closed-open ranges equals closedopen(0,n) iff every integer
in [0,n) is covered, and adjacent/overlapping ranges merge.
'''


def _norm(pairs):
    out = []
    for lo, hi in sorted((int(a), int(b)) for (a, b) in pairs if a < b):
        if out and lo <= out[-1][1]:
            if hi > out[-1][1]:
                out[-1] = (out[-1][0], hi)
        else:
            out.append((lo, hi))
    return tuple(out)


class Interval(object):
    __slots__ = ('_p',)

    def __init__(self, pairs=()):
        self._p = _norm(pairs)

    @property
    def empty(self):
        return not self._p

    @property
    def lower(self):
        return self._p[0][0]

    @property
    def upper(self):
        return self._p[-1][1]

    def __or__(self, other):
        return type(self)(self._p + other._p)

    def __and__(self, other):
        out = []
        for (a, b) in self._p:
            for (c, d) in other._p:
                lo, hi = max(a, c), min(b, d)
                if lo < hi:
                    out.append((lo, hi))
        return Interval(out)

    def __sub__(self, other):
        cur = list(self._p)
        for (c, d) in other._p:
            nxt = []
            for (a, b) in cur:
                if d <= a or b <= c:
                    nxt.append((a, b))
                else:
                    if a < c:
                        nxt.append((a, c))
                    if d < b:
                        nxt.append((d, b))
            cur = nxt
        return Interval(cur)

    def contains(self, item):
        return item in self

    def overlaps(self, other):
        return not (self & other).empty

    def __eq__(self, other):
        return isinstance(other, Interval) and self._p == other._p

    def __ne__(self, other):
        return not self == other

    def __hash__(self):
        return hash(self._p)

    def __contains__(self, item):
        if isinstance(item, Interval):
            return all(any(lo <= a and b <= hi for (lo, hi) in self._p) for (a, b) in item._p)
        return any(lo <= item < hi for (lo, hi) in self._p)

    def __iter__(self):
        for pair in self._p:
            yield type(self)([pair])

    def __len__(self):
        return len(self._p)

    def __repr__(self):
        if not self._p:
            return '()'
        return ' | '.join('[%d,%d)' % p for p in self._p)


def closedopen(lo, hi):
    return Interval([(lo, hi)])


def empty():
    return Interval()


def iterate(intvl, step=1):
    for (lo, hi) in intvl._p:
        for v in range(lo, hi, step):
            yield v


class AbstractDiscreteInterval(Interval):
    _step = 1
    __slots__ = ()


class _Api(object):
    def __init__(self, cls):
        self._cls = cls

    def empty(self):
        return self._cls()

    def singleton(self, val):
        return self._cls([(val, val + 1)])

    def closed(self, lo, hi):
        return self._cls([(lo, hi + 1)])

    def closedopen(self, lo, hi):
        return self._cls([(lo, hi)])


def create_api(cls):
    return _Api(cls)
