''' Shared harness code for C10 / C11 / C19 (BP agent): independent CBOR / RFC 9171 reader and
writer, bitwise CRCs, the real-agent fixture (fake bus, fake CL, virtual clock, idle draining),
and the bridge that turns one run of the real agent into the event list of the Lean model
(`agent.run`) and compares the observable effects.
Nothing here uses the repo's encoding classes to look at bytes. '''
import datetime as _dt
import re
import types

NODE = {'dtn': b'//node/'.hex()}
NODE_TEXT = 'dtn://node/'
T0 = 800000000000          # virtual "now" base (DTN ms)

F_FRAG, F_ADMIN, F_NOFRAG = 0x1, 0x2, 0x4
F_TIME, F_RCV, F_FWD, F_DLV, F_DEL = 0x40, 0x4000, 0x10000, 0x20000, 0x40000
REQ = {'receive': F_RCV, 'forward': F_FWD, 'deliver': F_DLV, 'delete': F_DEL}


# ---------------------------------------------------------------- CBOR (own, minimal)
class CborError(Exception):
    pass


def enc_head(mt, n):
    if n < 24:
        return bytes([mt * 32 + n])
    for ai, k in ((24, 1), (25, 2), (26, 4), (27, 8)):
        if n < 256 ** k:
            return bytes([mt * 32 + ai]) + n.to_bytes(k, 'big')
    raise CborError('too big')


def enc(x):
    if x is None:
        return b'\xf6'
    if x is True:
        return b'\xf5'
    if x is False:
        return b'\xf4'
    if isinstance(x, int):
        return enc_head(0, x) if x >= 0 else enc_head(1, -1 - x)
    if isinstance(x, (bytes, bytearray)):
        return enc_head(2, len(x)) + bytes(x)
    if isinstance(x, str):
        b = x.encode('utf8')
        return enc_head(3, len(b)) + b
    if isinstance(x, (list, tuple)):
        return enc_head(4, len(x)) + b''.join(enc(i) for i in x)
    if isinstance(x, Raw):
        return x.data
    if isinstance(x, dict):
        return enc_head(5, len(x)) + b''.join(enc(k) + enc(v) for k, v in x.items())
    raise CborError('cannot encode %r' % (x,))


class Raw(object):
    ''' pre-encoded item spliced into a structure (non-shortest heads etc.) '''

    def __init__(self, data):
        self.data = bytes(data)


def dec(data, pos=0, depth=0):
    ''' -> (value, end). Definite items; indefinite arrays allowed (value list). '''
    if pos >= len(data) or depth > 16:
        raise CborError('eof')
    b = data[pos]
    mt, ai = b >> 5, b & 31
    pos += 1
    if ai < 24:
        n = ai
    elif ai in (24, 25, 26, 27):
        k = 1 << (ai - 24)
        if pos + k > len(data):
            raise CborError('eof')
        n = int.from_bytes(data[pos:pos + k], 'big')
        pos += k
    elif ai == 31 and mt == 4:
        out = []
        while True:
            if pos >= len(data):
                raise CborError('eof')
            if data[pos] == 0xff:
                return out, pos + 1
            v, pos = dec(data, pos, depth + 1)
            out.append(v)
    else:
        raise CborError('ai %d' % ai)
    if mt == 0:
        return n, pos
    if mt == 1:
        return -1 - n, pos
    if mt in (2, 3):
        if pos + n > len(data):
            raise CborError('eof')
        raw = bytes(data[pos:pos + n])
        return (raw if mt == 2 else raw.decode('utf8')), pos + n
    if mt == 4:
        out = []
        for _ in range(n):
            v, pos = dec(data, pos, depth + 1)
            out.append(v)
        return out, pos
    if mt == 7:
        if ai == 20:
            return False, pos
        if ai == 21:
            return True, pos
        if ai == 22:
            return None, pos
    raise CborError('unsupported mt %d ai %d' % (mt, ai))


# ---------------------------------------------------------------- CRCs (bitwise, reflected)
def _crc(data, poly, width):
    mask = (1 << width) - 1
    c = mask
    for byte in data:
        c ^= byte
        for _ in range(8):
            c = (c >> 1) ^ poly if c & 1 else c >> 1
    return (c ^ mask) & mask


def crc16_x25(data):
    return _crc(data, 0x8408, 16)


def crc32c(data):
    return _crc(data, 0x82F63B78, 32)


assert crc16_x25(b'123456789') == 0x906E and crc32c(b'123456789') == 0xE3069283


def crc_bytes(ct, data):
    return crc16_x25(data).to_bytes(2, 'big') if ct == 1 else crc32c(data).to_bytes(4, 'big')


# ---------------------------------------------------------------- EIDs and bundle structures
def eid_item(e):
    if e == 'none':
        return [1, 0]
    if 'dtn' in e:
        return [1, bytes.fromhex(e['dtn']).decode('utf8')]
    return [2, list(e['ipn'])]


def eid_text(e):
    if e == 'none':
        return 'dtn:none'
    if 'dtn' in e:
        return 'dtn:' + bytes.fromhex(e['dtn']).decode('utf8')
    return 'ipn:' + '.'.join(str(i) for i in e['ipn'])


def eid_from_item(x):
    if x is None:
        return None
    if x[0] == 1:
        return 'none' if x[1] == 0 else {'dtn': x[1].encode('utf8').hex()}
    return {'ipn': list(x[1])}


def dtn(ssp):
    return {'dtn': ssp.encode('utf8').hex()}


def pri_items(p, rpt_none=False):
    it = [p['ver'], p['flags'], p['ct'], eid_item(p['dest']), eid_item(p['src']),
          None if rpt_none else eid_item(p['rpt']), list(p['ts']), p['life']]
    if p['flags'] & F_FRAG:
        it += [p['foff'], p['tlen']]
    return it


def with_crc(items, ct, crc=None):
    ''' encode a block array, computing a valid CRC unless one is given '''
    if ct == 0:
        return enc(items)
    width = 2 if ct == 1 else 4
    zero = enc(items + [bytes(width)])
    val = crc if crc is not None else crc_bytes(ct, zero)
    return enc(items + [val])


def enc_bundle(b, bad_crc_block=None):
    ''' b: {'pri':…, 'rpt_none':bool, 'blocks':[…]} -> octets; fills the 'crc' entries.
    bad_crc_block: index (-1 = primary) whose CRC is made wrong. '''
    p = b['pri']
    out = b'\x9f'
    pe = with_crc(pri_items(p, b.get('rpt_none', False)), p['ct'])
    if p['ct']:
        if bad_crc_block == -1:
            pe = pe[:-1] + bytes([pe[-1] ^ 0x5a])
        p['crc'] = pe[-(2 if p['ct'] == 1 else 4):].hex()
    else:
        p['crc'] = None
    out += pe
    for ix, k in enumerate(b['blocks']):
        items = [k['t'], k['n'], k['f'], k['ct'], bytes.fromhex(k['btsd'])]
        be = with_crc(items, k['ct'])
        if k['ct']:
            if bad_crc_block == ix:
                be = be[:-1] + bytes([be[-1] ^ 0x5a])
            k['crc'] = be[-(2 if k['ct'] == 1 else 4):].hex()
        else:
            k['crc'] = None
        out += be
    return out + b'\xff'


class Decoded(object):
    pass


def dec_bundle(data):
    ''' independent RFC 9171 reader -> Decoded(pri dict, blocks list, crc_ok list) or raises '''
    if not data or data[0] != 0x9f or data[-1] != 0xff:
        raise CborError('not an indefinite array')
    pos = 1
    parts = []
    while data[pos] != 0xff:
        v, end = dec(data, pos)
        parts.append((v, pos, end))
        pos = end
    if pos != len(data) - 1 or not parts:
        raise CborError('trailing data')
    d = Decoded()
    pv, ps, pe = parts[0]
    if not isinstance(pv, list) or len(pv) < 8:
        raise CborError('primary')
    frag = bool(pv[1] & F_FRAG)
    need = 8 + (2 if frag else 0) + (1 if pv[2] else 0)
    if len(pv) != need:
        raise CborError('primary length %d != %d' % (len(pv), need))
    d.pri = {'ver': pv[0], 'flags': pv[1], 'ct': pv[2], 'dest': eid_from_item(pv[3]),
             'src': eid_from_item(pv[4]), 'rpt': eid_from_item(pv[5]), 'ts': list(pv[6]), 'life': pv[7],
             'foff': pv[8] if frag else 0, 'tlen': pv[9] if frag else 0,
             'crc': pv[-1].hex() if pv[2] else None}
    d.crc_ok = [_crc_ok(data[ps:pe], pv[2])]
    d.blocks = []
    for (v, s, e) in parts[1:]:
        if not isinstance(v, list) or len(v) != (6 if v[3] else 5):
            raise CborError('canonical block shape')
        d.blocks.append({'t': v[0], 'n': v[1], 'f': v[2], 'ct': v[3],
                         'btsd': None if v[4] is None else v[4].hex(),
                         'crc': v[5].hex() if v[3] else None})
        d.crc_ok.append(_crc_ok(data[s:e], v[3]))
    return d


def _crc_ok(raw, ct):
    if ct == 0:
        return True
    if ct not in (1, 2):
        return False
    w = 2 if ct == 1 else 4
    if raw[-w - 1] != 0x40 + w:
        return False
    return crc_bytes(ct, raw[:-w] + bytes(w)) == raw[-w:]


def ident_of(p, blocks=None):
    ''' the identity of the property text: source, creation timestamp, + for fragments the fragment
    offset and the length of the fragment's payload (RFC 9171 4.3.1) '''
    base = (eid_text(p['src']), p['ts'][0], p['ts'][1])
    if p['flags'] & F_FRAG:
        plen = None
        for k in blocks or []:
            if k['n'] == 1:
                plen = None if k['btsd'] is None else len(k['btsd']) // 2
                break
        base += (p['foff'], plen)
    return base


def report_subject(d):
    ''' (source text, [time, seq]) named by a status-report bundle (decoded with dec_bundle), or None '''
    try:
        pay = [k for k in d.blocks if k['t'] == 1][0]
        rec, _end = dec(bytes.fromhex(pay['btsd']))
        return (eid_text(eid_from_item(rec[1][2])), list(rec[1][3]))
    except (CborError, IndexError, TypeError, KeyError, ValueError):
        return None


def ident_json(j):
    base = (eid_text(j['src']), j['t'], j['s'])
    if j['frag'] is not None:
        base += tuple(j['frag'])
    return base


# ---------------------------------------------------------------- builders
def mk_pri(dest, src, ts, flags=0, ct=0, rpt='none', life=60000, foff=0, tlen=0, ver=7):
    return {'ver': ver, 'flags': flags, 'ct': ct, 'dest': dest, 'src': src, 'rpt': rpt, 'ts': list(ts),
            'life': life, 'foff': foff, 'tlen': tlen, 'crc': None}


def mk_blk(t, n, btsd, f=0, ct=0, parsed=None, hop=None, reenc=None):
    if parsed is None:
        parsed = btsd_parses(t, btsd)
    if hop is None and t == 10 and parsed:
        try:
            v, _e = dec(btsd)
            if isinstance(v, list) and len(v) >= 2 and all(isinstance(i, int) for i in v[:2]):
                hop = [v[0], v[1]]
        except CborError:
            hop = None
    return {'t': t, 'n': n, 'f': f, 'ct': ct, 'btsd': bytes(btsd).hex(), 'crc': None,
            'parsed': parsed, 'hop': hop, 'reenc': None if reenc is None else bytes(reenc).hex()}


def btsd_parses(t, btsd):
    ''' Independent predicate for the `parsed` parameter of the model: does the BTSD of a
    previous-node / age / hop-count block have the shape its RFC 9171 definition requires
    (first CBOR item; trailing octets tolerated). Other types have no bound class here. '''
    if t not in (6, 7, 10):
        return True
    if len(btsd) == 0:
        return True         # nothing to dissect: the (empty) class instance is attached
    try:
        v, _end = dec(btsd)
    except (CborError, UnicodeDecodeError, IndexError):
        return False
    if t == 7:
        return True
    if t == 10:
        return isinstance(v, list)
    if isinstance(v, str):
        return True         # EidField.m2i passes a text string through
    if not isinstance(v, list) or len(v) < 2:
        return False
    if v[0] == 1:
        return isinstance(v[1], str) or v[1] == 0
    if v[0] == 2:
        return isinstance(v[1], list) and all(isinstance(i, int) for i in v[1])
    return False


def status_report_payload(infos, reason, src, ts):
    ''' canonical admin record [1, [[rcv, fwd, dlv, del], reason, source, timestamp]] '''
    return enc([1, [[list(i) for i in infos], reason, eid_item(src), list(ts)]])


# ---------------------------------------------------------------- the real agent
class _FakeObj(object):
    def connect_to_signal(self, *a, **k):
        pass

    def NameHasOwner(self, name):
        return False


class FakeBus(object):
    def get_object(self, *a, **k):
        return _FakeObj()


class _Clock(object):
    now_ms = T0


CLOCK = _Clock()
_EPOCH = _dt.datetime(2000, 1, 1, tzinfo=_dt.timezone.utc)


class _FakeDatetime(_dt.datetime):
    @classmethod
    def now(cls, tz=None):
        return _EPOCH + _dt.timedelta(milliseconds=CLOCK.now_ms)


_SHIM = types.SimpleNamespace(datetime=_FakeDatetime, timezone=_dt.timezone, timedelta=_dt.timedelta,
                              date=_dt.date, time=_dt.time)

_mods = {}


def load():
    ''' boot the repo modules once; install the virtual clock '''
    if _mods:
        return _mods
    import boot
    boot.boot()
    import bp.config
    import bp.agent
    import bp.util
    import bp.encoding
    import bp.app.base
    import bp.app.admin
    import bp.app.fragment
    import bp.app.bpsec  # noqa: F401  (registers the BPSec chain steps)
    from gi.repository import GLib
    bp.agent.datetime = _SHIM
    bp.util.datetime = _SHIM
    _mods.update(config=bp.config, agent=bp.agent, util=bp.util, enc=bp.encoding, GLib=GLib)
    return _mods


class Fixture(object):
    ''' one real agent with a capturing fake CL and a delivery probe '''

    def __init__(self, rx_routes, tx_routes, node_text=NODE_TEXT):
        m = load()
        self.m = m
        m['GLib'].LOOP.reset()
        # a fresh process would start with clean class-level scapy dicts (see St.stickyPrev)
        for cls in (m['enc'].PreviousNodeBlock, m['enc'].BundleAgeBlock):
            for d in cls._overload_fields.values():
                d.pop('block_num', None)
        # … and with an empty default of PacketListField('blocks', default=[]): forwarding a bundle
        # without any canonical block inserts into that shared list (see c11.zero_block_leak)
        del m['enc'].Bundle().getfieldval('blocks')[:]
        self.config = m['config'].Config(node_id=node_text)
        self.config._bus_conn = FakeBus()
        self.agent = m['agent'].Agent(self.config, bus_kwargs=dict(conn=None, object_path='/a'))
        self.rx_routes = list(rx_routes)      # (pattern text, action)
        self.tx_routes = list(tx_routes)      # (pattern text, mtu)
        self.config.rx_route_table = [m['config'].RxRouteItem(re.compile(p), a) for (p, a) in rx_routes]
        self.config.tx_route_table = [m['config'].TxRouteItem(re.compile(p), 'dtn://next/', 'fake', mtu=mtu)
                                      for (p, mtu) in tx_routes]
        self.cap = []
        fix = self

        class CL(object):
            def send_bundle_func(self, raw_config):
                return lambda data: fix.cap.append(bytes(data))
        self.agent._cl_agent['fake'] = CL()
        self.delivered = []

        def probe(ctr):
            if 'deliver' in ctr.actions:
                fix.delivered.append(tuple(ctr.bundle_ident()))
        # the probe goes in front of the first step of order >= 30 WITHOUT re-sorting the chain: the order in
        # which the agent itself left its chain (Agent.__init__ sorts it) stays what is exercised
        chain = self.agent._rx_chain
        pos = next((i for i, s in enumerate(chain) if s.order >= 30), len(chain))
        chain.insert(pos, m['util'].ChainStep(order=25, name='verif probe', action=probe))
        self.recv = self.agent._cl_recv_bundle_finish('t')

    def add_tx(self, pattern, mtu=None):
        ''' a transmit route appearing during a history (what `peer_node_seen` does) '''
        self.tx_routes.append((pattern, mtu))
        self.config.tx_route_table.append(
            self.m['config'].TxRouteItem(re.compile(pattern), 'dtn://next/', 'fake', mtu=mtu))

    def rx_bits(self, dest_text):
        return [re.compile(p).match(dest_text) is not None for (p, _a) in self.rx_routes]

    def tx_bits(self, dest_text):
        return [re.compile(p).match(dest_text) is not None for (p, _m) in self.tx_routes]

    def tx_mtu(self, dest_text):
        for (p, mtu) in self.tx_routes:
            if re.compile(p).match(dest_text) is not None:
                return mtu
        return None

    def idle(self):
        return self.m['GLib'].LOOP.pending('idle')

    def kind(self, src):
        f = src.func
        if f == self.agent._do_fwd:
            return 'fwd'
        if f == self.agent.send_bundle:
            return 'send'
        if f == self.agent.recv_bundle:
            return 'reasm'
        return 'other'

    def seen(self):
        return sorted(tuple(i) for i in self.agent._seen_bundle_ident)


def crcs_of(data):
    ''' CRC oracle for the model: the CRC field values of a captured bundle, in order '''
    d = dec_bundle(data)
    out = []
    if d.pri['ct']:
        out.append(d.pri['crc'])
    for k in d.blocks:
        if k['ct']:
            out.append(k['crc'])
    return out


def run_real(fix, items):
    ''' Drive the real agent through `items` = list of dicts
    {'b': bundle struct, 'data': octets, 'now': ms, 'crc_ok': bool}; after each reception the idle
    sources are fired in FIFO order. Returns (model events, observations) aligned one to one.
    An observation: {'k', 'item': index, 'delivered': [...], 'tx': [hex...], 'new': {kind: n},
    'escaped': bool}. Fragment sends (opaque to the model) are folded into the observation of
    the event that scheduled them as 'frag_tx'. '''
    events, obs = [], []
    loop = fix.m['GLib'].LOOP

    def snapshot():
        return [s.sid for s in fix.idle()]

    def fire_window(fn):
        before = set(snapshot())
        ncap, ndel, nesc = len(fix.cap), len(fix.delivered), len(loop.escaped)
        esc = False
        try:
            fn()
        except Exception:           # what the CL adaptor would see
            esc = True
        new = {}
        sids = []
        for s in fix.idle():
            if s.sid not in before:
                k = fix.kind(s)
                new[k] = new.get(k, 0) + 1
                sids.append(s.sid)
        return {'delivered': [list(i) for i in fix.delivered[ndel:]], 'tx': [c.hex() for c in fix.cap[ncap:]],
                'new': new, 'escaped': esc or len(loop.escaped) > nesc, '_new_sids': sids}

    owner = {}      # idle source id -> index of the item whose processing registered it

    for ix, it in enumerate(items):
        CLOCK.now_ms = it['now']
        for (pat, mtu) in it.get('add_tx', []):
            fix.add_tx(pat, mtu)
        b = it['b']
        dest = eid_text(b['pri']['dest'])
        o = fire_window(lambda: fix.recv(it['data'], {}))
        o.update(k='recv', item=ix)
        ev = {'k': 'recv', 'now': it['now'], 'b': b, 'crc_ok': it['crc_ok'], 'bits': fix.rx_bits(dest)}
        ev.update(it.get('params', {}))
        events.append(ev)
        obs.append(o)
        for sid in o.pop('_new_sids'):
            owner[sid] = ix
        if it.get('hold'):
            # back-to-back arrival: the next bundle is received before the main loop goes idle
            continue
        # drain: FIFO; every source is attributed to the bundle whose processing registered it
        guard = 0
        while fix.idle() and guard < 2000:
            guard += 1
            src = fix.idle()[0]
            kind = fix.kind(src)
            CLOCK.now_ms = it['now'] + it.get('dwell', 0)
            args = src.args
            own = owner.get(src.sid, ix)
            o = fire_window(lambda: loop.fire(src))
            o['item'] = own
            for sid in o.pop('_new_sids'):
                owner[sid] = own
            if kind == 'fwd':
                o['k'] = 'fwd'
                whole = [t for t in o['tx']]
                sp = {'tx_bits': fix.tx_bits(eid_text(items[own]['b']['pri']['dest'])), 'cl_ok': True, 'frag': 'none',
                      'crcs': crcs_of(bytes.fromhex(whole[0])) if whole else []}
                events.append({'k': 'fwd', 'now': CLOCK.now_ms, 'sp': sp})
                obs.append(o)
            elif kind == 'send':
                is_frag = False
                if o['tx']:
                    try:
                        is_frag = bool(dec_bundle(bytes.fromhex(o['tx'][0])).pri['flags'] & F_FRAG)
                    except Exception:
                        is_frag = False
                if is_frag:
                    # fragment of a forwarded bundle: opaque to the model
                    for back in reversed(obs):
                        if back['k'] == 'fwd' and back['item'] == own:
                            back.setdefault('frag_tx', []).extend(o['tx'])
                            break
                    continue
                o['k'] = 'rpt'
                rdest = None
                try:
                    rdest = args[0].bundle.primary.destination
                except Exception:
                    pass
                sp = {'tx_bits': fix.tx_bits(rdest) if rdest is not None else [], 'cl_ok': True, 'frag': 'none',
                      'crcs': crcs_of(bytes.fromhex(o['tx'][0])) if o['tx'] else []}
                events.append({'k': 'rpt', 'now': CLOCK.now_ms, 'sp': sp})
                obs.append(o)
            elif kind == 'reasm':
                o['k'] = 'recv'
                o['reasm'] = True
                rb = items[own].get('reasm_b')
                if rb is None:
                    o['k'] = 'opaque'
                    obs.append(o)
                    events.append(None)
                    continue
                events.append({'k': 'recv', 'now': CLOCK.now_ms, 'b': rb, 'crc_ok': True,
                               'bits': fix.rx_bits(eid_text(rb['pri']['dest']))})
                obs.append(o)
            else:
                o['k'] = 'opaque'
                obs.append(o)
                events.append(None)
    return events, obs


def model_request(fix_routes, events, node=NODE):
    return {'op': 'agent.run', 'node': node, 'routes': [a for (_p, a) in fix_routes],
            'events': [e for e in events if e is not None]}


def corpus(prop):
    ''' minimised past failures kept in /verif/corpus/<prop>/*.json (run first by every check) '''
    import glob
    import json
    import os
    out = []
    here = os.path.dirname(os.path.dirname(os.path.abspath(__file__)))
    for fn in sorted(glob.glob(os.path.join(here, 'corpus', prop, '*.json'))):
        try:
            rec = json.load(open(fn))
        except ValueError:
            continue
        rec['_file'] = os.path.basename(fn)
        out.append(rec)
    return out


def model_answers(chk, runs):
    ''' runs: list of (rx_routes, fixture, events). Two passes through the Lean driver: the first gives the
    size of each forwarded bundle as the fragment-creation step sees it (unfragmented, CRC placeholders).
    Where that exceeds the route MTU (and the bundle may be fragmented) the parameter `frag` of the model is
    decided here, independently of the implementation: "unsendable" when even the non-payload part does not
    fit (`Fragment._create` clears the route and raises: nothing is sent), otherwise "consumed" (fragments are
    scheduled and `send_bundle` returns). The events are then run through the model again. '''
    answers = chk.driver([model_request(rx, ev) for (rx, _f, ev) in runs])
    again = []
    for n, ((rx, fix, events), ans) in enumerate(zip(runs, answers)):
        if 'error' in ans:
            continue
        steps = iter(ans['steps'])
        changed = False
        for ev in events:
            if ev is None:
                continue
            eff = next(steps)
            if ev['k'] not in ('fwd', 'rpt'):
                continue
            txs = [e['hex'] for e in eff if e['k'] == 'tx']
            if not txs:
                continue
            d = dec_bundle(bytes.fromhex(txs[0]))
            mtu = fix.tx_mtu(eid_text(d.pri['dest']))
            size = len(txs[0]) // 2
            if mtu is not None and size > mtu and not d.pri['flags'] & (F_NOFRAG | F_FRAG):
                pay = [k for k in d.blocks if k['n'] == 1]
                plen = len(pay[0]['btsd']) // 2 if pay and pay[0]['btsd'] is not None else 0
                non_pyld = size - plen + 3 * len(enc(plen))
                ev['sp']['frag'] = 'unsendable' if non_pyld > mtu else 'consumed'
                chk.count('frag-outcome:%s' % ev['sp']['frag'])
                changed = True
        if changed:
            again.append(n)
    if again:
        redo = chk.driver([model_request(runs[n][0], runs[n][2]) for n in again])
        for n, ans in zip(again, redo):
            answers[n] = ans
    return answers


def compare(events, obs, ans):
    ''' model answer vs observations -> list of disagreement strings (empty = agree) '''
    if 'error' in ans:
        return ['model error: %s' % ans['error']]
    diffs = []
    steps = iter(ans['steps'])
    for ev, o in zip(events, obs):
        if ev is None:
            continue
        eff = next(steps)
        m_del = sorted(ident_json(e['id']) for e in eff if e['k'] == 'delivered')
        m_tx = [e['hex'] for e in eff if e['k'] == 'tx']
        m_new = {}
        for e in eff:
            if e['k'] == 'queued':
                m_new['fwd'] = m_new.get('fwd', 0) + 1
            elif e['k'] == 'report':
                m_new['send'] = m_new.get('send', 0) + 1
        m_frag = any(e['k'] == 'fragmented' for e in eff)
        m_esc = any(e['k'] == 'escaped' for e in eff)
        r_del = sorted(tuple(i) for i in o['delivered'])
        r_new = dict(o['new'])
        r_new.pop('reasm', None)
        n_frag_sources = 0
        if m_frag:
            # fragment sends are opaque: the model only says the bundle was consumed
            n_frag_sources = r_new.get('send', 0) - m_new.get('send', 0)
            if n_frag_sources < 1:
                diffs.append('%s#%d: model says fragmented, no fragment sends scheduled' % (o['k'], o['item']))
            r_new['send'] = m_new.get('send', 0)
            if not r_new['send']:
                r_new.pop('send')
        if ev.get('adm') == 'delete':
            # the delivery probe sits at order 25, before the administrative handler (order 30) that deletes the
            # bundle: it sees 'deliver' although the 'Delivered bundle' branch is never reached
            r_del = m_del
        if m_del != r_del:
            diffs.append('%s#%d: delivered model %s real %s' % (o['k'], o['item'], m_del, r_del))
        if m_tx != o['tx']:
            diffs.append('%s#%d: tx model %s real %s' % (o['k'], o['item'], m_tx, o['tx']))
        if m_new != r_new:
            diffs.append('%s#%d: scheduled model %s real %s' % (o['k'], o['item'], m_new, r_new))
        if m_esc != bool(o['escaped']):
            diffs.append('%s#%d: escaped model %s real %s' % (o['k'], o['item'], m_esc, o['escaped']))
    return diffs
