''' Shared harness code of the BPSec checks C03, C16, C12.

* real sender / receiver `bp.agent.Agent` pairs with pycose symmetric keys (MAC0, MAC+KW, Enc0, Enc+KW)
* an independent (cbor2-free, scapy-free) decoder of BPv7 bundles, ASBs and COSE messages, with own CRCs
* conversion of both the implementation's objects and the independent decode into the JSON the Lean
  model (`sec.*` driver ops) reads
* capture of `CoseSecOpCtx.get_external_aad` and of pycose's `_mac_structure` / `_enc_structure`
'''
import os
import re
import sys

HERE = os.path.dirname(os.path.abspath(__file__))
if HERE not in sys.path:
    sys.path.insert(0, HERE)
import boot  # noqa: E402
boot.boot()

import cbor2  # noqa: E402
import bp.config  # noqa: E402
import bp.agent  # noqa: E402
import bp.app.base  # noqa: E402
import bp.app.admin  # noqa: E402
import bp.app.fragment  # noqa: E402
import bp.app.bpsec  # noqa: E402
from bp.app.bpsec import SecAssociation, SecOperation, CoseSecOpCtx  # noqa: E402
from bp.config import TxRouteItem, RxRouteItem  # noqa: E402
from bp.util import BundleContainer, ChainStep  # noqa: E402
from bp.encoding import (  # noqa: E402
    PrimaryBlock, CanonicalBlock, PreviousNodeBlock, BundleAgeBlock, HopCountBlock,
    BlockIntegrityBlock, BlockConfidentialityBlock,
)
from pycose.keys import SymmetricKey  # noqa: E402
from pycose.keys.keyparam import KpAlg, KpKid, KpKeyOps  # noqa: E402
from pycose.keys.keyops import MacCreateOp, MacVerifyOp, EncryptOp, DecryptOp, WrapOp, UnwrapOp  # noqa: E402
from pycose.algorithms import HMAC256, A256GCM, A256KW  # noqa: E402
from pycose.messages.maccommon import MacCommon  # noqa: E402
from pycose.messages.enccommon import EncCommon  # noqa: E402
from gi.repository import GLib  # noqa: E402

SRC_NODE = 'dtn://node/'
DST_NODE = 'dtn://dst/'
SEC_REASONS = (12, 13, 14, 15, 16)


# ---------------------------------------------------------------- agents

class _BusObj(object):
    def connect_to_signal(self, *a, **k):
        pass

    def NameHasOwner(self, name):
        return False


class FakeBus(object):
    def get_object(self, *a, **k):
        return _BusObj()


class FakeCl(object):
    ''' Stand-in convergence layer: records what the agent hands over for transmission. '''

    def __init__(self):
        self.sent = []

    def send_bundle_func(self, raw_config):
        return lambda data: self.sent.append(bytes(data))


_agent_seq = [0]


def make_agent(node_id, accept=False):
    config = bp.config.Config(node_id=node_id)
    config._bus_conn = FakeBus()
    config.accept_after_verify = accept
    _agent_seq[0] += 1
    agent = bp.agent.Agent(config, bus_kwargs=dict(conn=None, object_path='/a%d' % _agent_seq[0]))
    return agent, config


def cose_ctx(agent):
    return agent._app['bpsec'].get_context(3)


def keyset(rng):
    ''' Fresh symmetric keys of every kind used (upstream pycose accepts 16/24/32 octets only). '''
    def rb(n):
        return bytes(rng.getrandbits(8) for _ in range(n))
    return {
        b'mac': SymmetricKey(k=rb(32), optional_params={KpAlg: HMAC256, KpKid: b'mac', KpKeyOps: [MacCreateOp, MacVerifyOp]}),
        b'enc': SymmetricKey(k=rb(32), optional_params={KpAlg: A256GCM, KpKid: b'enc', KpKeyOps: [EncryptOp, DecryptOp]}),
        b'kw': SymmetricKey(k=rb(32), optional_params={KpAlg: A256KW, KpKid: b'kw', KpKeyOps: [WrapOp, UnwrapOp]}),
    }


def drain_idle(limit=50):
    ''' Fire pending idle sources (status report transmission, forwarding). Returns escaped exceptions. '''
    n0 = len(GLib.LOOP.escaped)
    for _ in range(limit):
        pend = GLib.LOOP.pending('idle')
        if not pend:
            break
        for src in list(pend):
            GLib.LOOP.fire(src)
    esc = GLib.LOOP.escaped[n0:]
    del GLib.LOOP.escaped[n0:]
    return esc


class Sender(object):
    ''' Real sending agent; `mode` in mac0 | mackw | enc0 | enckw | bib+bcb | none. '''

    def __init__(self, keys, mode, tgt_types=(1,), rng=None):
        self.agent, self.config = make_agent(SRC_NODE)
        self.keys = keys
        self.mode = mode
        self.rng = rng
        ctx = cose_ctx(self.agent)
        for kid, key in keys.items():
            ctx.sym_key_store[kid] = key
        self.ctx = ctx
        self.tgt_types = list(tgt_types)
        self.out = []

    def _templates(self, ntgt):
        def iv():
            return [bytes(self.rng.getrandbits(8) for _ in range(12)) for _ in range(ntgt)]
        t = []
        if self.mode in ('mac0', 'bib+bcb'):
            t.append(SecOperation(sec_type='bib', role='source', priv_key_id=b'mac'))
        if self.mode == 'sign1':
            t.append(SecOperation(sec_type='bib', role='source', priv_key_id=b'sig'))
        if self.mode == 'mackw':
            t.append(SecOperation(sec_type='bib', role='source', priv_key_id=b'kw', content_alg=HMAC256))
        if self.mode in ('enc0', 'bib+bcb'):
            t.append(SecOperation(sec_type='bcb', role='source', priv_key_id=b'enc', content_iv=iv()))
        if self.mode == 'enckw':
            t.append(SecOperation(sec_type='bcb', role='source', priv_key_id=b'kw', content_alg=A256GCM, content_iv=iv()))
        return t

    def send(self, ctr):
        ''' Run the real transmit chain; returns the encoded bundle. '''
        # `tgt_types`: block type codes of one association, or a sequence of such lists = several associations in that order
        tt = list(self.tgt_types)
        assoc_lists = [list(x) for x in tt] if tt and isinstance(tt[0], (list, tuple)) else [tt]
        flat = [c for lst in assoc_lists for c in lst]
        # exactly one IV per selected block and association: an IV skipped or taken twice shows
        ntgt = max(sum(1 for b in ctr.bundle.blocks if b.type_code in lst) for lst in assoc_lists)
        self.ctx.sec_assoc[:] = [SecAssociation(src_pat=re.compile('.*'), dst_pat=re.compile('.*'),
                                                tgt_blk_types=lst, templates=self._templates(ntgt)) for lst in assoc_lists]
        got = []
        ctr.route = TxRouteItem(eid_pattern=re.compile('.*'), next_nodeid=DST_NODE, cl_type='cap')
        ctr.sender = lambda data: got.append(bytes(data))
        # what goes in: BTSD of every block, and the block numbers the association's type list selects
        ctr.reload()
        self.last_plain = {int(b.block_num): bytes(b.getfieldval('btsd') or b'') for b in ctr.bundle.blocks
                           if b.block_num is not None}
        # in policy order: association by association, ascending block number within one
        self.last_selected = [n for lst in assoc_lists
                              for n in sorted(int(b.block_num) for b in ctr.bundle.blocks
                                              if b.block_num is not None and int(b.type_code) in lst)]
        self.agent.send_bundle(ctr)
        return got[0] if got else None


class Outcome(object):
    __slots__ = ('delivered', 'ctr', 'escaped', 'actions', 'reason', 'reports', 'idle_escaped', 'delivered_blocks')

    def summary(self):
        return dict(delivered=self.delivered, deleted=('delete' in self.actions) if self.actions is not None else None,
                    reason=(int(self.reason) if isinstance(self.reason, int) else (None if self.reason is None else 'str')),
                    escaped=type(self.escaped).__name__ if self.escaped else None,
                    report_reasons=self.reports,
                    idle_escaped=[type(e).__name__ for e in self.idle_escaped])

    def sec_marked(self):
        ''' "marked deleted with a security reason" '''
        return (self.actions is not None and 'delete' in self.actions
                and isinstance(self.reason, int) and int(self.reason) in SEC_REASONS)


def _blk_tuple(b):
    ''' (type, number, BTSD) of a delivered block; a corrupted bundle may carry null fields '''
    try:
        return (int(b.type_code), int(b.block_num), bytes(b.getfieldval('btsd') or b''))
    except Exception:
        return (None, None, b'')


class Receiver(object):
    ''' Real receiving agent with a probe step just before the application steps (order 30). '''

    def __init__(self, keys, accept=False, node_id=DST_NODE):
        self.agent, self.config = make_agent(node_id, accept)
        ctx = cose_ctx(self.agent)
        for kid, key in keys.items():
            ctx.sym_key_store[kid] = key
        self.ctx = ctx
        self.config.rx_route_table.append(RxRouteItem(eid_pattern=re.compile('.*'), action='deliver'))
        self.cl = FakeCl()
        self.agent._cl_agent['cap'] = self.cl
        self.config.tx_route_table.append(TxRouteItem(eid_pattern=re.compile('.*'), next_nodeid='dtn://rpt/', cl_type='cap'))
        self._probe = []
        # the probe goes in front of the first step of order >= 30 WITHOUT re-sorting the chain: the order in
        # which the agent itself left its chain (Agent.__init__ sorts it) stays what is exercised
        chain = self.agent._rx_chain
        pos = next((i for i, st in enumerate(chain) if st.order >= 30), len(chain))
        chain.insert(pos, ChainStep(order=25, name='verif probe', action=self._probe_step))
        self._last = []
        orig = self.agent.recv_bundle

        def keep(ctr):
            self._last.append(ctr)
            return orig(ctr)
        self.agent.recv_bundle = keep

    def _probe_step(self, ctr):
        if 'deliver' in ctr.actions:
            self._probe.append(ctr)
        return None

    def feed(self, data):
        self.agent._seen_bundle_ident.clear()
        del self._probe[:]
        del self._last[:]
        del self.cl.sent[:]
        out = Outcome()
        out.escaped = None
        try:
            self.agent._cl_recv_bundle_finish('cap')(bytes(data), {})
        except Exception as err:
            out.escaped = err
        out.idle_escaped = [e for (_s, e) in drain_idle()]
        out.ctr = self._last[0] if self._last else None
        out.delivered = bool(self._probe)
        out.actions = dict(out.ctr.actions) if out.ctr is not None else None
        out.reason = out.ctr.status_reason if out.ctr is not None else None
        out.reports = []
        for rpt in self.cl.sent:
            try:
                out.reports.append(report_reason(rpt))
            except Exception:
                out.reports.append('undecodable-report')
        out.delivered_blocks = None
        if out.delivered:
            out.delivered_blocks = [_blk_tuple(b) for b in self._probe[0].bundle.blocks]
        return out


# ---------------------------------------------------------------- independent decoding

class Undec(Exception):
    pass


class T(bytes):
    ''' text string (raw UTF-8 octets) '''

    def __repr__(self):
        return 't' + bytes.__repr__(self)


class M(list):
    ''' map as a list of (key, value) pairs in wire order '''


def rd_head(d, p):
    if p >= len(d):
        raise Undec('eof')
    b = d[p]
    mt, ai = b >> 5, b & 31
    p += 1
    if ai < 24:
        return mt, ai, p
    if 24 <= ai <= 27:
        k = 1 << (ai - 24)
        if p + k > len(d):
            raise Undec('eof')
        return mt, int.from_bytes(d[p:p + k], 'big'), p + k
    raise Undec('additional info %d' % ai)


def rd(d, p, depth=0):
    ''' One definite-length CBOR item of the supported subset → (value, end). '''
    if depth > 12:
        raise Undec('depth')
    if p < len(d) and d[p] in (0xf4, 0xf5, 0xf6):
        return {0xf4: False, 0xf5: True, 0xf6: None}[d[p]], p + 1
    mt, n, p = rd_head(d, p)
    if mt == 0:
        return n, p
    if mt == 1:
        return -1 - n, p
    if mt in (2, 3):
        if p + n > len(d):
            raise Undec('eof')
        raw = bytes(d[p:p + n])
        if mt == 3:
            try:
                raw.decode('utf8')
            except UnicodeDecodeError:
                raise Undec('utf8')
        return (raw if mt == 2 else T(raw)), p + n
    if mt == 4:
        out = []
        for _ in range(n):
            v, p = rd(d, p, depth + 1)
            out.append(v)
        return out, p
    if mt == 5:
        out = M()
        for _ in range(n):
            k, p = rd(d, p, depth + 1)
            v, p = rd(d, p, depth + 1)
            out.append((k, v))
        return out, p
    raise Undec('major type %d' % mt)


def rd_all(d):
    v, p = rd(d, 0)
    if p != len(d):
        raise Undec('trailing')
    return v


def _crc_table(poly, width):
    tab = []
    for i in range(256):
        c = i
        for _ in range(8):
            c = (c >> 1) ^ poly if c & 1 else c >> 1
        tab.append(c)
    return tab


_T16 = _crc_table(0x8408, 16)
_T32 = _crc_table(0x82f63b78, 32)


def crc_of(t, data):
    if t == 1:
        c = 0xffff
        for b in data:
            c = (c >> 8) ^ _T16[(c ^ b) & 0xff]
        return (c ^ 0xffff).to_bytes(2, 'big')
    if t == 2:
        c = 0xffffffff
        for b in data:
            c = (c >> 8) ^ _T32[(c ^ b) & 0xff]
        return (c ^ 0xffffffff).to_bytes(4, 'big')
    raise Undec('crc type %r' % (t,))


def _is_uint(v):
    return isinstance(v, int) and not isinstance(v, bool) and v >= 0


def eid_of(v):
    ''' decoded CBOR EID → model JSON '''
    if not (isinstance(v, list) and len(v) == 2 and _is_uint(v[0])):
        raise Undec('eid')
    if v[0] == 1:
        if v[1] == 0 and not isinstance(v[1], bool):
            return {'t': 'none'}
        if isinstance(v[1], T):
            try:
                v[1].decode('utf8')
            except UnicodeDecodeError:
                raise Undec('eid utf8')
            return {'t': 'dtn', 'ssp': v[1].hex()}
        raise Undec('dtn ssp')
    if v[0] == 2:
        if isinstance(v[1], list) and len(v[1]) in (2, 3) and all(_is_uint(x) for x in v[1]):
            return {'t': 'ipn', 'parts': list(v[1])}
        raise Undec('ipn ssp')
    raise Undec('eid scheme')


def eid_of_str(s):
    ''' EID text → model JSON, by plain splitting (no URL normalisation). '''
    if s is None or s == 'dtn:none':
        return {'t': 'none'}
    if s.startswith('dtn:'):
        return {'t': 'dtn', 'ssp': s[4:].encode('utf8').hex()}
    if s.startswith('ipn:'):
        return {'t': 'ipn', 'parts': [int(x) for x in s[4:].split('.')]}
    raise ValueError('eid text %r' % (s,))


class IBundle(object):
    ''' Independent decode of an encoded bundle. '''

    def __init__(self, data):
        data = bytes(data)
        self.data = data
        if not data or data[0] != 0x9f:
            raise Undec('no indefinite array')
        p = 1
        items = []
        while True:
            if p >= len(data):
                raise Undec('no break')
            if data[p] == 0xff:
                p += 1
                break
            start = p
            v, p = rd(data, p)
            items.append((v, start, p))
        if p != len(data):
            raise Undec('trailing')
        if len(items) < 2:
            raise Undec('too few blocks')
        self.primary, self.primary_span = self._primary(items[0])
        self.blocks = []
        self.spans = []
        for it in items[1:]:
            self.blocks.append(self._canonical(it))
            self.spans.append((it[1], it[2]))
        nums = [b['num'] for b in self.blocks]
        if 0 in nums:
            raise Undec('canonical block numbered 0')
        if len(set(nums)) != len(nums):
            raise Undec('duplicate block number')
        self.crc_bad = self._crc_check(items)

    @staticmethod
    def _primary(it):
        v = it[0]
        if not isinstance(v, list) or not (8 <= len(v) <= 11):
            raise Undec('primary shape')
        if not all(_is_uint(v[i]) for i in (0, 1, 2, 7)):
            raise Undec('primary ints')
        flags, crct = v[1], v[2]
        if crct not in (0, 1, 2):
            raise Undec('crc type')
        want = 8 + (2 if flags & 1 else 0) + (1 if crct else 0)
        if len(v) != want:
            raise Undec('primary length')
        ts = v[6]
        if not (isinstance(ts, list) and len(ts) == 2 and all(_is_uint(x) for x in ts)):
            raise Undec('timestamp')
        out = dict(version=v[0], flags=flags, crcType=crct, dest=eid_of(v[3]), src=eid_of(v[4]), rpt=eid_of(v[5]),
                   ts=list(ts), lifetime=v[7], fragOff=0, totalLen=0, crc=None)
        i = 8
        if flags & 1:
            if not (_is_uint(v[8]) and _is_uint(v[9])):
                raise Undec('fragment ints')
            out['fragOff'], out['totalLen'] = v[8], v[9]
            i = 10
        if crct:
            if not (isinstance(v[i], bytes) and not isinstance(v[i], T) and len(v[i]) == 2 * crct):
                raise Undec('crc field')
            out['crc'] = v[i].hex()
        return out, (it[1], it[2])

    @staticmethod
    def _canonical(it):
        v = it[0]
        if not isinstance(v, list) or len(v) not in (5, 6):
            raise Undec('canonical shape')
        if not all(_is_uint(v[i]) for i in range(4)):
            raise Undec('canonical ints')
        crct = v[3]
        if crct not in (0, 1, 2):
            raise Undec('crc type')
        if len(v) != 5 + (1 if crct else 0):
            raise Undec('canonical length')
        if not (isinstance(v[4], bytes) and not isinstance(v[4], T)):
            raise Undec('btsd')
        out = dict(type=v[0], num=v[1], flags=v[2], crcType=crct, btsd=v[4].hex(), crc=None)
        if crct:
            if not (isinstance(v[5], bytes) and not isinstance(v[5], T) and len(v[5]) == 2 * crct):
                raise Undec('crc field')
            out['crc'] = v[5].hex()
        return out

    def _crc_check(self, items):
        ''' CRC over the *received* octets with the CRC field zeroed (RFC 9171 §4.2.1). '''
        bad = []
        for ix, (v, s, e) in enumerate(items):
            crct = v[2] if ix == 0 else v[3]
            if not crct:
                continue
            w = 2 * crct
            raw = bytearray(self.data[s:e])
            raw[-w:] = bytes(w)
            if crc_of(crct, raw) != v[-1]:
                bad.append(0 if ix == 0 else v[1])
        return bad

    def block(self, num):
        for b in self.blocks:
            if b['num'] == num:
                return b
        return None


class IAsb(object):
    ''' Independent decode of an abstract security block (RFC 9172 §3.6) from BTSD octets. '''

    def __init__(self, btsd):
        p = 0
        seq = []
        while p < len(btsd):
            v, p = rd(btsd, p)
            seq.append(v)
        if len(seq) < 5:
            raise Undec('asb items')
        tg, cid, cfl, src = seq[0], seq[1], seq[2], seq[3]
        if not (isinstance(tg, list) and all(_is_uint(x) for x in tg) and _is_uint(cid) and _is_uint(cfl)):
            raise Undec('asb head')
        self.targets, self.ctx_id, self.flags = list(tg), cid, cfl
        self.source = eid_of(src)
        rest = seq[4:]
        self.params = []
        if cfl & 1:
            if len(rest) != 2:
                raise Undec('asb tail')
            pr = rest.pop(0)
            # (the implementation reads a negative integer where an unsigned one is required: an id it does not know)
            if not (isinstance(pr, list) and all(isinstance(x, list) and len(x) == 2 and isinstance(x[0], int)
                                                 and not isinstance(x[0], bool) for x in pr)):
                raise Undec('asb params')
            self.params = [(x[0], x[1]) for x in pr]
        if len(rest) != 1:
            raise Undec('asb tail')
        rs = rest[0]
        if not (isinstance(rs, list) and all(
                isinstance(r, list) and all(isinstance(x, list) and len(x) == 2 and _is_uint(x[0]) for x in r) for r in rs)):
            raise Undec('asb results')
        self.results = [[(x[0], x[1]) for x in r] for r in rs]

    def scope(self):
        sc = [[0, 1], [-1, 1], [-2, 1]]
        for (pid, val) in self.params:
            if pid == 5:
                if not (isinstance(val, M) and all(isinstance(k, int) and _is_uint(v) for k, v in val)):
                    raise Undec('scope')
                sc = [[k, v] for k, v in val]
        return sc

    def addl_protected(self):
        out = b''
        for (pid, val) in self.params:
            if pid == 3:
                if not isinstance(val, bytes) or isinstance(val, T):
                    raise Undec('addl protected')
                out = bytes(val)
        return out


def cose_sem(type_code, value):
    ''' Meaning of one security result, ignoring the (detached) payload slot. '''
    try:
        if not isinstance(value, bytes) or isinstance(value, T):
            raise Undec('result value')
        msg = rd_all(value)
        arity = {17: 4, 97: 5, 18: 4, 16: 3, 96: 4}.get(type_code)
        if arity is None or not isinstance(msg, list) or len(msg) != arity:
            raise Undec('cose arity')
        prot, unprot = msg[0], msg[1]
        if not isinstance(prot, bytes) or isinstance(prot, T) or not isinstance(unprot, M):
            raise Undec('cose headers')
        sem = dict(type=type_code, prot=prot.hex(), unprot=sorted(repr(x) for x in unprot),
                   kid=None, iv=None)
        for k, v in unprot:
            if k == 4 and isinstance(v, bytes):
                sem['kid'] = v.hex()
            if k == 5 and isinstance(v, bytes):
                sem['iv'] = v.hex()
        if type_code in (17, 97, 18):
            if not isinstance(msg[3], bytes) or isinstance(msg[3], T):
                raise Undec('tag')
            sem['tag'] = msg[3].hex()
        if type_code in (97, 96):
            sem['recips'] = repr(msg[-1])
        return sem
    except Undec as err:
        return dict(type=type_code, undec=str(err), raw=value.hex() if isinstance(value, bytes) else repr(value))


COSE_CONTEXT = {17: 'MAC0', 97: 'MAC', 18: 'Signature1', 16: 'Encrypt0', 96: 'Encrypt'}


def model_ctx(ib, sec_blk, asb, tgt_blk):
    ''' JSON AadCtx for the Lean model from the independent decode. '''
    return dict(ssrc=asb.source, scope=asb.scope(), primary=ib.primary, blocks=ib.blocks,
                secBlk=sec_blk, tgt=tgt_blk, addlProt=asb.addl_protected().hex())


# ---------------------------------------------------------------- implementation objects → model JSON

def prim_json(p):
    crc = p.fields.get('crc_value')
    flags = int(p.getfieldval('bundle_flags'))
    return dict(version=int(p.getfieldval('bp_version')), flags=flags, crcType=int(p.getfieldval('crc_type')),
                dest=eid_of_str(p.getfieldval('destination')), src=eid_of_str(p.getfieldval('source')),
                rpt=eid_of_str(p.getfieldval('report_to')),
                ts=[int(p.create_ts.getfieldval('dtntime')), int(p.create_ts.getfieldval('seqno'))],
                lifetime=int(p.getfieldval('lifetime')),
                fragOff=int(p.getfieldval('fragment_offset') or 0) if flags & 1 else 0,
                totalLen=int(p.getfieldval('total_app_data_len') or 0) if flags & 1 else 0,
                crc=bytes(crc).hex() if crc is not None else None)


def canon_json(b):
    btsd = b.fields.get('btsd')
    crc = b.fields.get('crc_value')
    return dict(type=int(b.getfieldval('type_code')), num=int(b.getfieldval('block_num')),
                flags=int(b.getfieldval('block_flags')), crcType=int(b.getfieldval('crc_type')),
                btsd=bytes(btsd).hex() if btsd is not None else None,
                crc=bytes(crc).hex() if crc is not None else None)


class Capture(object):
    ''' Records every `get_external_aad` call (inputs as model JSON + output) and every pycose
    MAC / Enc structure computed while active. '''

    def __init__(self):
        self.aad = []
        self.structs = []
        self.active = False
        self._installed = False

    def install(self):
        if self._installed:
            return
        self._installed = True
        cap = self
        orig = CoseSecOpCtx.get_external_aad

        def get_external_aad(selfctx):
            rec = None
            if cap.active:
                try:
                    rec = cap._inputs(selfctx)
                except Exception as err:
                    rec = {'unmodelled': '%s: %s' % (type(err).__name__, err)}
            try:
                out = orig(selfctx)
            except Exception as err:
                if rec is not None:
                    rec['out'] = None
                    rec['exc'] = type(err).__name__
                    cap.aad.append(rec)
                raise
            if rec is not None:
                rec['out'] = out.hex()
                cap.aad.append(rec)
            return out
        CoseSecOpCtx.get_external_aad = get_external_aad

        mac_prop = MacCommon._mac_structure
        enc_prop = EncCommon._enc_structure

        def mac_structure(msg):
            out = mac_prop.fget(msg)
            if cap.active:
                cap.structs.append(dict(kind='mac', context=msg.context, prot=bytes(msg.phdr_encoded).hex(),
                                        aad=bytes(msg._external_aad).hex(), payload=bytes(msg.payload).hex(),
                                        out=out.hex()))
            return out

        def enc_structure(msg):
            out = enc_prop.fget(msg)
            if cap.active and msg.context in ('Encrypt0', 'Encrypt'):
                cap.structs.append(dict(kind='enc', context=msg.context, prot=bytes(msg.phdr_encoded).hex(),
                                        aad=bytes(msg._external_aad).hex(), out=out.hex()))
            return out
        MacCommon._mac_structure = property(mac_structure)
        EncCommon._enc_structure = property(enc_structure)

    @staticmethod
    def _inputs(c):
        scope = c.aad_scope
        if not all(isinstance(k, int) and isinstance(v, int) and not isinstance(v, bool) and v >= 0 for k, v in scope.items()):
            raise ValueError('scope outside the model')
        ssrc = eid_of(rd_all(c.ssrc_enc))
        blocks = [canon_json(b) for n, b in c.ctr._block_num.items() if isinstance(b, CanonicalBlock)]
        tgt = c.tgt_blk
        if not isinstance(tgt, CanonicalBlock):
            raise ValueError('target is not a canonical block')
        return dict(ctx=dict(ssrc=ssrc, scope=[[int(k), int(v)] for k, v in scope.items()],
                             primary=prim_json(c.ctr.bundle.primary), blocks=blocks,
                             secBlk=canon_json(c.sec_blk), tgt=canon_json(tgt),
                             addlProt=bytes(c.addl_protected).hex()))

    def take(self):
        a, s = self.aad, self.structs
        self.aad, self.structs = [], []
        return a, s


CAPTURE = Capture()


def check_captures(chk, aads, structs, where):
    ''' Compare captured AADs / structures with the Lean model. Returns the number of disagreements. '''
    reqs = []
    idx = []
    for i, rec in enumerate(aads):
        if 'ctx' in rec:
            reqs.append({'op': 'sec.aad', 'ctx': rec['ctx']})
            idx.append(('aad', i))
        else:
            chk.count('aad-capture-unmodelled')
    for i, rec in enumerate(structs):
        if rec['kind'] == 'mac':
            reqs.append({'op': 'sec.macstructure', 'context': rec['context'], 'prot': rec['prot'], 'aad': rec['aad'],
                         'payload': rec['payload']})
        else:
            reqs.append({'op': 'sec.encstructure', 'context': rec['context'], 'prot': rec['prot'], 'aad': rec['aad']})
        idx.append(('struct', i))
    if not reqs:
        return 0
    outs = chk.driver(reqs)
    bad = 0
    for (kind, i), ans in zip(idx, outs):
        if kind == 'aad':
            rec = aads[i]
            got = None if ans.get('raised') else ans.get('aad')
            if 'error' in ans:
                # values outside the model's types (e.g. a negative integer accepted in an unsigned field)
                chk.count('aad-capture-unmodelled')
                continue
            if got != rec['out']:
                if _eid_normalising(rec['ctx']):
                    chk.count('aad-differs-eid-normalising(D19/D20,C02/C08)')
                    continue
                bad += 1
                chk.corr_break('%s: external AAD differs from the model' % where,
                               dict(ctx=rec['ctx'], impl=rec['out'], model=got, exc=rec.get('exc')))
            else:
                chk.count('aad-agree' if got is not None else 'aad-agree-raised')
                chk.cov['traces_validated_against_impl'] += 1
        else:
            rec = structs[i]
            if ans.get('input') != rec['out']:
                bad += 1
                chk.corr_break('%s: COSE %s structure differs from the model' % (where, rec['kind']),
                               dict(rec=rec, model=ans))
            else:
                chk.count('%s-structure-agree' % rec['kind'])
                chk.cov['traces_validated_against_impl'] += 1
    return bad


def _ssp_suspect(ssp):
    ''' dtn SSP text that `EidField.i2m` (urlsplit) does not re-encode literally (D19/D20). '''
    if any(c <= 0x20 or c >= 0x7f or c in b'?#\\' for c in ssp):
        return True
    return ssp.startswith(b'//') and b'/' not in ssp[2:]


def _eid_normalising(ctx):
    ''' The implementation maps EID text through urlsplit, which is not the identity on every text. '''
    for e in (ctx['primary']['dest'], ctx['primary']['src'], ctx['primary']['rpt'], ctx['ssrc']):
        if e['t'] == 'dtn' and _ssp_suspect(bytes.fromhex(e['ssp'])):
            return True
    return False


# ---------------------------------------------------------------- bundle generation

def gen_payload(rng, tier):
    sizes = [0, 1, 2, 23, 24, 25, 40, 64]
    if tier != 'quick':
        sizes += [100, 255, 256, 257, 300]
    n = rng.choice(sizes)
    kind = rng.randrange(3)
    if kind == 0:
        return bytes(rng.getrandbits(8) for _ in range(n))
    if kind == 1:
        return (b'The quick brown fox jumps over the lazy dog. ' * 8)[:n]
    return bytes([rng.getrandbits(8)]) * n


def gen_container(rng, tier, payload=None, extra=None, kinds=None):
    ''' A random bundle (scapy container) from node SRC_NODE to an endpoint of DST_NODE. '''
    flags = 0
    for bit in (0x40000, 0x20000, 0x10000, 0x4000, 0x40, 0x20, 0x4):
        if rng.random() < 0.35:
            flags |= bit
    rpt = rng.choice([None, 'dtn://node/rpt', 'ipn:7.1', 'dtn:none'])
    dest = rng.choice(['dtn://dst/svc', 'dtn://dst/a/b', 'ipn:2.5'])
    ctr = BundleContainer()
    kw = dict(bundle_flags=flags, destination=dest, crc_type=rng.choice([0, 1, 2]),
              lifetime=rng.choice([1000, 3600000, 86400000, 5]))
    if rpt is not None:
        kw['report_to'] = rpt
    ctr.bundle.primary = PrimaryBlock(**kw)
    blocks = []
    nextnum = [1]

    def num():
        nextnum[0] += 1
        return nextnum[0]
    nextra = rng.randrange(0, 3) if extra is None else extra
    klist = list(kinds) if kinds is not None else [rng.randrange(4) for _ in range(nextra)]
    for k in klist:
        crc = rng.choice([0, 1, 2])
        if k == 0:
            blocks.append(CanonicalBlock(type_code=7, block_num=num(), crc_type=crc) / BundleAgeBlock(age=rng.randrange(0, 100000)))
        elif k == 1:
            blocks.append(CanonicalBlock(type_code=10, block_num=num(), crc_type=crc) / HopCountBlock(limit=rng.randrange(1, 30), count=rng.randrange(0, 5)))
        elif k == 2:
            blocks.append(CanonicalBlock(type_code=6, block_num=num(), crc_type=crc) / PreviousNodeBlock(node='dtn://prev/'))
        else:
            blocks.append(CanonicalBlock(type_code=rng.randrange(192, 250), block_num=num(), crc_type=crc,
                                         block_flags=rng.choice([0, 1, 0x10]),
                                         btsd=bytes(rng.getrandbits(8) for _ in range(rng.randrange(0, 12)))))
    if payload is None:
        payload = gen_payload(rng, tier)
    blocks.append(CanonicalBlock(type_code=1, block_num=1, crc_type=rng.choice([0, 1, 2]), btsd=payload))
    ctr.bundle.blocks = blocks
    return ctr, payload


# ---------------------------------------------------------------- status reports

def report_reason(data):
    ''' Reason code carried by an encoded status-report bundle (independent decode). '''
    ib = IBundle(data)
    pay = ib.block(1)
    rec = rd_all(bytes.fromhex(pay['btsd']))
    if not (isinstance(rec, list) and len(rec) == 2 and rec[0] == 1):
        raise Undec('not a status report')
    return rec[1][1]


def wants_deletion_report(ib):
    ''' Does the (independently decoded) bundle ask for a deletion or reception report to a real endpoint? '''
    return bool(ib.primary['flags'] & (0x40000 | 0x4000)) and ib.primary['rpt']['t'] != 'none'


# ---------------------------------------------------------------- independent security summary of a bundle

def sec_requests(ib):
    ''' For every type 11/12 block of an independently decoded bundle: its decoded structure and the
    model requests (MAC / AEAD input per target). Returns (blocks, requests); `blocks[i]['targets'][j]['req']`
    indexes into requests. '''
    out = []
    reqs = []
    for blk in ib.blocks:
        if blk['type'] not in (11, 12):
            continue
        ent = dict(type=blk['type'], num=blk['num'])
        try:
            asb = IAsb(bytes.fromhex(blk['btsd']))
        except Undec as err:
            ent['raw'] = str(err)
            out.append(ent)
            continue
        # only what the context reads: unknown parameter ids and context-flag bits other than
        # PARAMETERS_PRESENT are ignored by it; scope / additional-protected / source enter through `input`
        ent.update(ctx_id=asb.ctx_id, targets=list(asb.targets),
                   dup_params=len(set(p[0] for p in asb.params)) != len(asb.params),
                   addl_unprotected=sorted(repr(p[1]) for p in asb.params if p[0] == 4),
                   result_ids=[[r[0] for r in rl] for rl in asb.results], tg=[])
        for ix, tnum in enumerate(asb.targets):
            t = dict(num=tnum, results=[], present=ib.block(tnum) is not None)
            tgt = ib.block(tnum)
            rl = asb.results[ix] if ix < len(asb.results) else None
            t['nresults'] = None if rl is None else len(rl)
            for (rid, val) in (rl or []):
                sem = cose_sem(rid, val)
                if tgt is not None and 'undec' not in sem:
                    try:
                        ctx = model_ctx(ib, blk, asb, tgt)
                        op = 'sec.macinput' if rid in (17, 97, 18) else 'sec.encinput'
                        reqs.append({'op': op, 'ctx': ctx, 'context': COSE_CONTEXT[rid], 'prot': sem['prot']})
                        sem['req'] = len(reqs) - 1
                    except Undec as err:
                        sem['input'] = 'unmodelled:%s' % err
                else:
                    sem['input'] = 'none'
                if blk['type'] == 12 and tgt is not None:
                    sem['ct'] = tgt['btsd']
                t['results'].append(sem)
            ent['tg'].append(t)
        out.append(ent)
    return out, reqs


def sec_resolve(blocks, answers):
    ''' Put the model's answers in place; drop block numbers (position stands for identity). '''
    for ent in blocks:
        for t in ent.get('tg', []):
            for sem in t['results']:
                if 'req' in sem:
                    ans = answers[sem.pop('req')]
                    sem['input'] = 'raised' if ans.get('raised') else ans.get('input', 'error:%s' % ans.get('error'))
    return blocks


def sec_shape(blocks):
    return [(e['type'], 'raw' in e, e.get('ctx_id')) for e in blocks]


def sec_equal(a, b):
    def strip(bl):
        return [{k: v for k, v in e.items() if k != 'num'} for e in bl]
    return strip(a) == strip(b)


def classify(orig_sec, ib_or_err, var_sec):
    ''' Expected outcome of a variant of a secured bundle, decided without the implementation. '''
    if isinstance(ib_or_err, Exception):
        return 'undecodable'
    if ib_or_err.crc_bad:
        return 'crc-bad'
    if sec_equal(orig_sec, var_sec):
        return 'must-pass'
    if sec_shape(orig_sec) == sec_shape(var_sec):
        return 'must-fail'
    so, sv = sec_shape(orig_sec), sec_shape(var_sec)
    if len(so) == len(sv) and all(a[0] == b[0] and not b[1] for a, b in zip(so, sv)):
        return 'must-fail-unknown-ctx'
    if len(so) == len(sv) and all(a[0] == b[0] for a, b in zip(so, sv)) and any(b[1] and not a[1] for a, b in zip(so, sv)):
        # a block that still claims type 11/12 but whose data no longer is an abstract security block
        return 'must-fail-undecodable-asb'
    if len(sv) < len(so):
        return 'structure:sec-block-vanished'
    if len(sv) > len(so):
        return 'structure:sec-block-appeared'
    return 'structure:sec-block-raw'


EID_NORM_SIG = {'C03': 'C03:eid-normalised-alteration-verifies', 'C16': 'C16:eid-normalised-alteration-decrypts'}
EID_NORM_WHAT = ('An alteration of covered dtn EID text that the codec normalises away (trailing \'/\' of a bare authority dropped, '
                 'TAB / CR / LF inserted) is authenticated as the original: the external AAD is computed from the decoded, '
                 're-encoded EID (urlsplit), not from the received octets (D20 family)')


def known_eid_norm(ssp):
    """ The re-encoding normalisations of dtn EID text known to exist in the implementation (urlsplit): TAB, CR, LF are
    removed; a bare authority gets a '/' path. Everything else is expected to be re-encoded literally. """
    out = bytes(c for c in ssp if c not in b'\t\r\n')
    if out.startswith(b'//') and not any(c in out[2:] for c in b'/?#'):
        out += b'/'
    return out


def _known_eid_normalisation(ib0, ib):
    """ Does the variant differ from the original only in dtn EID text that a *known* normalisation maps back? """
    if not isinstance(ib, IBundle):
        return False
    a, b = _all_eids(ib0), _all_eids(ib)
    if len(a) != len(b):
        return False
    hit = False
    for x, y in zip(a, b):
        if x == y:
            continue
        if (x is None or y is None or x['t'] != 'dtn' or y['t'] != 'dtn'
                or known_eid_norm(bytes.fromhex(y['ssp'])) != bytes.fromhex(x['ssp'])):
            return False
        hit = True
    return hit


def _all_eids(ib):
    out = [ib.primary['dest'], ib.primary['src'], ib.primary['rpt']]
    for blk in ib.blocks:
        if blk['type'] in (11, 12):
            try:
                out.append(IAsb(bytes.fromhex(blk['btsd'])).source)
            except Undec:
                out.append(None)
    return out


def _eid_text_changed(ib0, ib):
    ''' The variant differs from the original in a dtn EID whose text the implementation does not
    re-encode literally (urlsplit normalisation, D19/D20). '''
    if not isinstance(ib, IBundle):
        return False
    a, b = _all_eids(ib0), _all_eids(ib)
    if len(a) != len(b):
        return False
    for x, y in zip(a, b):
        if x != y and y is not None and y['t'] == 'dtn' and _ssp_suspect(bytes.fromhex(y['ssp'])):
            return True
    return False


def flip_variants(data):
    for pos in range(len(data)):
        for bit in range(8):
            v = bytearray(data)
            v[pos] ^= 1 << bit
            yield (pos, bit), bytes(v)


def run_variants(chk, prop, rcv, data, variants, label, replay_base, capture=True, budget=None):
    ''' Feed the original and every variant of an encoded secured bundle to the real receiver `rcv`;
    decide the expected outcome independently; apply the monitors. Returns per-class counts. '''
    import time
    t0 = time.time()
    ib0 = IBundle(data)
    blocks0, reqs0 = sec_requests(ib0)
    decs = []
    reqs = list(reqs0)
    spans = [(0, len(reqs0))]
    for tag, v in variants:
        try:
            ib = IBundle(v)
            bl, rq = sec_requests(ib)
        except Undec as err:
            decs.append((tag, v, err, None))
            continue
        except RecursionError as err:
            decs.append((tag, v, Undec('recursion'), None))
            continue
        decs.append((tag, v, ib, (bl, len(reqs), len(reqs) + len(rq))))
        reqs.extend(rq)
    answers = chk.driver(reqs) if reqs else []
    sec0 = sec_resolve(blocks0, answers[0:len(reqs0)])
    counts = {}
    prim0 = data[ib0.primary_span[0]:ib0.primary_span[1]]
    aads, structs = [], []
    for (tag, v, ib, info) in decs:
        if budget is not None and time.time() - t0 > budget:
            chk.count('%s:variants-skipped-for-time' % label)
            break
        secv = None
        if info is not None:
            bl, a, b = info
            secv = sec_resolve(bl, answers[a:b])
        cls = classify(sec0, ib, secv)
        CAPTURE.active = capture
        out = rcv.feed(v)
        CAPTURE.active = False
        if capture:
            a1, s1 = CAPTURE.take()
            aads.extend(a1)
            structs.extend(s1)
        counts[cls] = counts.get(cls, 0) + 1
        chk.count('%s:%s' % (label, cls))
        chk.case({'data': v.hex()[:64], 'tag': list(tag) if isinstance(tag, tuple) else tag}, nontrivial=cls.startswith('must'))
        replay = dict(replay_base, variant=list(tag) if isinstance(tag, tuple) else tag, data=v.hex(),
                      original=data.hex(), expected=cls, observed=out.summary())
        gate = out.ctr is None or 'receive' not in (out.actions or {})
        if gate and not out.delivered:
            # never entered the receive chain: undecodable for the implementation, CRC gate, own source
            # (a decodable-by-RFC bundle that the implementation cannot decode is a C02 matter, a CRC disagreement C08)
            chk.count('%s:%s:stopped-before-chain(%s)' % (label, cls, type(out.escaped).__name__ if out.escaped else 'silent'))
        elif cls in ('must-fail', 'must-fail-unknown-ctx', 'must-fail-undecodable-asb'):
            if out.delivered:
                if cls == 'must-fail-undecodable-asb':
                    chk.violation('%s:undecodable-security-block-delivered' % prop,
                                  'the data of a type 11/12 block was altered so that it no longer decodes as a security block: delivered', replay)
                elif _known_eid_normalisation(ib0, ib):
                    # known finding: EID text which the codec maps back to the original (tab / CR / LF removed, '/' appended
                    # to a bare authority) is authenticated as the original
                    chk.violation(EID_NORM_SIG[prop], EID_NORM_WHAT, replay)
                else:
                    chk.violation('%s:covered-alteration-delivered' % prop,
                                  'a bundle altered inside the authenticated scope was delivered', replay)
            elif not out.sec_marked():
                if isinstance(out.reason, str) or out.escaped is not None or (out.actions is not None and 'delete' not in out.actions):
                    chk.violation('%s:verify-exception-not-marked-deleted' % prop,
                                  'security failure through an exception: not delivered, but not marked deleted with a security reason (D16)', replay)
                else:
                    chk.violation('%s:failure-not-marked-security' % prop,
                                  'altered bundle not delivered but not marked deleted with a security reason', replay)
            elif isinstance(ib, IBundle) and wants_deletion_report(ib) and not any(r in SEC_REASONS for r in out.reports):
                chk.violation('%s:failure-not-reported' % prop,
                              'deletion report requested but no status report with a security reason was sent', replay)
            else:
                exp = 13 if cls == 'must-fail-unknown-ctx' else 15
                chk.count('%s:reason-%s' % (label, int(out.reason)))
                if int(out.reason) != exp:
                    chk.count('%s:reason-other-than-%d' % (label, exp))
        elif cls == 'must-pass':
            if not out.delivered:
                chk.violation('%s:uncovered-alteration-rejected' % prop,
                              'a change outside the authenticated scope prevented delivery', replay)
        elif cls in ('undecodable', 'crc-bad'):
            if out.delivered:
                # what the implementation decoded may still be what was authenticated (C02/C08 territory)
                chk.count('%s:%s-but-delivered(C02/C08)' % (label, cls))
        else:
            chk.count('%s:%s:%s' % (label, cls, 'delivered' if out.delivered else ('marked' if out.sec_marked() else 'dropped-unmarked')))
    if capture:
        check_captures(chk, aads, structs, label)
    return counts


# ---------------------------------------------------------------- harness-made security blocks

import hashlib  # noqa: E402
import hmac as _hmac  # noqa: E402


_MODEL_CACHE = {}


def model(chk, reqs):
    ''' chk.driver with a memo (the driver is a fresh process per call). '''
    import json as _json
    keys = [_json.dumps(r, sort_keys=True) for r in reqs]
    miss = [i for i, k in enumerate(keys) if k not in _MODEL_CACHE]
    if miss:
        for i, ans in zip(miss, chk.driver([reqs[i] for i in miss])):
            _MODEL_CACHE[keys[i]] = ans
        if len(_MODEL_CACHE) > 20000:
            for k in list(_MODEL_CACHE)[:10000]:
                if k not in keys:
                    del _MODEL_CACHE[k]
    return [_MODEL_CACHE[k] for k in keys]


def enc_canonical(b):
    ''' dict (model JSON of a canonical block) → octets, CRC computed here. '''
    arr = [b['type'], b['num'], b['flags'], b['crcType'], bytes.fromhex(b['btsd'])]
    ct = b['crcType']
    if not ct:
        return cbor2.dumps(arr)
    arr.append(bytes(2 * ct))
    raw = bytearray(cbor2.dumps(arr))
    raw[-2 * ct:] = crc_of(ct, raw)
    return bytes(raw)


def assemble(ib, blocks):
    ''' Encoded bundle with the primary block octets of `ib` and the given canonical blocks. '''
    prim = ib.data[ib.primary_span[0]:ib.primary_span[1]]
    return b'\x9f' + prim + b''.join(enc_canonical(b) for b in blocks) + b'\xff'


def eid_cbor(e):
    if e['t'] == 'none':
        return [1, 0]
    if e['t'] == 'dtn':
        return [1, bytes.fromhex(e['ssp']).decode('utf8')]
    return [2, list(e['parts'])]


def build_asb(targets, results, ctx_id=3, source=None, params=None, flags=None):
    ''' ASB octets. `results`: per target a list of (id, value) pairs; `params`: list of (id, value). '''
    source = source or {'t': 'dtn', 'ssp': b'//node/'.hex()}
    if flags is None:
        flags = 1 if params is not None else 0
    out = cbor2.dumps(list(targets)) + cbor2.dumps(ctx_id) + cbor2.dumps(flags) + cbor2.dumps(eid_cbor(source))
    if params is not None:
        out += cbor2.dumps([[p[0], p[1]] for p in params])
    out += cbor2.dumps([[[r[0], r[1]] for r in rl] for rl in results])
    return out


PROT_HMAC256 = cbor2.dumps({1: 5})
PROT_A256GCM = cbor2.dumps({1: 3})


def craft_bib(chk, ib, key, targets, sec_num, scope=None, kid=b'mac', source=None, sec_flags=0, addl_prot=b'',
              extra_params=(), blocks=None):
    ''' A BIB (COSE_Mac0, HMAC 256/256) over `targets` of the independently decoded bundle `ib`, the MAC
    input coming from the Lean model. Returns the block dict. '''
    source = source or {'t': 'dtn', 'ssp': b'//node/'.hex()}
    blocks = ib.blocks if blocks is None else blocks
    sec = dict(type=11, num=sec_num, flags=sec_flags, crcType=0, btsd='', crc=None)
    sc = [[0, 1], [-1, 1], [-2, 1]] if scope is None else [list(x) for x in scope]
    reqs = []
    for t in targets:
        tgt = [b for b in blocks if b['num'] == t][0]
        reqs.append({'op': 'sec.macinput', 'context': 'MAC0', 'prot': PROT_HMAC256.hex(),
                     'ctx': dict(ssrc=source, scope=sc, primary=ib.primary, blocks=blocks, secBlk=sec, tgt=tgt,
                                 addlProt=addl_prot.hex())})
    results = []
    for ans in model(chk, reqs):
        tag = _hmac.new(key, bytes.fromhex(ans['input']), hashlib.sha256).digest()
        results.append([(17, cbor2.dumps([PROT_HMAC256, {4: kid}, None, tag]))])
    params = []
    if scope is not None:
        params.append((5, {k: v for k, v in sc}))
    if addl_prot:
        params.append((3, addl_prot))
    params.extend(extra_params)
    sec['btsd'] = build_asb(targets, results, source=source, params=params if params else None).hex()
    return sec


def craft_bcb(chk, ib, key, targets, sec_num, ivs, scope=None, kid=b'enc', source=None, sec_flags=1, blocks=None):
    ''' A BCB (COSE_Encrypt0, A256GCM) over `targets`; returns (bcb block dict, blocks with ciphertext). '''
    from cryptography.hazmat.primitives.ciphers.aead import AESGCM
    source = source or {'t': 'dtn', 'ssp': b'//node/'.hex()}
    blocks = [dict(b) for b in (ib.blocks if blocks is None else blocks)]
    sec = dict(type=12, num=sec_num, flags=sec_flags, crcType=0, btsd='', crc=None)
    sc = [[0, 1], [-1, 1], [-2, 1]] if scope is None else [list(x) for x in scope]
    results = []
    for t, iv in zip(targets, ivs):
        tgt = [b for b in blocks if b['num'] == t][0]
        ans = model(chk, [{'op': 'sec.encinput', 'context': 'Encrypt0', 'prot': PROT_A256GCM.hex(),
                           'ctx': dict(ssrc=source, scope=sc, primary=ib.primary, blocks=blocks, secBlk=sec, tgt=tgt,
                                       addlProt='')}])[0]
        ct = AESGCM(key).encrypt(iv, bytes.fromhex(tgt['btsd']), bytes.fromhex(ans['input']))
        tgt['btsd'] = ct.hex()
        results.append([(16, cbor2.dumps([PROT_A256GCM, {4: kid, 5: iv}, None]))])
    params = [(5, {k: v for k, v in sc})] if scope is not None else None
    sec['btsd'] = build_asb(targets, results, source=source, params=params).hex()
    return sec, blocks


def insert_before_payload(blocks, new):
    out = [b for b in blocks if b['type'] != 1] + list(new) + [b for b in blocks if b['type'] == 1]
    return out


def plain_bundle(rng, tier, payload=None, extra=None, crc=None):
    ''' An unsecured bundle from the real sender, independently decoded. '''
    snd = Sender({}, 'none', rng=rng)
    ctr, payload = gen_container(rng, tier, payload=payload, extra=extra)
    if crc is not None:
        ctr.bundle.primary.crc_type = crc
        for b in ctr.bundle.blocks:
            b.crc_type = crc
    data = snd.send(ctr)
    return IBundle(data), payload


# ---------------------------------------------------------------- per-target outcome observation (C12)

class TargetObserver(object):
    ''' Records what `verify_bib_target` / `verify_bcb_target` returned per (security block, target). '''

    def __init__(self):
        self.seen = []
        self.active = False
        self._installed = False

    def install(self):
        if self._installed:
            return
        self._installed = True
        obs = self
        from bp.app.bpsec import CoseContext
        for name in ('verify_bib_target', 'verify_bcb_target'):
            orig = getattr(CoseContext, name)

            def wrapper(selfctx, secop, result, _orig=orig):
                try:
                    r = _orig(selfctx, secop, result)
                except Exception:
                    if obs.active:
                        obs.seen.append((int(secop.sec_blk.block_num), int(secop.tgt_blk.block_num), 'raises'))
                    raise
                if obs.active:
                    obs.seen.append((int(secop.sec_blk.block_num), int(secop.tgt_blk.block_num), 'ok' if r is None else 'fail'))
                return r
            setattr(CoseContext, name, wrapper)

    def take(self):
        s = self.seen
        self.seen = []
        return s


OBSERVER = TargetObserver()


def chain_request(ib, accept, orc, plain=(), quirks=None, extract_bad=()):
    ''' `sec.chain` request from an independently decoded bundle. `quirks`: "current" = `Quirks.current` of
    Model/SecChain.lean (the code under verification); VERIF_C12_QUIRKS overrides (to try a patched /repo). '''
    quirks = quirks or os.environ.get('VERIF_C12_QUIRKS', 'current')
    blocks = []
    for b in ib.blocks:
        ent = dict(type=b['type'], num=b['num'], btsd=b['btsd'], asb=None)
        if b['type'] in (11, 12):
            try:
                a = IAsb(bytes.fromhex(b['btsd']))
                ent['asb'] = dict(targets=a.targets, ctxId=a.ctx_id, paramIds=[p[0] for p in a.params],
                                  results=[[r[0] for r in rl] for rl in a.results],
                                  extractOk=b['num'] not in extract_bad, hasParams=bool(a.flags & 1))
            except Undec:
                pass
        blocks.append(ent)
    return {'op': 'sec.chain', 'quirks': quirks, 'accept': accept, 'deliver': True, 'blocks': blocks,
            'orc': [list(x) for x in orc], 'plain': [[s, t, p] for (s, t, p) in plain]}


# ---------------------------------------------------------------- C03 / C16 campaign

SCOPES_BIB = [
    [[0, 1], [-1, 1]], [[0, 1], [-1, 1], [-2, 1]], [[-1, 1]], [[-1, 3]], [[0, 0], [-1, 1]], [[0, 1], [-1, 0]],
    'ext-meta+btsd', 'ext-meta',
]
SCOPES_BCB = [
    [[0, 1], [-1, 1]], [[0, 1], [-1, 1], [-2, 1]], [[-1, 1]], [[0, 0], [-1, 1]], 'ext-meta+btsd',
]


def _pycose_key(kind, raw):
    if kind == 'mac':
        return SymmetricKey(k=raw, optional_params={KpAlg: HMAC256, KpKid: b'mac', KpKeyOps: [MacCreateOp, MacVerifyOp]})
    if kind == 'enc':
        return SymmetricKey(k=raw, optional_params={KpAlg: A256GCM, KpKid: b'enc', KpKeyOps: [EncryptOp, DecryptOp]})
    return SymmetricKey(k=raw, optional_params={KpAlg: A256KW, KpKid: b'kw', KpKeyOps: [WrapOp, UnwrapOp]})


def keys_from_hex(keyhex, variant='same'):
    if variant == 'missing':
        return {}
    x = 0x55 if variant == 'wrong' else 0
    return {k.encode(): _pycose_key(k, bytes(b ^ x for b in bytes.fromhex(v))) for k, v in keyhex.items()}


def has_run(hay, needle, n=8):
    ''' Does `hay` contain any `n`-octet run of `needle`? '''
    if len(needle) < n:
        return False
    return any(needle[i:i + n] in hay for i in range(len(needle) - n + 1))


def alter_btsd(blocks, num):
    ''' Copy of the block list with one bit of block `num`'s BTSD flipped (an octet appended when empty). '''
    out = []
    for b in blocks:
        if b['num'] == num:
            raw = bytes.fromhex(b['btsd'])
            raw = (bytes([raw[0] ^ 1]) + raw[1:]) if raw else b'\x00'
            b = dict(b, btsd=raw.hex())
        out.append(b)
    return out


def alter_each_target(chk, prop, keys, ib, data, targets, accept, replay, label):
    ''' Alter the data of each target of the bundle's security block in turn (the block CRC is recomputed,
    everything else is left intact): every such bundle must be rejected as a security failure. '''
    if assemble(ib, ib.blocks) != data:
        chk.count('%s:reassembly-not-identical(skipped target alteration)' % label)
        return
    for pos, num in enumerate(targets):
        v = assemble(ib, alter_btsd(ib.blocks, num))
        out = Receiver(keys, accept=accept).feed(v)
        where = 'only' if len(targets) == 1 else ('first' if pos == 0 else ('last' if pos == len(targets) - 1 else 'middle'))
        chk.count('%s:target-altered:%s-of-%d' % (label, where, len(targets)))
        chk.case({'alt': v.hex()}, nontrivial=True)
        r = dict(replay, data=v.hex(), original=data.hex(), altered_target=num, position=where,
                 targets=list(targets), expected='must-fail', observed=out.summary())
        if out.delivered:
            chk.violation('%s:altered-target-delivered' % prop,
                          'data of target %d (%s of %d targets) altered, the other targets intact: delivered' % (num, where, len(targets)), r)
        elif not out.sec_marked():
            chk.violation('%s:altered-target-not-marked-security' % prop, 'altered target rejected without a security reason', r)


def to_cbor2(v):
    ''' value of the independent decoder → value cbor2 can encode '''
    if isinstance(v, T):
        return bytes(v).decode('utf8')
    if isinstance(v, M):
        return {to_cbor2(k): to_cbor2(x) for k, x in v}
    if isinstance(v, list):
        return [to_cbor2(x) for x in v]
    return v


def recraft_from_impl(sec, blocks, structs, key, conf, plains):
    ''' Redo the cryptography of a harness-made security block over the MAC / Enc structures the
    *implementation* computed for it (captured), so that the block is valid for the implementation whatever its
    AAD construction is. Returns (security block, blocks) or None. '''
    from cryptography.hazmat.primitives.ciphers.aead import AESGCM
    a = IAsb(bytes.fromhex(sec['btsd']))
    want = 'enc' if conf else 'mac'
    st = [x for x in structs if x['kind'] == want]
    if len(st) != len(a.targets):
        return None
    blocks = [dict(b) for b in blocks]
    results = []
    for (t, rl, rec) in zip(a.targets, a.results, st):
        rid, val = rl[0]
        msg = to_cbor2(rd_all(val))
        if conf:
            iv = msg[1][5]
            for b in blocks:
                if b['num'] == t:
                    b['btsd'] = AESGCM(key).encrypt(iv, plains[t], bytes.fromhex(rec['out'])).hex()
        else:
            msg[3] = _hmac.new(key, bytes.fromhex(rec['out']), hashlib.sha256).digest()
        results.append([(rid, cbor2.dumps(msg))])
    params = [(p[0], to_cbor2(p[1])) for p in a.params] if a.flags & 1 else None
    return dict(sec, btsd=build_asb(a.targets, results, ctx_id=a.ctx_id, source=a.source, params=params).hex()), blocks


def campaign(chk, prop, conf):
    ''' Shared search of C03 (conf=False) and C16 (conf=True). '''
    rng = chk.rng
    quick = chk.tier == 'quick'
    keyhex = {k: bytes(rng.getrandbits(8) for _ in range(32)).hex() for k in ('mac', 'enc', 'kw')}
    keys = keys_from_hex(keyhex)
    CAPTURE.install()
    modes = ['enc0', 'enckw'] if conf else ['mac0']
    base = dict(keys=keyhex)
    t_start = chk.elapsed()

    # ---- 1. the agent's own security blocks, applied through the security policy (one association whose
    #         type list selects 1, 2 or 3 blocks): correspondence, what is on the wire, recovery, key faults,
    #         alteration of each target in turn
    n_corr = 8 if quick else 64
    flip_pool = []
    policies = [((1,), None), ((1, 7), [0]), (((7,), (1,)), [0]), ((1, 7, 10), [0, 1]), ((1,), None), (((10, 7), (1,)), [1, 0]),
                ((1, 6, 7), [2, 0]), ((1, 10), [1, 3])]
    for mode in modes:
        snd = Sender(keys, mode, rng=rng)
        for i in range(n_corr):
            accept = bool(i % 2)
            tgt_types, kinds = policies[i % len(policies)]
            snd.tgt_types = list(tgt_types)
            payload = b'' if i == 0 else (None if i > 1 else b'Never gonna give you up, never gonna let you down')
            ctr, payload = gen_container(rng, chk.tier, payload=payload, kinds=kinds)
            CAPTURE.active = True
            data = snd.send(ctr)
            a1, s1 = CAPTURE.take()
            rcv = Receiver(keys, accept=accept)
            out = rcv.feed(data)
            a2, s2 = CAPTURE.take()
            CAPTURE.active = False
            check_captures(chk, a1 + a2, s1 + s2, '%s own block' % mode)
            selected, plain = snd.last_selected, snd.last_plain
            replay = dict(base, mode=mode, accept=accept, data=data.hex(), payload=payload.hex(), observed=out.summary(),
                          policy_types=repr(tgt_types), selected_blocks=selected,
                          plaintexts={str(k): v.hex() for k, v in plain.items()})
            chk.count('%s:own-bundles' % mode)
            chk.count('%s:policy-selects-%d-blocks' % (mode, len(selected)))
            chk.count('payload-len:%d' % len(payload))
            chk.case({'mode': mode, 'data': data.hex()}, nontrivial=True, sample=(i == 1))
            ib = IBundle(data)
            secs = [b for b in ib.blocks if b['type'] in (11, 12)]
            if len(secs) != 1 or not a1:
                chk.violation('%s:source-did-not-apply-security-block' % prop, 'sender configured for %s produced %d security blocks' % (mode, len(secs)), replay)
                continue
            # --- what the source put on the wire (independent decode)
            try:
                asb = IAsb(bytes.fromhex(secs[0]['btsd']))
            except Undec as err:
                chk.violation('%s:source-security-block-undecodable' % prop, 'security block of the source does not decode: %s' % err, replay)
                continue
            wire_ok = True
            try:
                sc_src = {k: f for k, f in asb.scope()}
            except Undec:
                sc_src = {}
            if not (sc_src.get(0, 0) & 1 and sc_src.get(-1, 0) & 1):
                chk.violation('%s:source-scope-does-not-bind-primary-and-target' % prop,
                              'the AAD scope the source declares (%s) does not cover the primary block and the target block metadata' % sc_src, replay)
            if sorted(asb.targets) != sorted(selected) or len(set(asb.targets)) != len(asb.targets):
                wire_ok = False
                chk.violation('%s:policy-targets-mismatch' % prop,
                              'the security block lists targets %s, the policy selects blocks %s' % (asb.targets, selected), replay)
            if len(asb.results) != len(asb.targets):
                wire_ok = False
                chk.violation('%s:policy-results-mismatch' % prop, 'one result list per target expected', replay)
            for n in selected:
                blk = ib.block(n)
                wire = bytes.fromhex(blk['btsd']) if blk else None
                if conf:
                    if wire is None or wire == plain[n] or (has_run(wire, plain[n]) and len(set(plain[n])) > 4):
                        wire_ok = False
                        chk.violation('C16:plaintext-on-wire', 'block %d selected by the confidentiality policy carries its plaintext on the wire' % n, replay)
                    elif len(wire) != len(plain[n]) + 16:
                        chk.count('%s:ciphertext-length-unexpected' % mode)
                elif wire != plain[n]:
                    wire_ok = False
                    chk.violation('C03:payload-changed', 'integrity-protected block %d changed by the source' % n, replay)
            if conf and has_run(data, payload) and len(set(payload)) > 4:
                wire_ok = False
                chk.violation('C16:plaintext-run-on-wire', 'an 8-octet run of the plaintext appears in the encoded bundle', replay)
            # --- the receiver holding the key
            if not out.delivered:
                chk.violation('%s:unmodified-bundle-rejected' % prop, 'unmodified secured bundle not delivered at a receiver holding the key', replay)
                continue
            if not wire_ok:
                continue
            got = {b[1]: b[2] for b in out.delivered_blocks}
            for n in selected:
                wire = bytes.fromhex(ib.block(n)['btsd'])
                if conf and accept and got.get(n) != plain[n]:
                    chk.violation('C16:plaintext-not-recovered', 'accepting receiver did not recover the exact plaintext of block %d' % n, replay)
                if conf and not accept and got.get(n) != wire:
                    chk.violation('C16:target-changed-without-acceptance', 'target rewritten although acceptance is off', replay)
                if not conf and got.get(n) != plain[n]:
                    chk.violation('C03:payload-changed', 'integrity-protected block %d changed' % n, replay)
            if conf and accept and [b for b in out.delivered_blocks if b[0] == 12]:
                chk.violation('C16:accepted-bcb-not-removed', 'BCB still present after acceptance', replay)
            if conf and not accept:
                chk.count('%s:verifier-role-delivers-ciphertext(accept_after_verify=False)' % mode)
            # --- key faults
            for variant in ('wrong', 'missing'):
                o2 = Receiver(keys_from_hex(keyhex, variant), accept=accept).feed(data)
                r2 = dict(replay, receiver_keys=variant, observed=o2.summary())
                chk.count('%s:key-%s' % (mode, variant))
                if o2.delivered:
                    chk.violation('%s:delivered-with-%s-key' % (prop, variant), 'delivered although the receiver has a %s key' % variant, r2)
                elif not o2.sec_marked():
                    chk.violation('%s:key-failure-not-marked-security' % prop, 'key failure not marked as a security failure', r2)
                elif wants_deletion_report(ib) and not any(r in SEC_REASONS for r in o2.reports):
                    chk.violation('%s:failure-not-reported' % prop, 'no status report with a security reason', r2)
            # --- each target altered in turn (first / middle / last position), the others intact
            alter_each_target(chk, prop, keys, ib, data, asb.targets, accept, replay, mode)
            if len(data) <= (300 if quick else 420):
                flip_pool.append((mode, accept, data, len(selected)))

    # ---- 2. harness-made blocks with other AAD scopes (MAC / AEAD input from the Lean model)
    crafted = []
    scopes = SCOPES_BCB if conf else SCOPES_BIB
    n_craft = len(scopes) if quick else 3 * len(scopes)
    for i in range(n_craft):
        scope = scopes[i % len(scopes)]
        ib, payload = plain_bundle(rng, chk.tier, extra=1 + (i % 2), payload=(b'' if i == 1 else None))
        ext = [b['num'] for b in ib.blocks if b['type'] != 1]
        if scope == 'ext-meta+btsd':
            scope = [[0, 1], [-1, 1], [ext[0], 3]]
        elif scope == 'ext-meta':
            scope = [[-1, 1], [ext[0], 1]]
        n1 = max(b['num'] for b in ib.blocks) + 1
        accept = bool(i % 2)
        if conf:
            iv = bytes(rng.getrandbits(8) for _ in range(12))
            sec, blocks = craft_bcb(chk, ib, bytes.fromhex(keyhex['enc']), [1], n1, [iv], scope=scope)
        else:
            sec = craft_bib(chk, ib, bytes.fromhex(keyhex['mac']), [1], n1, scope=scope)
            blocks = ib.blocks
        data = assemble(ib, insert_before_payload(blocks, [sec]))
        rcv = Receiver(keys, accept=accept)
        CAPTURE.active = True
        out = rcv.feed(data)
        a2, s2 = CAPTURE.take()
        CAPTURE.active = False
        check_captures(chk, a2, s2, 'crafted scope %s' % scope)
        replay = dict(base, mode='crafted', scope=scope, accept=accept, data=data.hex(), observed=out.summary())
        chk.count('crafted:scope=%s' % json_scope(scope))
        chk.case({'scope': scope, 'data': data.hex()}, nontrivial=True)
        # --- whatever the implementation's AAD construction is: a block that is valid *for it* must stop
        #     verifying when data covered by a scope entry with the BTSD flag is altered (and keep verifying when an
        #     uncovered block is altered). The cryptography is redone over the structures the implementation computed.
        covered_btsd = [k for k, f in scope if k > 0 and f & 2]
        uncovered = [n for n in ext if all(k != n for k, f in scope)]
        if covered_btsd or uncovered:
            plains = {1: payload}
            rec = recraft_from_impl(sec, blocks, s2, bytes.fromhex(keyhex['enc' if conf else 'mac']), conf, plains)
            if rec is None:
                chk.count('crafted:impl-view-recraft-impossible')
            else:
                sec2, blocks2 = rec
                all2 = insert_before_payload(blocks2, [sec2])
                data2 = assemble(ib, all2)
                o2 = Receiver(keys, accept=accept).feed(data2)
                r2 = dict(replay, data=data2.hex(), observed=o2.summary(), crafted_over='implementation structures')
                if not o2.delivered:
                    chk.violation('%s:unmodified-bundle-rejected' % prop,
                                  'a security block made over the implementation\'s own MAC/Enc structure does not verify', r2)
                else:
                    for n in covered_btsd:
                        v = assemble(ib, alter_btsd(all2, n))
                        o3 = Receiver(keys, accept=accept).feed(v)
                        chk.count('crafted:scope-btsd-entry-altered')
                        chk.case({'alt': v.hex()}, nontrivial=True)
                        r3 = dict(r2, data=v.hex(), original=data2.hex(), altered_block=n, expected='must-fail', observed=o3.summary())
                        if o3.delivered:
                            chk.violation('%s:covered-alteration-delivered' % prop,
                                          'BTSD of block %d is in the AAD scope (flags %d) and was altered: delivered' % (n, dict(scope)[n]), r3)
                        elif not o3.sec_marked():
                            chk.violation('%s:failure-not-marked-security' % prop, 'covered alteration rejected without a security reason', r3)
                    for n in uncovered:
                        if [b for b in ib.blocks if b['num'] == n][0]['type'] in (6, 7, 10):
                            continue      # blocks the agent itself interprets: keep this monitor to opaque blocks
                        v = assemble(ib, alter_btsd(all2, n))
                        o3 = Receiver(keys, accept=accept).feed(v)
                        chk.count('crafted:uncovered-block-altered')
                        if not o3.delivered:
                            chk.violation('%s:uncovered-alteration-rejected' % prop,
                                          'a block outside the AAD scope was altered and the bundle rejected',
                                          dict(r2, data=v.hex(), original=data2.hex(), altered_block=n, expected='must-pass', observed=o3.summary()))
        if not out.delivered:
            # the block was built from the model's AAD / COSE structure: the real verifier disagrees with the model
            chk.corr_break('security block built from the model AAD does not verify on the implementation', replay)
            continue
        chk.cov['traces_validated_against_impl'] += 1
        if conf and accept and [b for b in out.delivered_blocks if b[1] == 1][0][2] != payload:
            chk.violation('C16:plaintext-not-recovered', 'accepting receiver did not recover the exact plaintext', replay)
        if len(data) <= (280 if quick else 420):
            crafted.append(('crafted:%s' % json_scope(scope), accept, data))

    # ---- 2b. structural monitors
    reps = 1 if quick else 4
    two_blocks_monitor(chk, prop, keyhex, conf, reps)
    eid_normalisation_monitor(chk, prop, keyhex, conf, reps)
    multi_recipient_monitor(chk, prop, keyhex, conf, reps)
    malformed_structure_monitor(chk, prop, keyhex, conf, reps)
    additional_headers_monitor(chk, prop, keyhex, conf, reps)
    if conf:
        admin_bcb_monitor(chk, prop, keyhex, reps)
    else:
        short_results_monitor(chk, prop, keyhex, reps)
        attached_payload_monitor(chk, prop, keyhex, reps + 1)
        sign1_monitor(chk, prop, keyhex, reps + 1)
        sign1_source_monitor(chk, prop, keyhex, reps)

    # ---- 3. every single-bit flip through the real receiver
    n_flip = (3, 5) if quick else (40, 60)
    by_mode = {}
    for item in sorted(flip_pool, key=lambda it: -it[3]):
        by_mode.setdefault(item[0], []).append(item[:3])
    inter = [x for grp in zip(*[by_mode[m] for m in sorted(by_mode)]) for x in grp] if by_mode else []
    todo = inter[:n_flip[0]] + crafted[:n_flip[1]]
    if not quick:
        rng.shuffle(todo)
    budget = 70 if quick else 600
    t_flips = chk.elapsed()
    for (label, accept, data) in todo:
        left = budget - (chk.elapsed() - t_flips)
        if left < 5:
            chk.count('flip-bundles-skipped-for-time')
            continue
        rcv = Receiver(keys, accept=accept)
        chk.count('flip-bundles')
        chk.count('flip-bundle-len:%d' % (len(data) // 50 * 50))
        run_variants(chk, prop, rcv, data, list(flip_variants(data)), label.split(':')[0],
                     dict(base, mode=label, accept=accept), budget=left)
    return keyhex


def install_mac_kw_shim():
    ''' Upstream pycose 1.1.0 has no `MacMessage.verify_tag(recipient)` (the author's pycose has): without it
    `_verify_bib_mac` can never succeed. This stand-in unwraps the content key through pycose's own
    `KeyWrap.decrypt` and calls pycose's own `MacCommon.verify_tag`; it adds no checking of its own. '''
    from pycose.messages.macmessage import MacMessage
    from pycose import headers as _h
    if getattr(MacMessage, '_verif_shim', False):
        return
    MacMessage._verif_shim = True

    def verify_tag(self, recipient=None, *a, **k):
        if recipient is not None:
            alg = self.get_attr(_h.Algorithm)
            cek = recipient.decrypt(alg)
            self.key = SymmetricKey(k=cek, optional_params={KpAlg: alg, KpKeyOps: [MacVerifyOp]})
        return MacCommon.verify_tag(self)
    MacMessage.verify_tag = verify_tag


def craft_bib_mackw(chk, ib, kek, cek, targets, sec_num, scope, kid=b'kw', recipients=None):
    ''' BIB with COSE_Mac + one AES key-wrap recipient; MAC input (context "MAC") from the Lean model. '''
    from cryptography.hazmat.primitives.keywrap import aes_key_wrap
    source = {'t': 'dtn', 'ssp': b'//node/'.hex()}
    sec = dict(type=11, num=sec_num, flags=0, crcType=0, btsd='', crc=None)
    sc = [list(x) for x in scope]
    reqs = []
    for t in targets:
        tgt = [b for b in ib.blocks if b['num'] == t][0]
        reqs.append({'op': 'sec.macinput', 'context': 'MAC', 'prot': PROT_HMAC256.hex(),
                     'ctx': dict(ssrc=source, scope=sc, primary=ib.primary, blocks=ib.blocks, secBlk=sec, tgt=tgt, addlProt='')})
    results = []
    for ans in model(chk, reqs):
        tag = _hmac.new(cek, bytes.fromhex(ans['input']), hashlib.sha256).digest()
        recips = [[b'', {1: -5, 4: rk}, aes_key_wrap(rkek, cek)] for (rk, rkek) in (recipients or [(kid, kek)])]
        results.append([(97, cbor2.dumps([PROT_HMAC256, {}, None, tag, recips]))])
    sec['btsd'] = build_asb(targets, results, source=source, params=[(5, {k: v for k, v in sc})]).hex()
    return sec


def mackw_receive_check(chk, prop, keyhex, n):
    ''' COSE_Mac + key wrap through the real `_verify_bib_mac` (receive side only, see install_mac_kw_shim). '''
    install_mac_kw_shim()
    rng = chk.rng
    keys = keys_from_hex(keyhex)
    for i in range(n):
        ib, payload = plain_bundle(rng, chk.tier, extra=1)
        n1 = max(b['num'] for b in ib.blocks) + 1
        cek = bytes(rng.getrandbits(8) for _ in range(32))
        sec = craft_bib_mackw(chk, ib, bytes.fromhex(keyhex['kw']), cek, [1], n1, SCOPES_BIB[i % 3])
        data = assemble(ib, insert_before_payload(ib.blocks, [sec]))
        CAPTURE.active = True
        out = Receiver(keys, accept=bool(i % 2)).feed(data)
        a2, s2 = CAPTURE.take()
        CAPTURE.active = False
        check_captures(chk, a2, s2, 'crafted COSE_Mac+KW')
        chk.count('mackw:crafted')
        chk.case({'mackw': data.hex()}, nontrivial=True)
        replay = dict(keys=keyhex, mode='crafted-mackw', accept=bool(i % 2), data=data.hex(), observed=out.summary())
        if not out.delivered:
            chk.corr_break('COSE_Mac+KW block built from the model MAC input does not verify on the implementation', replay)
            continue
        chk.cov['traces_validated_against_impl'] += 1
        # altered payload, altered wrapped key, wrong KEK
        alt = [dict(b, btsd=(bytes.fromhex(b['btsd']) + b'\x00').hex()) if b['type'] == 1 else b for b in ib.blocks]
        o2 = Receiver(keys, accept=False).feed(assemble(ib, insert_before_payload(alt, [sec])))
        o3 = Receiver(keys_from_hex(keyhex, 'wrong'), accept=False).feed(data)
        for what, o in (('altered-payload', o2), ('wrong-kek', o3)):
            chk.count('mackw:%s' % what)
            if o.delivered:
                chk.violation('%s:mackw-%s-delivered' % (prop, what), 'COSE_Mac+KW: %s delivered' % what, dict(replay, observed=o.summary()))
            elif not o.sec_marked():
                chk.violation('%s:mackw-%s-not-marked' % (prop, what), 'COSE_Mac+KW: %s not marked as security failure' % what,
                              dict(replay, observed=o.summary()))


# ---------------------------------------------------------------- structural monitors (C03 / C16)

def rebuild_asb(sec, fn):
    """ Decode the ASB of a harness-made block, let `fn` edit its components, re-encode. """
    a = IAsb(bytes.fromhex(sec['btsd']))
    comp = dict(targets=list(a.targets), ctx_id=a.ctx_id, source=a.source,
                params=[(p[0], to_cbor2(p[1])) for p in a.params] if a.flags & 1 else None,
                results=[[(r[0], to_cbor2(r[1])) for r in rl] for rl in a.results])
    fn(comp)
    return dict(sec, btsd=build_asb(comp['targets'], comp['results'], ctx_id=comp['ctx_id'], source=comp['source'],
                                    params=comp['params']).hex())


def _expect_reject(chk, prop, sig, what, out, replay):
    chk.case({'d': replay['data']}, nontrivial=True)
    if out.delivered:
        chk.violation('%s:%s' % (prop, sig), what + ': delivered', dict(replay, expected='must-fail', observed=out.summary()))
        return False
    if not out.sec_marked():
        chk.violation('%s:failure-not-marked-security' % prop, what + ': rejected without a security reason',
                      dict(replay, expected='must-fail', observed=out.summary()))
        return False
    return True


def _expect_deliver(chk, prop, what, out, replay):
    chk.case({'d': replay['data']}, nontrivial=True)
    if not out.delivered:
        chk.violation('%s:unmodified-bundle-rejected' % prop, what + ': not delivered',
                      dict(replay, expected='must-pass', observed=out.summary()))
        return False
    return True


def two_blocks_monitor(chk, prop, keyhex, conf, reps):
    """ Two security blocks of the same kind in one bundle; the first verifies (and, with acceptance, is removed
    while the receive step iterates); the second must still be verified. """
    rng = chk.rng
    keys = keys_from_hex(keyhex)
    kraw = bytes.fromhex(keyhex['enc' if conf else 'mac'])
    sc = [[0, 1], [-1, 1]]
    for rep in range(reps):
        ib, payload = plain_bundle(rng, chk.tier, extra=1, payload=(b'two blocks, one bundle' if rep == 0 else None) or b'x')
        e = [b['num'] for b in ib.blocks if b['type'] != 1][0]
        n1 = max(b['num'] for b in ib.blocks) + 1
        n2 = n1 + 1
        iv = lambda: bytes(rng.getrandbits(8) for _ in range(12))  # noqa: E731
        if conf:
            a, bl = craft_bcb(chk, ib, kraw, [e], n1, [iv()], scope=sc)
            b, bl2 = craft_bcb(chk, ib, kraw, [1], n2, [iv()], scope=sc, blocks=bl)
            bz, blz = craft_bcb(chk, ib, kraw, [1], n2, [iv()], scope=sc, blocks=bl, kid=b'zz')
        else:
            a = craft_bib(chk, ib, kraw, [e], n1, scope=sc)
            b = craft_bib(chk, ib, kraw, [1], n2, scope=sc)
            bz = craft_bib(chk, ib, kraw, [1], n2, scope=sc, kid=b'zz')
            bl2 = blz = ib.blocks
        for accept in (True, False):
            base = dict(keys=keyhex, mode='two-blocks', accept=accept, first_block=n1, second_block=n2)
            good = insert_before_payload(bl2, [a, b])
            data = assemble(ib, good)
            out = Receiver(keys, accept=accept).feed(data)
            chk.count('two-blocks:good')
            if _expect_deliver(chk, prop, 'two security blocks, both valid', out, dict(base, data=data.hex())) and accept:
                got = {x[1]: x for x in out.delivered_blocks}
                if [x for x in out.delivered_blocks if x[0] in (11, 12)]:
                    chk.violation('%s:accepted-block-not-removed' % prop, 'acceptance configured but a verified security block is still present',
                                  dict(base, data=data.hex(), observed=out.summary()))
                if conf and got[1][2] != payload:
                    chk.violation('C16:plaintext-not-recovered', 'second BCB: plaintext not recovered', dict(base, data=data.hex(), observed=out.summary()))
            for what, blocks in (('second block: target altered', alter_btsd(good, 1)),
                                 ('first block: target altered', alter_btsd(good, e)),
                                 ('second block: key id unknown to the receiver', insert_before_payload(blz, [a, bz]))):
                v = assemble(ib, blocks)
                o = Receiver(keys, accept=accept).feed(v)
                chk.count('two-blocks:%s' % what.split(':')[0])
                sig = 'second-block-not-verified' if what.startswith('second') else 'altered-target-delivered'
                _expect_reject(chk, prop, sig, 'two security blocks, ' + what, o, dict(base, data=v.hex(), original=data.hex(), what=what))


def short_results_monitor(chk, prop, keyhex, reps):
    """ BIB whose results array is shorter than its targets array: the targets without a result must fail. """
    rng = chk.rng
    keys = keys_from_hex(keyhex)
    sc = [[0, 1], [-1, 1]]
    for rep in range(reps):
        ib, _payload = plain_bundle(rng, chk.tier, extra=1, payload=b'results may not be stripped')
        e = [b['num'] for b in ib.blocks if b['type'] != 1][0]
        n1 = max(b['num'] for b in ib.blocks) + 1
        for T in ([1, e], [e, 1]):
            sec = craft_bib(chk, ib, bytes.fromhex(keyhex['mac']), T, n1, scope=sc)
            for accept in (False, True):
                base = dict(keys=keyhex, mode='short-results', accept=accept, targets=T)
                data = assemble(ib, insert_before_payload(ib.blocks, [sec]))
                _expect_deliver(chk, prop, 'two-target BIB', Receiver(keys, accept=accept).feed(data), dict(base, data=data.hex()))
                for keep in (1, 0):
                    cut = rebuild_asb(sec, lambda c, keep=keep: c.__setitem__('results', c['results'][:keep]))
                    for altered in (None, T[-1], T[0]):
                        if altered == T[0] and keep == 1:
                            continue          # that target still has its result: covered by other monitors
                        blocks = insert_before_payload(ib.blocks if altered is None else alter_btsd(ib.blocks, altered), [cut])
                        v = assemble(ib, blocks)
                        o = Receiver(keys, accept=accept).feed(v)
                        chk.count('short-results:%d-of-2-results' % keep)
                        _expect_reject(chk, prop, 'target-without-result-delivered',
                                       'BIB with %d result lists for 2 targets (target %s altered)' % (keep, altered), o,
                                       dict(base, data=v.hex(), original=data.hex(), results_kept=keep, altered_target=altered))


def attached_payload_monitor(chk, prop, keyhex, reps):
    """ COSE_Mac0 whose payload slot holds a copy of the original target data (attached form): the MAC must still be
    computed over the block that is actually in the bundle. """
    rng = chk.rng
    keys = keys_from_hex(keyhex)
    for rep in range(reps):
        ib, payload = plain_bundle(rng, chk.tier, extra=rep % 2, payload=b'the embedded copy is not the block')
        n1 = max(b['num'] for b in ib.blocks) + 1
        sec = craft_bib(chk, ib, bytes.fromhex(keyhex['mac']), [1], n1, scope=[[0, 1], [-1, 1]])

        def attach(c):
            rid, val = c['results'][0][0]
            msg = cbor2.loads(val)
            msg[2] = payload
            c['results'][0] = [(rid, cbor2.dumps(msg))]
        sec2 = rebuild_asb(sec, attach)
        for accept in (False, True):
            base = dict(keys=keyhex, mode='attached-payload', accept=accept)
            data = assemble(ib, insert_before_payload(ib.blocks, [sec2]))
            out = Receiver(keys, accept=accept).feed(data)
            chk.count('attached-payload:unaltered:%s' % ('delivered' if out.delivered else 'rejected'))
            v = assemble(ib, insert_before_payload(alter_btsd(ib.blocks, 1), [sec2]))
            o = Receiver(keys, accept=accept).feed(v)
            chk.count('attached-payload:target-altered')
            _expect_reject(chk, prop, 'embedded-payload-verified',
                           'security result embeds the original payload, the payload block itself is altered', o,
                           dict(base, data=v.hex(), original=data.hex()))


_CERTS = {}


def _sign1_material():
    """ One CA and end-entity certificates (same key) that differ in their NODE-ID subjectAltName. """
    if _CERTS:
        return _CERTS
    import datetime
    from cryptography import x509
    from cryptography.x509.oid import NameOID
    from cryptography.hazmat.primitives import hashes, serialization
    from cryptography.hazmat.primitives.asymmetric import ec
    from bp.crypto import OID_ON_EID

    def ia5(text):
        raw = text.encode('ascii')
        return b'\x16' + bytes([len(raw)]) + raw

    def mk(subject, key, issuer_name, issuer_key, sans):
        b = (x509.CertificateBuilder()
             .subject_name(x509.Name([x509.NameAttribute(NameOID.COMMON_NAME, subject)])).issuer_name(issuer_name)
             .public_key(key.public_key()).serial_number(x509.random_serial_number())
             .not_valid_before(datetime.datetime(2020, 1, 1)).not_valid_after(datetime.datetime(2040, 1, 1))
             .add_extension(x509.SubjectKeyIdentifier.from_public_key(key.public_key()), False)
             .add_extension(x509.AuthorityKeyIdentifier.from_issuer_public_key(issuer_key.public_key()), False))
        if sans:
            b = b.add_extension(x509.SubjectAlternativeName(sans), False)
        return b.sign(issuer_key, hashes.SHA256())
    cak = ec.generate_private_key(ec.SECP256R1())
    can = x509.Name([x509.NameAttribute(NameOID.COMMON_NAME, 'verif ca')])
    eek = ec.generate_private_key(ec.SECP256R1())
    _CERTS['ca'] = mk('verif ca', cak, can, cak, None)
    _CERTS['mk'] = lambda subject, sans: mk(subject, eek, can, cak, sans)
    _CERTS['key'] = eek
    _CERTS['other_key'] = ec.generate_private_key(ec.SECP256R1())
    for name, sans in (('match', [x509.OtherName(OID_ON_EID, ia5('dtn://node/'))]),
                       ('other-node-id', [x509.OtherName(OID_ON_EID, ia5('dtn://evil/'))]),
                       ('dns-only', [x509.DNSName('node.example')]),
                       ('no-san', None)):
        _CERTS[name] = mk('ee ' + name, eek, can, cak, sans).public_bytes(serialization.Encoding.DER)
    return _CERTS


def craft_bib_sign1(chk, ib, signing_key, cert_der, targets, sec_num, scope):
    """ BIB with COSE_Sign1 (ES256, x5chain in the unprotected header); Sig_structure from the Lean model. """
    from cryptography.hazmat.primitives import hashes
    from cryptography.hazmat.primitives.asymmetric import ec
    from cryptography.hazmat.primitives.asymmetric.utils import decode_dss_signature
    prot = cbor2.dumps({1: -7})
    source = {'t': 'dtn', 'ssp': b'//node/'.hex()}
    sec = dict(type=11, num=sec_num, flags=0, crcType=0, btsd='', crc=None)
    sc = [list(x) for x in scope]
    reqs = [{'op': 'sec.macinput', 'context': 'Signature1', 'prot': prot.hex(),
             'ctx': dict(ssrc=source, scope=sc, primary=ib.primary, blocks=ib.blocks, secBlk=sec,
                         tgt=[b for b in ib.blocks if b['num'] == t][0], addlProt='')} for t in targets]
    results = []
    for ans in model(chk, reqs):
        r, s_ = decode_dss_signature(signing_key.sign(bytes.fromhex(ans['input']), ec.ECDSA(hashes.SHA256())))
        results.append([(18, cbor2.dumps([prot, {33: cert_der}, None, r.to_bytes(32, 'big') + s_.to_bytes(32, 'big')]))])
    sec['btsd'] = build_asb(targets, results, source=source, params=[(5, {k: v for k, v in sc})]).hex()
    return sec


def sign1_monitor(chk, prop, keyhex, reps):
    """ COSE_Sign1 BIBs (security source dtn://node/) whose x5chain certificate does / does not name that node. """
    import certvalidator
    mat = _sign1_material()
    rng = chk.rng
    keys = keys_from_hex(keyhex)
    for rep in range(reps):
        ib, payload = plain_bundle(rng, chk.tier, extra=rep % 2, payload=b'signed by dtn://node/' if rep == 0 else None)
        n1 = max(b['num'] for b in ib.blocks) + 1
        accept = bool(rep % 2)

        def rcv():
            r = Receiver(keys, accept=accept)
            r.ctx._ca_certs = [mat['ca']]
            return r
        base = dict(keys=keyhex, mode='sign1', accept=accept, security_source='dtn://node/')
        good = craft_bib_sign1(chk, ib, mat['key'], mat['match'], [1], n1, [[0, 1], [-1, 1]])
        data = assemble(ib, insert_before_payload(ib.blocks, [good]))
        CAPTURE.active = True
        out = rcv().feed(data)
        a2, s2 = CAPTURE.take()
        CAPTURE.active = False
        check_captures(chk, a2, s2, 'crafted COSE_Sign1')
        chk.count('sign1:matching-certificate')
        if not out.delivered:
            chk.corr_break('COSE_Sign1 block built from the model Sig_structure does not verify on the implementation',
                           dict(base, data=data.hex(), observed=out.summary()))
            continue
        chk.cov['traces_validated_against_impl'] += 1
        v = assemble(ib, insert_before_payload(alter_btsd(ib.blocks, 1), [good]))
        _expect_reject(chk, prop, 'altered-target-delivered', 'COSE_Sign1: target altered', rcv().feed(v), dict(base, data=v.hex(), original=data.hex()))
        for cert in ('other-node-id', 'dns-only', 'no-san'):
            sec = craft_bib_sign1(chk, ib, mat['key'], mat[cert], [1], n1, [[0, 1], [-1, 1]])
            v = assemble(ib, insert_before_payload(ib.blocks, [sec]))
            chk.count('sign1:certificate-%s' % cert)
            _expect_reject(chk, prop, 'sign1-certificate-not-naming-source-accepted',
                           'COSE_Sign1 with a CA-issued certificate (%s) that does not carry the security source as NODE-ID' % cert,
                           rcv().feed(v), dict(base, data=v.hex(), certificate=cert))
        sec = craft_bib_sign1(chk, ib, mat['other_key'], mat['match'], [1], n1, [[0, 1], [-1, 1]])
        v = assemble(ib, insert_before_payload(ib.blocks, [sec]))
        chk.count('sign1:wrong-signing-key')
        _expect_reject(chk, prop, 'sign1-wrong-key-accepted', 'COSE_Sign1 signed with a key other than the certificate\'s', rcv().feed(v),
                       dict(base, data=v.hex()))
        certvalidator.ACCEPT = False
        try:
            o = rcv().feed(data)
        finally:
            certvalidator.ACCEPT = True
        chk.count('sign1:chain-rejected')
        _expect_reject(chk, prop, 'sign1-invalid-chain-accepted', 'COSE_Sign1 whose certificate chain does not validate', o,
                       dict(base, data=data.hex(), chain='rejected by the validator'))


def admin_bcb_monitor(chk, prop, keyhex, reps):
    """ A status report generated by an agent whose confidentiality policy covers payload blocks: the report on the
    wire must carry ciphertext, and the key holder must be able to recover the administrative record. """
    from cryptography.hazmat.primitives.ciphers.aead import AESGCM
    from cryptography.hazmat.primitives.keywrap import aes_key_unwrap
    rng = chk.rng
    keys = keys_from_hex(keyhex)
    for rep in range(reps):
        for mode in ('enc0', 'enckw'):
            rcv = Receiver(keys, accept=True)
            ivs = [bytes(rng.getrandbits(8) for _ in range(12)) for _ in range(6)]
            if mode == 'enc0':
                sop = SecOperation(sec_type='bcb', role='source', priv_key_id=b'enc', content_iv=ivs)
            else:
                sop = SecOperation(sec_type='bcb', role='source', priv_key_id=b'kw', content_alg=A256GCM, content_iv=ivs)
            rcv.ctx.sec_assoc.append(SecAssociation(src_pat=re.compile('.*'), dst_pat=re.compile('.*'), tgt_blk_types=[1], templates=[sop]))
            ctr = BundleContainer()
            ctr.bundle.primary = PrimaryBlock(bundle_flags=0x20000 | 0x4000 | (0x40 if rep % 2 else 0), destination='dtn://dst/svc',
                                              report_to='dtn://node/', crc_type=rng.choice([0, 1, 2]), lifetime=1000)
            ctr.bundle.blocks = [CanonicalBlock(type_code=1, block_num=1, crc_type=rng.choice([0, 1, 2]), btsd=b'please report')]
            data = Sender({}, 'none', rng=rng).send(ctr)
            out = rcv.feed(data)
            base = dict(keys=keyhex, mode='status-report-under-bcb:' + mode, trigger=data.hex(), observed=out.summary())
            chk.count('admin-bcb:%s:reports=%d' % (mode, len(rcv.cl.sent)))
            if not rcv.cl.sent:
                chk.corr_break('no status report generated for a bundle requesting one', base)
                continue
            for rpt in rcv.cl.sent:
                replay = dict(base, data=rpt.hex())
                chk.case({'rpt': rpt.hex()}, nontrivial=True)
                try:
                    ib = IBundle(rpt)
                    bcbs = [b for b in ib.blocks if b['type'] == 12]
                    asb = IAsb(bytes.fromhex(bcbs[0]['btsd'])) if bcbs else None
                except Undec as err:
                    chk.violation('%s:status-report-undecodable' % prop, 'status report does not decode: %s' % err, replay)
                    continue
                wire = bytes.fromhex(ib.block(1)['btsd'])

                def is_record(raw):
                    try:
                        rec = rd_all(raw)
                    except Undec:
                        return False
                    return isinstance(rec, list) and len(rec) == 2 and rec[0] == 1 and isinstance(rec[1], list)
                if asb is None or asb.targets != [1]:
                    chk.violation('%s:source-did-not-apply-security-block' % prop,
                                  'the confidentiality policy covers payload blocks but the status report has no BCB over block 1', replay)
                    continue
                if is_record(wire):
                    chk.violation('C16:plaintext-on-wire', 'the status report travels with a BCB over its payload AND the plaintext administrative record', replay)
                    continue
                # independent recovery: AEAD associated data from the Lean model, AES-GCM from `cryptography`
                rid, val = asb.results[0][0]
                sem = cose_sem(rid, val)
                tgt = ib.block(1)
                ans = model(chk, [{'op': 'sec.encinput', 'context': COSE_CONTEXT[rid], 'prot': sem['prot'],
                                   'ctx': model_ctx(ib, bcbs[0], asb, tgt)}])[0]
                try:
                    msg = to_cbor2(rd_all(val))
                    if rid == 16:
                        cek = bytes.fromhex(keyhex['enc'])
                    else:
                        cek = aes_key_unwrap(bytes.fromhex(keyhex['kw']), msg[3][0][2])
                    plain = AESGCM(cek).decrypt(msg[1][5], wire, bytes.fromhex(ans['input']))
                except Exception as err:
                    chk.violation('C16:plaintext-not-recovered', 'the key holder cannot decrypt the status report: %s' % type(err).__name__, replay)
                    continue
                chk.cov['traces_validated_against_impl'] += 1
                if not is_record(plain):
                    chk.violation('C16:plaintext-not-recovered', 'decrypted status report is not an administrative record', replay)
                elif has_run(wire, plain):
                    # (only the block data: the record legitimately repeats EIDs of the primary block)
                    chk.violation('C16:plaintext-run-on-wire', 'a run of the administrative record appears in the payload block data', replay)
                else:
                    chk.count('admin-bcb:%s:ciphertext-on-wire-and-recoverable' % mode)
                # --- a second real agent holding the key, at the report-to node: must receive the report, verify its BCB and,
                #     with acceptance, hand exactly the original record to the administrative handler
                want = cbor2.loads(plain) if is_record(plain) else None
                for accept in (True, False):
                    r2 = Receiver(keys, accept=accept, node_id='dtn://node/')
                    adm = r2.agent._app['admin']
                    seen = []
                    for k in list(adm._rec_type_map):
                        if int(k) == 1:
                            adm._rec_type_map[k] = lambda _ctr, msg: seen.append(msg)
                    OBSERVER.install()
                    OBSERVER.active = True
                    o2 = r2.feed(rpt)
                    OBSERVER.active = False
                    outcomes = OBSERVER.take()
                    rr = dict(replay, accept=accept, receiver='second agent dtn://node/ holding the key', observed=o2.summary(),
                              target_outcomes=outcomes, handler_saw=repr(seen)[:200], record=plain.hex())
                    chk.count('admin-bcb:second-agent:accept=%s' % accept)
                    chk.case({'rpt2': rpt.hex(), 'accept': accept}, nontrivial=True)
                    if o2.escaped is not None or o2.ctr is None:
                        chk.violation('%s:encrypted-admin-record-not-received' % prop,
                                      'an administrative-record bundle whose payload is under a BCB cannot be received: %s escapes before the receive chain runs'
                                      % type(o2.escaped).__name__, rr)
                        continue
                    if not o2.delivered or (o2.actions and 'delete' in o2.actions):
                        chk.violation('%s:encrypted-admin-record-not-received' % prop,
                                      'encrypted administrative record rejected by a receiver holding the key', rr)
                        continue
                    if not any(o == 'ok' and t == 1 for (_s, t, o) in outcomes):
                        chk.violation('%s:encrypted-admin-record-bcb-not-verified' % prop, 'delivered without the BCB over the payload being verified', rr)
                        continue
                    got = {b[1]: b for b in o2.delivered_blocks}
                    if accept:
                        if got[1][2] != plain or [b for b in o2.delivered_blocks if b[0] == 12]:
                            chk.violation('C16:plaintext-not-recovered', 'acceptance: payload of the administrative bundle is not the original record / BCB not removed', rr)
                        elif want is None or seen != [want[1]]:
                            chk.violation('%s:decrypted-admin-record-not-handled' % prop,
                                          'the administrative handler did not receive exactly the original status report', rr)
                        else:
                            chk.count('admin-bcb:second-agent:record-handled')
                    elif got[1][2] != wire:
                        chk.violation('C16:target-changed-without-acceptance', 'target rewritten although acceptance is off', rr)

def plain_status_report(rng, crc=None):
    """ An (unsecured) status report produced by a real agent (node dtn://rptr/), independently decoded. """
    rcv = Receiver({}, accept=False, node_id='dtn://rptr/')
    ctr = BundleContainer()
    ctr.bundle.primary = PrimaryBlock(bundle_flags=0x20000 | 0x4000, destination='dtn://dst/svc', report_to='dtn://node/',
                                      crc_type=rng.choice([0, 1, 2]) if crc is None else crc, lifetime=1000)
    ctr.bundle.blocks = [CanonicalBlock(type_code=1, block_num=1, crc_type=1, btsd=b'please report')]
    rcv.feed(Sender({}, 'none', rng=rng).send(ctr))
    return IBundle(rcv.cl.sent[0])


def enc_primary(p):
    """ Independent encoder of a primary block (model JSON) with its CRC. """
    arr = [p['version'], p['flags'], p['crcType'], eid_cbor(p['dest']), eid_cbor(p['src']), eid_cbor(p['rpt']), list(p['ts']), p['lifetime']]
    if p['flags'] & 1:
        arr += [p['fragOff'], p['totalLen']]
    ct = p['crcType']
    if not ct:
        return cbor2.dumps(arr)
    arr.append(bytes(2 * ct))
    raw = bytearray(cbor2.dumps(arr))
    raw[-2 * ct:] = crc_of(ct, raw)
    return bytes(raw)


def eid_text_alterations(text):
    """ Alterations of dtn EID text that a URL-style codec might normalise away. """
    out = []
    if text.endswith(b'/'):
        out += [('last-slash-to-?', text[:-1] + b'?'), ('last-slash-to-#', text[:-1] + b'#'), ('drop-trailing-slash', text[:-1])]
    mid = max(3, len(text) // 2)
    out += [('append-?', text + b'?'), ('append-#', text + b'#'), ('append-?#', text + b'?#'),
            ('insert-tab', text[:mid] + b'\t' + text[mid:]), ('insert-lf', text[:mid] + b'\n' + text[mid:]),
            ('insert-cr', text[:mid] + b'\r' + text[mid:]), ('append-space', text + b' '), ('append-slash', text + b'/')]
    return out


def eid_normalisation_monitor(chk, prop, keyhex, conf, reps):
    """ Alter the text of every covered dtn EID (primary block source / destination / report-to, security source) in ways
    a decode -> re-encode path could map back to the original; block CRCs are recomputed. Each must be rejected. """
    rng = chk.rng
    keys = keys_from_hex(keyhex)
    kraw = bytes.fromhex(keyhex['enc' if conf else 'mac'])
    for rep in range(reps):
        ib, _payload = plain_bundle(rng, chk.tier, extra=rep % 2, payload=b'eid text is covered')
        if enc_primary(ib.primary) != ib.data[ib.primary_span[0]:ib.primary_span[1]]:
            chk.count('eid-text:primary-reencoding-not-identical(skipped)')
            continue
        n1 = max(b['num'] for b in ib.blocks) + 1
        sc = [[0, 1], [-1, 1]]
        if conf:
            sec, blocks = craft_bcb(chk, ib, kraw, [1], n1, [bytes(rng.getrandbits(8) for _ in range(12))], scope=sc)
        else:
            sec, blocks = craft_bib(chk, ib, kraw, [1], n1, scope=sc), ib.blocks
        accept = bool(rep % 2)
        rcv = Receiver(keys, accept=accept)
        good = assemble(ib, insert_before_payload(blocks, [sec]))
        if not _expect_deliver(chk, prop, 'EID text monitor, unaltered', rcv.feed(good),
                               dict(keys=keyhex, mode='eid-text', accept=accept, data=good.hex())):
            continue
        fields = [('primary ' + k, ib.primary[k]) for k in ('src', 'dest', 'rpt')] + [('security source', IAsb(bytes.fromhex(sec['btsd'])).source)]
        for where, eid in fields:
            if eid['t'] != 'dtn':
                continue
            text = bytes.fromhex(eid['ssp'])
            for kind, alt in eid_text_alterations(text):
                new_eid = {'t': 'dtn', 'ssp': alt.hex()}
                if where == 'security source':
                    sec2 = rebuild_asb(sec, lambda c, e=new_eid: c.__setitem__('source', e))
                    v = assemble(ib, insert_before_payload(blocks, [sec2]))
                else:
                    prim = enc_primary(dict(ib.primary, **{where.split()[1]: new_eid}))
                    v = b'\x9f' + prim + b''.join(enc_canonical(b) for b in insert_before_payload(blocks, [sec])) + b'\xff'
                out = rcv.feed(v)
                chk.count('eid-text:%s' % kind)
                chk.case({'eid': v.hex()}, nontrivial=True)
                replay = dict(keys=keyhex, mode='eid-text', accept=accept, field=where, alteration=kind, original_text=text.decode('latin1'),
                              altered_text=alt.decode('latin1'), data=v.hex(), original=good.hex(), expected='must-fail', observed=out.summary())
                if out.delivered:
                    if known_eid_norm(alt) == text:
                        chk.count('eid-text:normalised-alteration-delivered:%s' % kind)
                        chk.cov.setdefault('eid_normalisation_samples', {}).setdefault(kind, dict(replay, keys=keyhex))
                        chk.violation(EID_NORM_SIG[prop],
                                      'text of the %s EID altered (%s: %r -> %r) and delivered. ' % (where, kind, text.decode('latin1'), alt.decode('latin1'))
                                      + EID_NORM_WHAT, replay)
                    else:
                        chk.violation('%s:covered-alteration-delivered' % prop,
                                      'text of the %s EID altered (%s: %r -> %r), re-encoded to the original by the codec: delivered'
                                      % (where, kind, text.decode('latin1'), alt.decode('latin1')), replay)
                elif out.ctr is not None and 'receive' in (out.actions or {}) and not out.sec_marked():
                    chk.violation('%s:failure-not-marked-security' % prop, 'altered EID text rejected without a security reason', replay)


def craft_bcb_kw(chk, ib, recipients, cek, targets, sec_num, ivs, scope, blocks=None):
    """ BCB with COSE_Encrypt (A256GCM) and a list of AES key-wrap recipients [(kid, kek)]; associated data (context
    "Encrypt") from the Lean model. Returns (bcb block, blocks with ciphertext). """
    from cryptography.hazmat.primitives.ciphers.aead import AESGCM
    from cryptography.hazmat.primitives.keywrap import aes_key_wrap
    source = {'t': 'dtn', 'ssp': b'//node/'.hex()}
    blocks = [dict(b) for b in (ib.blocks if blocks is None else blocks)]
    sec = dict(type=12, num=sec_num, flags=1, crcType=0, btsd='', crc=None)
    sc = [list(x) for x in scope]
    results = []
    for t, iv in zip(targets, ivs):
        tgt = [b for b in blocks if b['num'] == t][0]
        ans = model(chk, [{'op': 'sec.encinput', 'context': 'Encrypt', 'prot': PROT_A256GCM.hex(),
                           'ctx': dict(ssrc=source, scope=sc, primary=ib.primary, blocks=blocks, secBlk=sec, tgt=tgt, addlProt='')}])[0]
        tgt['btsd'] = AESGCM(cek).encrypt(iv, bytes.fromhex(tgt['btsd']), bytes.fromhex(ans['input'])).hex()
        recips = [[b'', {1: -5, 4: rk}, aes_key_wrap(rkek, cek)] for (rk, rkek) in recipients]
        results.append([(96, cbor2.dumps([PROT_A256GCM, {5: iv}, None, recips]))])
    sec['btsd'] = build_asb(targets, results, source=source, params=[(5, {k: v for k, v in sc})]).hex()
    return sec, blocks


def recipient_orders(keyhex, rng):
    """ Recipient lists: ours = the receiver's key-wrap key under its key id; `kx`/`ky` = key ids the receiver does not have;
    `kw` with another key = the receiver has the key id but unwrapping fails. (name, list, some recipient is ours) """
    ours = (b'kw', bytes.fromhex(keyhex['kw']))
    o1 = (b'kx', bytes(rng.getrandbits(8) for _ in range(32)))
    o2 = (b'ky', bytes(rng.getrandbits(8) for _ in range(32)))
    bad = (b'kw', bytes(x ^ 0x33 for x in bytes.fromhex(keyhex['kw'])))
    return [('ours', [ours], True), ('ours,other', [ours, o1], True), ('other,ours', [o1, ours], True),
            ('other,ours,other', [o1, ours, o2], True), ('ours,same-kid-other-key', [ours, bad], True),
            ('same-kid-other-key,ours', [bad, ours], True), ('other,other', [o1, o2], False), ('same-kid-other-key', [bad], False)]


def multi_recipient_monitor(chk, prop, keyhex, conf, reps):
    """ COSE_Encrypt / COSE_Mac with several key-wrap recipients in every order: the block verifies iff SOME recipient
    is for a key the receiver holds, whatever the position. """
    rng = chk.rng
    keys = keys_from_hex(keyhex)
    if not conf:
        install_mac_kw_shim()
    sc = [[0, 1], [-1, 1]]
    for rep in range(reps):
        ib, payload = plain_bundle(rng, chk.tier, extra=rep % 2, payload=b'several recipients' if rep == 0 else None)
        n1 = max(b['num'] for b in ib.blocks) + 1
        cek = bytes(rng.getrandbits(8) for _ in range(32))
        for oi, (name, recips, has_ours) in enumerate(recipient_orders(keyhex, rng)):
            if conf:
                sec, blocks = craft_bcb_kw(chk, ib, recips, cek, [1], n1, [bytes(rng.getrandbits(8) for _ in range(12))], sc)
            else:
                sec, blocks = craft_bib_mackw(chk, ib, None, cek, [1], n1, sc, recipients=recips), ib.blocks
            data = assemble(ib, insert_before_payload(blocks, [sec]))
            for accept in ((True, False) if chk.tier != 'quick' else (bool((oi + rep) % 2),)):
                out = Receiver(keys, accept=accept).feed(data)
                chk.count('recipients:%s' % name)
                replay = dict(keys=keyhex, mode='recipients:' + name, accept=accept, data=data.hex(),
                              recipient_key_ids=[r[0].decode() for r in recips], payload=payload.hex())
                if has_ours:
                    if _expect_deliver(chk, prop, 'recipients [%s]: one of them is for a key the receiver holds' % name, out, replay):
                        chk.cov['traces_validated_against_impl'] += 1
                        if conf and accept and [b for b in out.delivered_blocks if b[1] == 1][0][2] != payload:
                            chk.violation('C16:plaintext-not-recovered', 'recipients [%s]: plaintext not recovered' % name,
                                          dict(replay, observed=out.summary()))
                else:
                    _expect_reject(chk, prop, 'no-usable-recipient-delivered', 'recipients [%s]: none is usable by the receiver' % name, out, replay)
                if has_ours and len(recips) > 1:
                    # the target altered: a recipient that cannot be used must not turn the failure into a success
                    v = assemble(ib, alter_btsd(insert_before_payload(blocks, [sec]), 1))
                    o = Receiver(keys, accept=accept).feed(v)
                    chk.count('recipients:%s:target-altered' % name)
                    _expect_reject(chk, prop, 'altered-target-delivered', 'recipients [%s], target altered' % name, o,
                                   dict(replay, data=v.hex(), original=data.hex()))


def malformed_structure_monitor(chk, prop, keyhex, conf, reps):
    """ A genuine security block with a duplicated parameter id (in front of / behind the genuine parameter) or with a
    second result for a target (in front of / behind the genuine one): must be rejected as a security failure. """
    rng = chk.rng
    keys = keys_from_hex(keyhex)
    kraw = bytes.fromhex(keyhex['enc' if conf else 'mac'])
    sc = [[0, 1], [-1, 1]]
    for rep in range(reps):
        ib, payload = plain_bundle(rng, chk.tier, extra=rep % 2, payload=b'exactly one parameter, exactly one result')
        n1 = max(b['num'] for b in ib.blocks) + 1
        if conf:
            sec, blocks = craft_bcb(chk, ib, kraw, [1], n1, [bytes(rng.getrandbits(8) for _ in range(12))], scope=sc)
        else:
            sec, blocks = craft_bib(chk, ib, kraw, [1], n1, scope=sc), ib.blocks
        junk_id = 18 if not conf else 17
        edits = [
            ('duplicate-parameter', 'AAD-scope parameter duplicated in front of the genuine one (other value)',
             lambda c: c['params'].insert(0, (5, {0: 0, -1: 3}))),
            ('duplicate-parameter', 'AAD-scope parameter duplicated behind the genuine one', lambda c: c['params'].append(c['params'][0])),
            ('duplicate-parameter', 'an unknown parameter id twice', lambda c: c['params'].extend([(77, 0), (77, 1)])),
            ('extra-result', 'a second result with another result id behind the genuine one',
             lambda c: c['results'][0].append((junk_id, b'\x80'))),
            ('extra-result', 'a second result with another result id in front of the genuine one',
             lambda c: c['results'][0].insert(0, (junk_id, b'\x80'))),
        ]
        for accept in (True, False):
            base = dict(keys=keyhex, mode='malformed-structure', accept=accept, payload=payload.hex())
            data = assemble(ib, insert_before_payload(blocks, [sec]))
            if not _expect_deliver(chk, prop, 'structure monitor, genuine block', Receiver(keys, accept=accept).feed(data), dict(base, data=data.hex())):
                continue
            for sig, what, fn in edits:
                v = assemble(ib, insert_before_payload(blocks, [rebuild_asb(sec, fn)]))
                o = Receiver(keys, accept=accept).feed(v)
                chk.count('malformed-structure:%s' % sig)
                _expect_reject(chk, prop, '%s-accepted' % sig, what, o, dict(base, data=v.hex(), original=data.hex(), what=what))


def additional_headers_monitor(chk, prop, keyhex, conf, reps):
    """ The key id travels in the Additional Unprotected security parameter (id 4) instead of the COSE header
    (draft-ietf-bpsec-cose: additional headers are defaults for the messages' top layer): must verify / decrypt. """
    rng = chk.rng
    keys = keys_from_hex(keyhex)
    if not conf:
        install_mac_kw_shim()
    sc = [[0, 1], [-1, 1]]

    def strip_kid(c):
        for rl in c['results']:
            rid, val = rl[0]
            msg = cbor2.loads(val)
            kid = msg[1].pop(4, None)
            if kid is None:                      # key-wrap layer: the recipient carries the key id
                kid = msg[-1][0][1].pop(4)
            rl[0] = (rid, cbor2.dumps(msg))
        c['params'].append((4, cbor2.dumps({4: kid})))
    for rep in range(reps):
        ib, payload = plain_bundle(rng, chk.tier, extra=rep % 2, payload=b'key id in the additional headers')
        n1 = max(b['num'] for b in ib.blocks) + 1
        cek = bytes(rng.getrandbits(8) for _ in range(32))
        iv = bytes(rng.getrandbits(8) for _ in range(12))
        if conf:
            variants = [('enc0', craft_bcb(chk, ib, bytes.fromhex(keyhex['enc']), [1], n1, [iv], scope=sc)),
                        ('enc+kw', craft_bcb_kw(chk, ib, [(b'kw', bytes.fromhex(keyhex['kw']))], cek, [1], n1, [iv], sc))]
        else:
            variants = [('mac0', (craft_bib(chk, ib, bytes.fromhex(keyhex['mac']), [1], n1, scope=sc), ib.blocks)),
                        ('mac+kw', (craft_bib_mackw(chk, ib, bytes.fromhex(keyhex['kw']), cek, [1], n1, sc), ib.blocks))]
        for name, (sec, blocks) in variants:
            sec2 = rebuild_asb(sec, strip_kid)
            for accept in (True, False):
                base = dict(keys=keyhex, mode='additional-headers:' + name, accept=accept)
                data = assemble(ib, insert_before_payload(blocks, [sec2]))
                out = Receiver(keys, accept=accept).feed(data)
                chk.count('additional-headers:%s' % name)
                if not out.delivered:
                    chk.violation('%s:key-id-in-additional-headers-rejected' % prop,
                                  '%s: the key id is given in the Additional Unprotected parameter; not verified' % name,
                                  dict(base, data=data.hex(), expected='must-pass', observed=out.summary()))
                    continue
                chk.cov['traces_validated_against_impl'] += 1
                v = assemble(ib, alter_btsd(insert_before_payload(blocks, [sec2]), 1))
                _expect_reject(chk, prop, 'altered-target-delivered', '%s with key id in the additional headers, target altered' % name,
                               Receiver(keys, accept=accept).feed(v), dict(base, data=v.hex(), original=data.hex()))


def sign1_source_monitor(chk, prop, keyhex, reps):
    """ The agent as a signing source: an EC key in the asymmetric key store, its certificate chain configured, the
    chain (x5chain) or only its thumbprint (x5t) sent in the Additional Unprotected parameter. The BIB it produces must
    verify at a receiver trusting the CA, and an altered target must be rejected. """
    from cryptography import x509
    from cryptography.hazmat.primitives import serialization
    from pycose.keys.keyops import SignOp
    mat = _sign1_material()
    rng = chk.rng
    keys = keys_from_hex(keyhex)
    cert = x509.load_der_x509_certificate(mat['match'])
    ca_der = mat['ca'].public_bytes(serialization.Encoding.DER)
    for rep in range(reps):
        # (thumbprint-only mode, integrity_include_chain=False, cannot run here: upstream pycose's X5T.encode() returns the
        #  algorithm class, which the plain cbor2.dumps of apply_bib cannot encode; the step raises and no BIB is added)
        for include_chain in (True,):
            snd = Sender(keys, 'sign1', rng=rng)
            snd.config.integrity_include_chain = include_chain
            ck = snd.ctx.extract_cose_key(mat['key'])
            ck.kid = b'sig'
            ck.key_ops = [SignOp]
            snd.ctx.asym_key_store[b'sig'] = ck
            snd.ctx._cert_chain = [cert]
            snd.tgt_types = [1, 7] if rep % 2 else [1]
            ctr, payload = gen_container(rng, chk.tier, kinds=[0] if rep % 2 else None, payload=b'signed at the source')
            CAPTURE.active = True
            data = snd.send(ctr)
            a1, s1 = CAPTURE.take()
            CAPTURE.active = False
            how = 'x5chain' if include_chain else 'x5t'
            base = dict(keys=keyhex, mode='sign1-source:' + how, data=data.hex() if data else None)
            chk.count('sign1-source:%s' % how)
            chk.case({'s1': base['data']}, nontrivial=True)
            try:
                ib = IBundle(data)
                secs = [b for b in ib.blocks if b['type'] == 11]
                asb = IAsb(bytes.fromhex(secs[0]['btsd']))
                ok = len(secs) == 1 and all(len(rl) == 1 and rl[0][0] == 18 for rl in asb.results) and asb.targets == snd.last_selected
            except Exception:
                ok = False
            if not ok:
                chk.violation('%s:source-did-not-apply-security-block' % prop,
                              'signing source (%s): no COSE_Sign1 BIB over the selected blocks on the wire' % how, base)
                continue
            check_captures(chk, a1, s1, 'sign1 source')
            for accept in (False, True):
                rcv = Receiver(keys, accept=accept)
                rcv.ctx._ca_certs = [mat['ca']]
                if not include_chain:
                    # thumbprint only: the receiver knows the certificates from configuration
                    rcv.ctx.cert_store.add_untrusted_cert(mat['match'])
                    rcv.ctx.cert_store.add_untrusted_cert(ca_der)
                out = rcv.feed(data)
                if _expect_deliver(chk, prop, 'BIB signed by the agent (%s)' % how, out, dict(base, accept=accept)):
                    chk.cov['traces_validated_against_impl'] += 1
                    v = assemble(ib, alter_btsd(ib.blocks, 1)) if assemble(ib, ib.blocks) == data else None
                    if v is not None:
                        _expect_reject(chk, prop, 'altered-target-delivered', 'BIB signed by the agent (%s), target altered' % how,
                                       _rcv_like(rcv, keys, accept, mat, include_chain, ca_der).feed(v), dict(base, accept=accept, data=v.hex(), original=data.hex()))


def _rcv_like(_r, keys, accept, mat, include_chain, ca_der):
    rcv = Receiver(keys, accept=accept)
    rcv.ctx._ca_certs = [mat['ca']]
    if not include_chain:
        rcv.ctx.cert_store.add_untrusted_cert(mat['match'])
        rcv.ctx.cert_store.add_untrusted_cert(ca_der)
    return rcv


def json_scope(scope):
    return ','.join('%d:%d' % (k, v) for k, v in scope)


def replay_variant(chk, path, prop):
    import json
    obj = json.load(open(path))
    r = obj.get('replay', obj)
    rcv = Receiver(keys_from_hex(r['keys'], r.get('receiver_keys', 'same')), accept=bool(r.get('accept')))
    rcv.ctx._ca_certs = [_sign1_material()['ca']]
    install_mac_kw_shim()
    out = rcv.feed(bytes.fromhex(r['data']))
    print('signature:', obj.get('signature'))
    print('expected :', r.get('expected'))
    print('recorded :', json.dumps(r.get('observed')))
    print('now      :', json.dumps(out.summary()))
    same = out.summary() == r.get('observed')
    print('REPRODUCED' if same else 'differs from the recording')
    return 1 if same else 0
