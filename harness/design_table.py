#!/usr/bin/env python3
''' Maintenance helper (not a check): print the per-property status table of DESIGN.md 12.15 from the evidence files. '''
import json
import os

VERIF = os.path.dirname(os.path.dirname(os.path.abspath(__file__)))


def main():
    print('| id | Lean obligations (all discharged) | cases explored (quick, seed of the run) | distinct non-trivial | known findings printed |')
    print('|---|---|---|---|---|')
    tot = 0
    for i in range(1, 21):
        pid = 'C%02d' % i
        d = json.load(open(os.path.join(VERIF, 'evidence', pid + '.json')))
        cov = d['coverage']
        tot += cov['obligations']
        print('| %s | %d / %d | %d (%s, seed %s) | %d | %d |' % (pid, cov['discharged'], cov['obligations'], cov['evaluations'], d['tier'], d['seed'],
                                                             cov['distinct_nontrivial'], len(cov.get('known_findings_hit') or [])))
    print()
    print('Total: %d proof obligations.' % tot)


if __name__ == '__main__':
    main()
