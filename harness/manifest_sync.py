#!/usr/bin/env python3
''' Maintenance helper (not a check): make sure every theorem of a property's Lean modules is named in the
MANIFEST claim text of that property. Theorems not mentioned yet are appended as
"Further obligations discharged on every run: a, b, c." Run after the evidence files are fresh. '''
import json
import os
import re

VERIF = os.path.dirname(os.path.dirname(os.path.abspath(__file__)))


def main():
    mp = os.path.join(VERIF, 'MANIFEST.json')
    m = json.load(open(mp))
    changed = False
    for c in m['checks']:
        pid = c['property_id']
        ev = os.path.join(VERIF, 'evidence', '%s.json' % pid)
        if not os.path.exists(ev):
            continue
        d = json.load(open(ev))
        names = d.get('coverage', d).get('theorems') or d.get('theorems') or []
        text = c['level_claimed']['text']
        marker = ' Further obligations discharged on every run: '
        base = text.split(marker)[0]
        short = [n.split('.')[-1] for n in names]
        missing = [n for n in short if not re.search(r'\b%s\b' % re.escape(n), base) and re.match(r'C\d\d', n)]
        new = base + (marker + ', '.join(sorted(set(missing))) + '.' if missing else '')
        if new != text:
            c['level_claimed']['text'] = new
            changed = True
            print(pid, '+%d' % len(missing))
    if changed:
        json.dump(m, open(mp, 'w'), indent=1)


if __name__ == '__main__':
    main()
