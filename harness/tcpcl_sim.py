''' Two real tcpcl.session.ContactHandler endpoints (or one endpoint against a scripted peer) joined by
simulated sockets and driven event by event under a harness-chosen schedule (DESIGN §3.1).
Every applied event is recorded in the JSON form the Lean model driver understands, together with
the canonicalised observables of that event, so a run can be replayed through the model. '''
import json

import tcpcl_util as tu
from tcpcl_util import GLib, session, FakeSock

LOOP = GLib.LOOP
CHUNK = 10240


def canon_val(v):
    ''' Type-faithful canonical form of a Python value handed to a D-Bus signal / returned. '''
    import dbus
    if isinstance(v, bool):
        return {'bool': bool(v)}
    if isinstance(v, (bytes, bytearray)):
        return {'b': bytes(v).hex()}
    if isinstance(v, str):
        return {'s': str(v)}
    if isinstance(v, int):
        return {'n': int(v)}
    if isinstance(v, (list, tuple)):
        if all(isinstance(x, str) for x in v):
            return {'ss': [str(x) for x in v]}
        return {'list': [canon_val(x) for x in v]}
    if isinstance(v, dict):
        return {'dict': {str(k): canon_val(x) for k, x in sorted(v.items())}}
    if v is None:
        return {'none': True}
    return {'other': type(v).__name__}


class _VirtualDatetime(object):
    ''' stand-in for the `datetime` module inside tcpcl.session: virtual loop time plus a strictly
    increasing microsecond counter (so an acknowledgement is always later than its segment) '''
    import datetime as _dt
    timezone = _dt.timezone
    timedelta = _dt.timedelta
    _n = 0

    class datetime(object):
        @staticmethod
        def now(tz=None):
            import datetime as _dt
            _VirtualDatetime._n += 1
            return _dt.datetime(2020, 1, 1, tzinfo=tz) + _dt.timedelta(milliseconds=LOOP.now, microseconds=_VirtualDatetime._n)


session.datetime = _VirtualDatetime


class Endpoint(object):
    def __init__(self, name, passive, cfg):
        self.name = name
        self.passive = passive
        self.cfg = cfg
        self.sock = FakeSock(name)
        kw = dict(config=tu.make_config(
            node_id=cfg.get('node_id', 'dtn://%s/' % name), keepalive_time=cfg.get('keepalive', 0),
            idle_time=cfg.get('idle', 0), segment_size_mru=cfg.get('seg_mru', 10485760),
            segment_size_tx_initial=cfg.get('seg_init', 104857),
            enable_test=set(['private_extensions']) if cfg.get('priv_ext') else set(),
            modulate_target_ack_time=cfg.get('modulate'), **({'require_tls': cfg['require_tls']} if 'require_tls' in cfg else {})),
                  sock=self.sock)
        if passive:
            kw['fromaddr'] = ('192.0.2.1', 40000)
        else:
            kw['toaddr'] = ('192.0.2.1', 4556)
        self.h = session.ContactHandler(hdl_kwargs=kw, bus_kwargs=dict(conn=None, object_path='/verif/' + name))
        # segment-size controller: the float arithmetic is not modelled; its clamped output is observed
        # and handed to the model as a `modulate` event right after the event in which it ran
        self._modulated = False
        _orig_mod = self.h._modulate_tx_seg_size

        def _mod(delta_b, delta_t, _orig=_orig_mod):
            if not self._modulated:
                self._seg_pre = self.h._send_segment_size
            try:
                return _orig(delta_b, delta_t)
            finally:
                self._modulated = True
        self.h._modulate_tx_seg_size = _mod
        self.events = []        # JSON events (model input)
        self.obs = []           # canonical observables per event
        self._sig_mark = 0
        self._sent_mark = 0
        self._closed_seen = False
        self.user_closed = False
        self.log = None

    def model_cfg(self):
        return {'passive': self.passive, 'node': self.cfg.get('node_id', 'dtn://%s/' % self.name).encode().hex(),
                'keepalive': self.cfg.get('keepalive', 0), 'idle': self.cfg.get('idle', 0),
                'seg_mru': self.cfg.get('seg_mru', 10485760), 'seg_init': self.cfg.get('seg_init', 104857),
                'priv_ext': bool(self.cfg.get('priv_ext'))}

    # ---- sources of this endpoint
    def sources(self, kind=None, name=None):
        out = []
        for s in LOOP.pending(kind):
            if getattr(s.func, '__self__', None) is self.h and (name is None or s.func.__name__ == name):
                out.append(s)
        return out

    def closed(self):
        return self.sock.closed

    def snapshot(self):
        h = self.h
        pq = len(self.sources('idle', '_process_queue'))
        txsrc = len([s for s in self.sources() if s.func.__name__ in ('_avail_tx_notls', '_avail_tx_tls')])
        ka = [s.deadline for s in self.sources('timeout', '_keepalive_timeout')]
        idle = [s.deadline for s in self.sources('timeout', '_idle_timeout')]
        return {'closed': self.sock.closed, 'state': str(h._state), 'txbuf': h.send_buffer_used(),
                'rxbuf': h.recv_buffer_used(), 'pq': pq, 'txsrc': txsrc, 'ka': ka[0] if ka else None,
                'idle': idle[0] if idle else None, 'seg': h._send_segment_size or 0}

    def _collect(self, esc=None, raised=None, ret=None):
        sigs = []
        for (_path, name, _sig, args) in self.h._verif_signals[self._sig_mark:]:
            sigs.append({'sig': name, 'args': [canon_val(a) for a in args]})
        self._sig_mark = len(self.h._verif_signals)
        wire = bytes(self.sock.sent[self._sent_mark:])
        self._sent_mark = len(self.sock.sent)
        closed_now = self.sock.closed and not self._closed_seen
        if closed_now:
            self._closed_seen = True
        return {'sigs': sigs, 'wire': wire.hex(), 'closed': closed_now, 'escaped': esc, 'raised': raised, 'ret': ret,
                'snap': self.snapshot()}

    def record(self, ev, obs):
        self.events.append(ev)
        self.obs.append(obs)
        if self.log is not None:
            self.log.append((self.name, ev, obs))

    # ---- user-level calls
    def call(self, ev, fn):
        raised = None
        ret = None
        try:
            r = fn()
            if r is not None:
                ret = canon_val(r)
        except Exception as err:
            raised = type(err).__name__
        self.record(ev, self._collect(raised=raised, ret=ret))

    def fire(self, ev, src):
        ran, exc = LOOP.fire(src)
        obs = self._collect(esc=type(exc).__name__ if exc is not None else None)
        if self._modulated and isinstance(obs.get('snap'), dict):
            # the controller's effect is attributed to the `modulate` event which follows
            obs['snap']['seg'] = self._seg_pre or 0
        self.record(ev, obs)
        if self._modulated:
            self._modulated = False
            if not self.sock.closed:       # the segment size of a closed endpoint is of no consequence
                self.record({'e': 'modulate', 'raw': int(self.h._send_segment_size)}, self._collect())


class Sim(object):
    ''' Two endpoints A (active) and B (passive) with in-flight byte queues. '''

    def __init__(self, cfg_a=None, cfg_b=None):
        LOOP.reset()
        import dbus.service
        del dbus.service.LOG[:]
        self.a = Endpoint('a', False, cfg_a or {})
        self.b = Endpoint('b', True, cfg_b or {})
        self.log = []           # global order: (endpoint name, event, observables)
        self.a.log = self.log
        self.b.log = self.log
        self.inflight = {'a': bytearray(), 'b': bytearray()}   # octets travelling *to* that endpoint
        self.eof_sent = {'a': False, 'b': False}

    def eps(self):
        return [self.a, self.b]

    def peer(self, ep):
        return self.b if ep is self.a else self.a

    def _after(self, ep):
        ''' move newly accepted octets into the peer's in-flight queue '''
        peer = self.peer(ep)
        new = bytes(ep.sock.sent[getattr(ep, '_flight_mark', 0):])
        ep._flight_mark = len(ep.sock.sent)
        self.inflight[peer.name] += new

    # ---- enabled events
    def enabled(self, ep):
        ''' list of (kind, detail) the schedule may pick for this endpoint '''
        out = []
        if ep.sources('idle', '_process_queue'):
            out.append('pq')
        if self.tx_sources(ep):
            out.append('pump')
        if ep.sources('io', None) and any(s.cond == GLib.IO_IN for s in ep.sources('io')):
            if self.inflight[ep.name]:
                out.append('rx')
            elif self.peer(ep).closed() and not self.eof_sent[ep.name]:
                out.append('eof')
        return out

    def tx_sources(self, ep):
        return [s for s in ep.sources() if s.func.__name__ in ('_avail_tx_notls', '_avail_tx_tls')]

    def timers(self, ep):
        return [s for s in ep.sources('timeout')]

    # ---- applying events
    def start(self, ep):
        ep.call({'e': 'start'}, ep.h.start)
        self._after(ep)

    def send(self, ep, data):
        ep.call({'e': 'send', 'data': data.hex()}, lambda: ep.h.send_bundle_data(list(data)))
        self._after(ep)

    def terminate(self, ep, reason=0):
        ep.call({'e': 'terminate', 'reason': reason}, lambda: ep.h.terminate(reason))
        self._after(ep)

    def close(self, ep):
        ep.user_closed = True
        ep.call({'e': 'close'}, ep.h.close)
        self._after(ep)

    def pop(self, ep, tid):
        ep.call({'e': 'pop', 'tid': tid}, lambda: bytes(ep.h.recv_bundle_pop_data(str(tid))))

    def query(self, ep, q):
        fn = {'state': ep.h.get_session_state, 'idle': lambda: bool(ep.h.is_sess_idle()),
              'txq': lambda: list(ep.h.send_bundle_get_queue()), 'rxq': lambda: list(ep.h.recv_bundle_get_queue())}[q]
        ep.call({'e': 'query', 'q': q}, fn)

    def pq(self, ep):
        src = ep.sources('idle', '_process_queue')[0]
        ep.fire({'e': 'pq'}, src)
        self._after(ep)

    def pump(self, ep, n):
        src = self.tx_sources(ep)[0]
        ep.sock.accept = n
        ep.fire({'e': 'pump', 'n': n}, src)
        ep.sock.accept = None
        self._after(ep)

    def rx(self, ep, k):
        q = self.inflight[ep.name]
        k = max(1, min(k, len(q), CHUNK))
        chunk = bytes(q[:k])
        del q[:k]
        return self.rx_bytes(ep, chunk)

    def rx_bytes(self, ep, chunk):
        src = [s for s in ep.sources('io') if s.cond == GLib.IO_IN][0]
        ep.sock.rx_script = [chunk]
        ep.fire({'e': 'rx', 'data': chunk.hex()}, src)
        ep.sock.rx_script = []
        self._after(ep)

    def eof(self, ep):
        src = [s for s in ep.sources('io') if s.cond == GLib.IO_IN][0]
        self.eof_sent[ep.name] = True
        ep.sock.rx_script = [b'']
        ep.fire({'e': 'eof'}, src)
        ep.sock.rx_script = []
        self._after(ep)

    def advance(self, ms):
        LOOP.now += ms
        for ep in self.eps():
            ep.record({'e': 'advance', 'ms': ms}, ep._collect())

    def timer(self, ep, which):
        name = {'ka': '_keepalive_timeout', 'idle': '_idle_timeout'}[which]
        src = ep.sources('timeout', name)[0]
        ep.fire({'e': which}, src)
        self._after(ep)

    def due_timers(self, ep):
        out = []
        for s in ep.sources('timeout'):
            if s.deadline is not None and s.deadline <= LOOP.now:
                out.append('ka' if s.func.__name__ == '_keepalive_timeout' else 'idle')
        return out

    # ---- schedules
    def step_random(self, rng, weights=None):
        ''' Fire one enabled internal event chosen at random. Returns False when none is enabled. '''
        choices = []
        for ep in self.eps():
            for k in self.enabled(ep):
                choices.append((ep, k))
            for t in self.due_timers(ep):
                choices.append((ep, t))
        if not choices:
            return False
        ep, k = rng.choice(choices)
        self.apply_internal(rng, ep, k)
        return True

    def apply_internal(self, rng, ep, k):
        if k == 'pq':
            self.pq(ep)
        elif k == 'pump':
            c = rng.random()
            n = 1 if c < 0.1 else (rng.choice([2, 3, 5, 17, 100]) if c < 0.4 else CHUNK)
            if c > 0.94:
                n = 0       # back-pressure: the callback came from the idle source and the socket is not writable
            self.pump(ep, n)
        elif k == 'rx':
            c = rng.random()
            n = 1 if c < 0.1 else (rng.choice([2, 3, 5, 17, 100, 1000]) if c < 0.45 else CHUNK)
            self.rx(ep, n)
        elif k == 'eof':
            self.eof(ep)
        elif k in ('ka', 'idle'):
            self.timer(ep, k)

    def run_quiescent(self, rng, limit=20000):
        n = 0
        while n < limit and self.step_random(rng):
            n += 1
        return n < limit

    def establish(self, rng=None):
        ''' deterministic hand-shake: start both, run internal events to quiescence '''
        import random
        rng = rng or random.Random(0)
        self.start(self.b)
        self.start(self.a)
        self.run_quiescent(rng)


def model_requests(ep):
    return {'op': 'tcpcl.ep', 'cfg': ep.model_cfg(), 'events': ep.events}


def canon_model_out(entry):
    ''' bring one model trace entry into the harness's canonical observable form '''
    sigs, wire, closed, esc, raised, ret = [], '', False, None, None, None
    for o in entry['out']:
        if 'sig' in o:
            sigs.append({'sig': o['sig'], 'args': o['args']})
        elif 'wire' in o:
            wire += o['wire']
        elif 'closed' in o:
            closed = True
        elif 'escaped' in o:
            esc = o['escaped']
        elif 'raised' in o:
            raised = o['raised']
        elif 'ret' in o:
            ret = o['ret']
    return {'sigs': sigs, 'wire': wire, 'closed': closed, 'escaped': esc, 'raised': raised, 'ret': ret, 'snap': entry['snap']}


SNAP_KEYS = ('closed', 'state', 'txbuf', 'rxbuf', 'pq', 'txsrc')


def diff_trace(ep, model_trace, with_timers=False, project=None):
    ''' first event index at which implementation and model observables differ, or None '''
    for i, (obs, ent) in enumerate(zip(ep.obs, model_trace)):
        mo = canon_model_out(ent)
        a = {k: obs[k] for k in ('sigs', 'wire', 'closed', 'escaped', 'raised', 'ret')}
        b = {k: mo[k] for k in ('sigs', 'wire', 'closed', 'escaped', 'raised', 'ret')}
        keys = SNAP_KEYS + (('ka', 'idle', 'seg') if with_timers else ())
        sa = {k: obs['snap'][k] for k in keys}
        sb = {k: mo['snap'][k] for k in keys}
        if sa.get('closed') and sb.get('closed'):
            # what a closed endpoint still holds in its receive buffer is not observable
            # … nor are TX sources left behind by a closed connection (their callback does nothing)
            for k in ('rxbuf', 'seg', 'txsrc'):
                sa.pop(k, None)
                sb.pop(k, None)
        if project:
            a, b, sa, sb = project(a), project(b), sa, sb
        if a != b or sa != sb:
            return i, {'event': ep.events[i], 'impl': dict(a, snap=sa), 'model': dict(b, snap=sb)}
    return None
