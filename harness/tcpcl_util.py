''' TCPCL harness helpers: fake sockets, real-object construction, message <-> JSON conversion and an
independent RFC 9174 codec (written from the RFC; uses nothing from /repo). '''
import struct

import boot

boot.boot()

from gi.repository import GLib  # noqa: E402
from scapy.packet import Raw  # noqa: E402
from tcpcl import contact, messages, extend, session, formats  # noqa: E402
from tcpcl.config import Config  # noqa: E402

MAGIC = b'dtn!'
T_SEG, T_ACK, T_REFUSE, T_KEEPALIVE, T_TERM, T_REJECT, T_INIT = 1, 2, 3, 4, 5, 6, 7


# ---------------------------------------------------------------- independent codec (RFC 9174)
def rfc_encode(m):
    k = m['k']
    if k == 'contact':
        return MAGIC + bytes([4, m['flags']])
    if k == 'sess_init':
        node = bytes.fromhex(m['node'])
        ext = bytes.fromhex(m['ext'])
        return (bytes([T_INIT]) + struct.pack('!HQQH', m['keepalive'], m['seg_mru'], m['xfer_mru'], len(node))
                + node + struct.pack('!I', len(ext)) + ext)
    if k == 'sess_term':
        return bytes([T_TERM, m['flags'], m['reason']])
    if k == 'xfer_segment':
        out = bytes([T_SEG, m['flags']]) + struct.pack('!Q', m['tid'])
        if m['flags'] & 2:
            ext = bytes.fromhex(m['ext'])
            out += struct.pack('!I', len(ext)) + ext
        data = bytes.fromhex(m['data'])
        return out + struct.pack('!Q', len(data)) + data
    if k == 'xfer_ack':
        return bytes([T_ACK, m['flags']]) + struct.pack('!QQ', m['tid'], m['len'])
    if k == 'xfer_refuse':
        return bytes([T_REFUSE, m['reason']]) + struct.pack('!Q', m['tid'])
    if k == 'keepalive':
        return bytes([T_KEEPALIVE])
    if k == 'msg_reject':
        # RFC 9174 5.1.2: reason code first, then the rejected message header
        return bytes([T_REJECT, m['reason'], m['rej_id']])
    raise ValueError(k)


class Need(Exception):
    pass


class _Rd(object):
    def __init__(self, data, pos=0):
        self.d = data
        self.p = pos

    def take(self, n):
        if self.p + n > len(self.d):
            raise Need()
        out = self.d[self.p:self.p + n]
        self.p += n
        return out

    def u(self, fmt):
        return struct.unpack('!' + fmt, self.take(struct.calcsize('!' + fmt)))[0]


def rfc_decode_one(data, pos, in_conn):
    ''' Decode one message at `pos`. Returns (msg, new_pos); raises Need when incomplete,
    ValueError for a bad contact header / unknown type. '''
    r = _Rd(data, pos)
    if not in_conn:
        head = r.take(5)
        if head[:4] != MAGIC or head[4] != 4:
            raise ValueError('bad contact header')
        return {'k': 'contact', 'flags': r.u('B')}, r.p
    t = r.u('B')
    if t == T_SEG:
        flags = r.u('B')
        tid = r.u('Q')
        ext = b''
        if flags & 2:
            ext = r.take(r.u('I'))
        data_ = r.take(r.u('Q'))
        m = {'k': 'xfer_segment', 'flags': flags, 'tid': tid, 'ext': ext.hex(), 'data': data_.hex()}
    elif t == T_ACK:
        m = {'k': 'xfer_ack', 'flags': r.u('B'), 'tid': r.u('Q'), 'len': r.u('Q')}
    elif t == T_REFUSE:
        m = {'k': 'xfer_refuse', 'reason': r.u('B'), 'tid': r.u('Q')}
    elif t == T_KEEPALIVE:
        m = {'k': 'keepalive'}
    elif t == T_TERM:
        m = {'k': 'sess_term', 'flags': r.u('B'), 'reason': r.u('B')}
    elif t == T_REJECT:
        reason = r.u('B')
        m = {'k': 'msg_reject', 'rej_id': r.u('B'), 'reason': reason}
    elif t == T_INIT:
        ka = r.u('H')
        sm = r.u('Q')
        xm = r.u('Q')
        node = r.take(r.u('H'))
        ext = r.take(r.u('I'))
        m = {'k': 'sess_init', 'keepalive': ka, 'seg_mru': sm, 'xfer_mru': xm, 'node': node.hex(), 'ext': ext.hex()}
    else:
        raise ValueError('unknown message type %d' % t)
    return m, r.p


def rfc_frames(data, in_conn=False):
    ''' All complete messages of a stream: [(msg, end_offset)], plus residual start offset. '''
    out = []
    pos = 0
    while pos < len(data):
        try:
            m, pos2 = rfc_decode_one(data, pos, in_conn)
        except Need:
            break
        out.append((m, pos2))
        pos = pos2
        in_conn = True
    return out, pos


def rfc_ext_items(blob):
    ''' Itemise an extension blob: [(flags, type, value)] or None when malformed. '''
    out = []
    pos = 0
    while pos < len(blob):
        if pos + 5 > len(blob):
            return None
        flags, typ, ln = struct.unpack('!BHH', blob[pos:pos + 5])
        if pos + 5 + ln > len(blob):
            return None
        out.append((flags, typ, blob[pos + 5:pos + 5 + ln]))
        pos += 5 + ln
    return out


def ext_blob(items):
    return b''.join(struct.pack('!BHH', f, t, len(v)) + v for (f, t, v) in items)


# ---------------------------------------------------------------- real objects
def _ext_packets(blob, hdr_cls):
    ''' Build the list of real extension packets corresponding to a blob of well-formed items. '''
    items = rfc_ext_items(blob)
    pkts = []
    for (f, t, v) in items:
        pkts.append(hdr_cls(flags=f, type=t, length=len(v)) / Raw(load=v) if v else hdr_cls(flags=f, type=t, length=0))
    return pkts


def real_packet(m):
    ''' Construct the real scapy packet for a JSON message (the implementation's own encoder). '''
    k = m['k']
    if k == 'contact':
        return contact.Head() / contact.ContactV4(flags=m['flags'])
    if k == 'sess_init':
        return messages.MessageHead() / messages.SessionInit(
            keepalive=m['keepalive'], segment_mru=m['seg_mru'], transfer_mru=m['xfer_mru'],
            nodeid_data=bytes.fromhex(m['node']).decode('utf-8'),
            ext_items=_ext_packets(bytes.fromhex(m['ext']), messages.SessionExtendHeader))
    if k == 'sess_term':
        return messages.MessageHead() / messages.SessionTerm(flags=m['flags'], reason=m['reason'])
    if k == 'xfer_segment':
        return messages.MessageHead() / messages.TransferSegment(
            flags=m['flags'], transfer_id=m['tid'], data=bytes.fromhex(m['data']),
            ext_items=_ext_packets(bytes.fromhex(m['ext']), messages.TransferExtendHeader))
    if k == 'xfer_ack':
        return messages.MessageHead() / messages.TransferAck(flags=m['flags'], transfer_id=m['tid'], length=m['len'])
    if k == 'xfer_refuse':
        return messages.MessageHead() / messages.TransferRefuse(reason=m['reason'], transfer_id=m['tid'])
    if k == 'keepalive':
        return messages.MessageHead() / messages.Keepalive()
    if k == 'msg_reject':
        return messages.MessageHead() / messages.RejectMsg(rej_msg_id=m['rej_id'], reason=m['reason'])
    raise ValueError(k)


def canon_packet(pkt):
    ''' JSON form of a packet the real receiver handed to recv_message. '''
    if isinstance(pkt, contact.Head):
        pl = pkt.payload
        if pkt.magic != MAGIC or pkt.version != 4:
            return {'k': 'bad_contact', 'magic': bytes(pkt.magic).hex(), 'version': pkt.version}
        if not isinstance(pl, contact.ContactV4):
            return {'k': 'contact_noflags'}
        return {'k': 'contact', 'flags': int(pl.flags)}
    mid = pkt.msg_id
    pl = pkt.payload
    if mid == T_KEEPALIVE:
        return {'k': 'keepalive'}
    if mid == T_INIT:
        ext = b''.join(bytes(i) for i in pl.ext_items)
        node = pl.getfieldval('nodeid_data')
        if isinstance(node, str):
            node = node.encode('utf-8')
        return {'k': 'sess_init', 'keepalive': pl.keepalive, 'seg_mru': pl.segment_mru, 'xfer_mru': pl.transfer_mru,
                'node': bytes(node).hex(), 'ext': ext.hex()}
    if mid == T_TERM:
        return {'k': 'sess_term', 'flags': int(pl.flags), 'reason': int(pl.reason)}
    if mid == T_SEG:
        ext = b''.join(bytes(i) for i in (pl.ext_items or [])) if int(pl.flags) & 2 else b''
        return {'k': 'xfer_segment', 'flags': int(pl.flags), 'tid': pl.transfer_id, 'ext': ext.hex(),
                'data': bytes(pl.getfieldval('data')).hex()}
    if mid == T_ACK:
        return {'k': 'xfer_ack', 'flags': int(pl.flags), 'tid': pl.transfer_id, 'len': pl.length}
    if mid == T_REFUSE:
        return {'k': 'xfer_refuse', 'reason': int(pl.reason), 'tid': pl.transfer_id}
    if mid == T_REJECT:
        return {'k': 'msg_reject', 'rej_id': pl.rej_msg_id, 'reason': int(pl.reason)}
    return {'k': 'unknown', 'type': mid}


class FakeSock(object):
    ''' One end of a simulated TCP connection. The harness decides how many octets each send()
    accepts and what each recv() returns. '''

    def __init__(self, name='sock', peername=('192.0.2.1', 4556)):
        self.name = name
        self.peername = peername
        self.sent = bytearray()       # everything accepted by send()
        self.rx_script = []           # chunks recv() will return (b'' = EOF)
        self.accept = None            # None = accept everything; else max octets for the next send
        self.closed = False
        self.shut = False
        self.blocking = None

    def fileno(self):
        return -1 if self.closed else 99

    def setblocking(self, flag):
        self.blocking = flag

    def getpeername(self):
        return self.peername

    def getsockname(self):
        return ('192.0.2.2', 4556)

    def recv(self, size):
        if not self.rx_script:
            raise BlockingIOError('no data')
        chunk = self.rx_script.pop(0)
        assert len(chunk) <= size
        return chunk

    def send(self, data):
        n = len(data) if self.accept is None else min(self.accept, len(data))
        if self.accept is not None:
            self.accept = None
        if n == 0 and data:
            raise BlockingIOError(11, 'Resource temporarily unavailable')   # back-pressure: not writable now
        self.sent += data[:n]
        return n

    def shutdown(self, how):
        self.shut = True

    def close(self):
        self.closed = True


def make_config(**kw):
    cfg = Config()
    cfg.tls_enable = False
    cfg.node_id = 'dtn://local/'
    for k, v in kw.items():
        setattr(cfg, k, v)
    cfg._bus_conn = None
    return cfg


class FramingProbe(session.Messenger):
    ''' The real Messenger.recv_raw loop with the session layer replaced by a recorder, so that
    framing is observed in isolation (C07). Mirrors only the phase switch of recv_message. '''

    def __init__(self, sock):
        session.Messenger.__init__(self, make_config(), sock, fromaddr=('192.0.2.1', 1000))
        self.seen = []
        self.dead = False

    def recv_message(self, pkt):
        c = canon_packet(pkt)
        self.seen.append(c)
        if isinstance(pkt, contact.Head):
            if c['k'] == 'contact':
                self._in_conn = True
            else:
                self.dead = True

    def close(self):
        # recv_raw itself closes on an unknown message type
        self.dead = True
        session.Messenger.close(self)
