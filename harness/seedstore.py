#!/usr/bin/env python3
''' Store the seeded changes produced by the mutation sub-agents under /verif/seeded/<prop>-<n>/ and
record what the registered check of that property reports on each (re-run now, quick tier).

  harness/seedstore.py Cxx /tmp/seed_Cxx [--notes notes.json] [--tag r2]   (tag: a second round is stored as Cxx-r2m1 …)

For each mN.diff (or mN_ported.diff when the original no longer applies) it writes
  seeded/Cxx-mN/patch.diff, demo.py, meta.json  (+ stubs/ shared per property under seeded/Cxx-stubs/)
meta.json = the agent's description + {"detected": bool, "exit": .., "signatures": [...], "history": "..."}.
'''
import json
import os
import shutil
import subprocess
import sys

VERIF = os.path.dirname(os.path.dirname(os.path.abspath(__file__)))


def main():
    prop, src = sys.argv[1], sys.argv[2]
    notes = {}
    tag = sys.argv[sys.argv.index('--tag') + 1] if '--tag' in sys.argv else ''
    if '--notes' in sys.argv:
        notes = json.load(open(sys.argv[sys.argv.index('--notes') + 1]))
    names = sorted(set(f.split('.')[0].split('_')[0] if not f.startswith('bonus') else 'bonus_m4'
                       for f in os.listdir(src) if f.endswith('.diff')))
    stubs = os.path.join(src, 'stubs')
    if os.path.isdir(stubs):
        dst = os.path.join(VERIF, 'seeded', '%s-%sstubs' % (prop, tag + '-' if tag else ''))
        shutil.rmtree(dst, ignore_errors=True)
        shutil.copytree(stubs, dst, ignore=shutil.ignore_patterns('__pycache__'))
    for n in names:
        patch = os.path.join(src, n + '_ported.diff')
        ported = os.path.exists(patch)
        if not ported:
            patch = os.path.join(src, n + '.diff')
        out = os.path.join(VERIF, 'seeded', '%s-%s%s' % (prop, tag, n.replace('bonus_', '')))
        os.makedirs(out, exist_ok=True)
        shutil.copy(patch, os.path.join(out, 'patch.diff'))
        demo = os.path.join(src, n + '_demo.py')
        if os.path.exists(demo):
            shutil.copy(demo, os.path.join(out, 'demo.py'))
        meta = {}
        mp = os.path.join(src, n + '_meta.json')
        if os.path.exists(mp):
            try:
                meta = json.load(open(mp))
            except Exception as err:
                meta = {'meta_unreadable': str(err)}
        p = subprocess.run([sys.executable, os.path.join(VERIF, 'harness', 'seedtest.py'), prop, patch, '--tier', 'quick',
                            '--seeds', '0', '--baseline'], stdout=subprocess.PIPE, stderr=subprocess.STDOUT, universal_newlines=True)
        res = None
        for line in p.stdout.splitlines():
            if line.startswith('{'):
                res = json.loads(line)
        meta['property'] = prop
        meta['ported_to_current_tree'] = ported
        if res is None or 'runs' not in res:
            meta['detected'] = None
            meta['runner_output'] = p.stdout[-600:]
        else:
            r = res['runs'][0]
            meta['baseline_with_patch'] = res.get('baseline')
            meta['detected'] = bool(res.get('detected'))
            meta['check'] = './check %s --tier quick (VERIF_SEED=0)' % prop
            meta['exit'] = r['exit']
            meta['signatures'] = r['signatures'][:8]
        key = '%s-%s%s' % (prop, tag, n.replace('bonus_', ''))
        if key in notes:
            meta['history'] = notes[key]
        with open(os.path.join(out, 'meta.json'), 'w') as f:
            json.dump(meta, f, indent=1)
        print(key, meta.get('detected'), meta.get('signatures', [])[:3])


if __name__ == '__main__':
    main()
