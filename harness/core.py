''' Shared check skeleton (DESIGN.md §6): facts → lake build → axiom audit → correspondence /
monitors → known-findings → evidence → exit code.
'''
import fcntl
import hashlib
import json
import os
import random
import re
import subprocess
import sys
import time

HERE = os.path.dirname(os.path.abspath(__file__))
VERIF = os.path.dirname(HERE)
LEAN = os.environ.get('VERIF_LEAN_DIR') or os.path.join(VERIF, 'lean')
REPO = os.environ.get('VERIF_REPO', '/repo')
# evidence/ and replays/ go under OUT (redirected only by the seeded-change runner, so that a run
# against a deliberately broken copy never overwrites the evidence of the real tree)
OUT = os.environ.get('VERIF_OUT_DIR') or VERIF
ALLOWED_AXIOMS = {'propext', 'Classical.choice', 'Quot.sound'}
FORBIDDEN_RE = re.compile(r'\b(sorry|admit|native_decide|bv_decide|implemented_by|unsafe)\b|^\s*axiom\s|maxHeartbeats\s+0\b')

TRUSTED_BASE = [
    'Lean 4.33.0 kernel (lake build; leanchecker in thorough tier)',
    'axioms allowed: propext, Classical.choice, Quot.sound (audited with #print axioms every run)',
    'hand-written Lean models tied to /repo by (a) Generated/Facts.lean regenerated from the source by harness/facts.py and (b) the differential correspondence run of this check',
    'harness stubs for dbus, GLib, crcmod, portion, certvalidator (libraries absent from the sandbox)',
]


class Timeout(Exception):
    pass


def sh(cmd, cwd=None, timeout=None, env=None):
    p = subprocess.run(cmd, cwd=cwd, stdout=subprocess.PIPE, stderr=subprocess.STDOUT,
                       timeout=timeout, env=env, text=True)
    return p.returncode, p.stdout


class LeanSide(object):
    ''' lake build + audit + driver. All lake invocations are serialised by a file lock. '''

    def __init__(self):
        self.lockpath = os.path.join(LEAN, '.lake.verif.lock')
        self.build_log = ''

    def _locked(self, fn):
        os.makedirs(LEAN, exist_ok=True)
        with open(self.lockpath, 'w') as lk:
            fcntl.flock(lk, fcntl.LOCK_EX)
            try:
                return fn()
            finally:
                fcntl.flock(lk, fcntl.LOCK_UN)

    def build(self, targets, timeout=3000):
        def run():
            rc, out = sh(['lake', 'build'] + list(targets), cwd=LEAN, timeout=timeout)
            return rc, out
        rc, out = self._locked(run)
        self.build_log = out
        return rc == 0, out

    def failing_modules(self, log=None):
        log = self.build_log if log is None else log
        mods = re.findall(r'^- (\S+)', log, re.M)
        errs = re.findall(r'^error: (\S+?\.lean):(\d+):(\d+): (.*)', log, re.M)
        return mods, errs

    def grep_forbidden(self, relpaths):
        ''' Look for sorry/admit/axiom/native_decide … outside comments. '''
        hits = []
        for rel in relpaths:
            path = os.path.join(LEAN, rel)
            if not os.path.exists(path):
                continue
            text = open(path).read()
            text = re.sub(r'/-.*?-/', lambda m: '\n' * m.group(0).count('\n'), text, flags=re.S)
            for ln, line in enumerate(text.split('\n'), 1):
                code = line.split('--', 1)[0]
                if FORBIDDEN_RE.search(code):
                    hits.append('%s:%d: %s' % (rel, ln, line.strip()))
        return hits

    def theorems_in(self, relpath):
        path = os.path.join(LEAN, relpath)
        text = open(path).read()
        text = re.sub(r'/-.*?-/', '', text, flags=re.S)
        ns = []
        names = []
        for line in text.split('\n'):
            m = re.match(r'\s*namespace\s+(\S+)', line)
            if m:
                ns.append(m.group(1))
                continue
            m = re.match(r'\s*end\s+(\S+)', line)
            if m and ns and ns[-1] == m.group(1):
                ns.pop()
                continue
            m = re.match(r'\s*(?:@\[[^\]]*\]\s*)?(?:private\s+|protected\s+)?theorem\s+([^\s:({\[]+)', line)
            if m and not line.strip().startswith('private'):
                names.append('.'.join(ns + [m.group(1)]))
        return names

    def audit(self, module, relpath):
        ''' #print axioms for every public theorem of a Props module.
        Returns dict name -> sorted axiom list (None when the theorem could not be printed). '''
        names = self.theorems_in(relpath)
        os.makedirs(os.path.join(LEAN, '.audit'), exist_ok=True)
        fn = os.path.join(LEAN, '.audit', module.replace('.', '_') + '_%d.lean' % os.getpid())
        with open(fn, 'w') as f:
            f.write('import %s\n' % module)
            for n in names:
                f.write('#print axioms %s\n' % n)

        def run():
            return sh(['lake', 'env', 'lean', fn], cwd=LEAN, timeout=1200)
        rc, out = self._locked(run)
        try:
            os.unlink(fn)
        except OSError:
            pass
        res = {n: None for n in names}
        # outputs: "'name' depends on axioms: [a, b]" or "'name' does not depend on any axioms"
        for m in re.finditer(r"'([^']+)' depends on axioms: \[([^\]]*)\]", out, re.S):
            res[m.group(1)] = sorted(a.strip() for a in m.group(2).replace('\n', ' ').split(',') if a.strip())
        for m in re.finditer(r"'([^']+)' does not depend on any axioms", out):
            res[m.group(1)] = []
        return res, out

    def driver(self, lines, timeout=1800):
        ''' Feed JSON lines to the model driver, return the list of decoded output lines. '''
        exe = os.path.join(LEAN, '.lake', 'build', 'bin', 'driver')
        data = '\n'.join(json.dumps(l, separators=(',', ':')) for l in lines) + '\n'
        p = subprocess.run([exe], input=data, stdout=subprocess.PIPE, stderr=subprocess.PIPE,
                           text=True, timeout=timeout)
        if p.returncode != 0:
            raise RuntimeError('driver failed rc=%s: %s' % (p.returncode, p.stderr[-2000:]))
        outs = [json.loads(l) for l in p.stdout.split('\n') if l.strip()]
        if len(outs) != len(lines):
            raise RuntimeError('driver answered %d lines for %d requests' % (len(outs), len(lines)))
        return outs


def load_known_findings():
    path = os.path.join(VERIF, 'known_findings.jsonl')
    known, fixed = [], []
    if os.path.exists(path):
        for line in open(path):
            line = line.strip()
            if not line or line.startswith('#'):
                continue
            if line.startswith('fixed:'):
                fixed.append(line)
                continue
            known.append(json.loads(line))
    return known, fixed


class Check(object):
    ''' One run of one property check. '''

    def __init__(self, prop, tier, seed):
        self.prop = prop
        self.tier = tier
        self.seed = seed
        self.rng = random.Random((hash(prop) & 0xffff) * 1000003 + seed) if False else random.Random('%s/%d' % (prop, seed))
        self.t0 = time.time()
        self.lean = LeanSide()
        self.violations = []        # dicts: signature, what, replay obj
        self.known_hits = []
        self.cov = {
            'evaluations': 0, 'distinct_nontrivial': 0, 'rule': '', 'samples': [],
            'obligations': 0, 'discharged': 0, 'checker_cmd': '', 'trusted_base': list(TRUSTED_BASE),
            'traces_validated_against_impl': 0, 'distribution': {},
        }
        self.assumptions = []
        self._distinct = set()
        self.proof_broken = []      # names of theorems / modules that no longer check
        self.corr_broken = []       # descriptions of model/impl disagreements
        self.notes = []
        self.deadline = None

    def clean_replays(self):
        ''' remove stale replay files of this property/tier (called before a normal run, not before --replay) '''
        import glob
        for old in glob.glob(os.path.join(OUT, 'replays', '%s_%s_*.json' % (self.prop, self.tier))):
            try:
                os.unlink(old)
            except OSError:
                pass

    # ----- time -----
    def elapsed(self):
        return time.time() - self.t0

    def budget_left(self, total):
        return total - self.elapsed()

    # ----- coverage bookkeeping -----
    def count(self, key, n=1):
        d = self.cov['distribution']
        d[key] = d.get(key, 0) + n

    def case(self, obj, nontrivial=True, sample=False):
        ''' Register one explored case (for evaluations / distinct_nontrivial). '''
        self.cov['evaluations'] += 1
        if nontrivial:
            h = hashlib.sha1(json.dumps(obj, sort_keys=True, default=str).encode()).digest()[:10]
            self._distinct.add(h)
        if sample and len(self.cov['samples']) < 8:
            self.cov['samples'].append(obj)

    # ----- lean side -----
    def prove(self, module, extra_targets=('driver',)):
        ''' Build the property module (+driver) and audit its theorems. Returns True when every
        obligation is discharged with allowed axioms only. '''
        modules = [module] if isinstance(module, str) else list(module)
        rels_m = [m.replace('.', '/') + '.lean' for m in modules]
        ok, log = self.lean.build(modules + list(extra_targets))
        self.cov['checker_cmd'] = 'cd lean && lake build %s && lake env lean <#print axioms of every theorem in %s>' % (' '.join(modules), ' '.join(rels_m))
        names = []
        for rel in rels_m:
            if os.path.exists(os.path.join(LEAN, rel)):
                names += self.lean.theorems_in(rel)
        self.cov['obligations'] = len(names)
        if not ok:
            mods, errs = self.lean.failing_modules(log)
            self.proof_broken.append({'modules': mods, 'errors': ['%s:%s:%s %s' % e for e in errs][:20]})
            self.cov['discharged'] = 0
            self.cov['build_log_tail'] = log[-1500:]
            return False
        # forbidden constructs anywhere in the library
        rels = []
        for root, _d, files in os.walk(os.path.join(LEAN, 'DtnVerif')):
            for fn in files:
                if fn.endswith('.lean'):
                    rels.append(os.path.relpath(os.path.join(root, fn), LEAN))
        hits = self.lean.grep_forbidden(rels)
        if hits:
            self.proof_broken.append({'forbidden': hits[:20]})
        res, out = {}, ''
        for m, rel in zip(modules, rels_m):
            r1, o1 = self.lean.audit(m, rel)
            res.update(r1)
            out += o1
        bad = {}
        good = 0
        allax = set()
        for n, ax in res.items():
            if ax is None or not set(ax) <= ALLOWED_AXIOMS:
                bad[n] = ax
            else:
                good += 1
                allax |= set(ax)
        self.cov['discharged'] = good
        self.cov['theorems'] = sorted(res.keys())
        self.cov['axioms_used'] = sorted(allax)
        if bad:
            self.proof_broken.append({'axioms': bad, 'audit_tail': out[-800:]})
        if self.tier == 'thorough' and not bad:
            # independent re-check of the compiled module (and everything it imports) by leanchecker
            rc, lout = self.lean._locked(lambda: sh(['lake', 'env', 'leanchecker'] + modules, cwd=LEAN, timeout=1800))
            self.cov['leanchecker'] = 'ok' if rc == 0 else 'FAILED'
            if rc != 0:
                self.proof_broken.append({'leanchecker': lout[-800:]})
                return False
        return not bad and not hits

    def driver(self, lines):
        return self.lean.driver(lines)

    # ----- violations -----
    def violation(self, signature, what, replay):
        ''' Record a concrete failing input found on the implementation. '''
        for v in self.violations:
            if v['signature'] == signature:
                v['count'] += 1
                return
        self.violations.append({'signature': signature, 'what': what, 'replay': replay, 'count': 1})

    def corr_break(self, what, replay):
        self.corr_broken.append({'what': what, 'replay': replay})

    # ----- finish -----
    def finish(self, level='proof'):
        known, _fixed = load_known_findings()
        known = [k for k in known if k.get('property') == self.prop]
        os.makedirs(os.path.join(OUT, 'replays'), exist_ok=True)
        os.makedirs(os.path.join(OUT, 'evidence'), exist_ok=True)
        new = []
        for v in self.violations:
            hit = None
            for k in known:
                if re.fullmatch(k['signature'], v['signature']):
                    hit = k
                    break
            if hit is not None:
                self.known_hits.append((hit, v))
            else:
                new.append(v)
        out_lines = []
        for hit, v in self.known_hits:
            out_lines.append('KNOWN-FINDING: property=%s %s [%s]' % (self.prop, hit.get('what', v['what']), v['signature']))
        seen = set()
        out_lines = [l for l in out_lines if not (l in seen or seen.add(l))]
        rc = 0
        if new:
            rc = 1
            for i, v in enumerate(new):
                path = os.path.join(OUT, 'replays', '%s_%s_%d.json' % (self.prop, self.tier, i))
                with open(path, 'w') as f:
                    json.dump({'property': self.prop, 'signature': v['signature'], 'what': v['what'],
                               'replay': v['replay'], 'seed': self.seed,
                               'proof_broken': self.proof_broken, 'correspondence_broken': self.corr_broken[:3]},
                              f, indent=1, default=str)
                out_lines.append('VIOLATION property=%s replay=%s' % (self.prop, os.path.relpath(path, VERIF)))
        elif self.proof_broken or self.corr_broken:
            # property no longer shown to hold and no concrete failing input found
            rc = 1
            path = os.path.join(OUT, 'replays', '%s_%s_unproved.json' % (self.prop, self.tier))
            with open(path, 'w') as f:
                json.dump({'property': self.prop, 'no_failing_input_found': True,
                           'proof_broken': self.proof_broken,
                           'correspondence_broken': self.corr_broken[:10], 'seed': self.seed},
                          f, indent=1, default=str)
            out_lines.append('VIOLATION property=%s replay=%s no-failing-input-found' % (self.prop, os.path.relpath(path, VERIF)))
        self.cov['distinct_nontrivial'] = len(self._distinct)
        self.cov['known_findings_hit'] = sorted(set(h[1]['signature'] for h in self.known_hits))
        self.cov['proof_broken'] = self.proof_broken
        self.cov['correspondence_broken'] = len(self.corr_broken)
        if self.notes:
            self.cov['notes'] = self.notes
        if not self.cov['samples']:
            self.cov['samples'] = ['(no samples recorded)']
        ev = {
            'property_id': self.prop, 'tier': self.tier, 'seed': self.seed, 'level': level,
            'coverage': self.cov, 'assumptions': self.assumptions,
            'wall_s': round(self.elapsed(), 2), 'violations': len(new) + (1 if (rc and not new) else 0),
        }
        with open(os.path.join(OUT, 'evidence', '%s.json' % self.prop), 'w') as f:
            json.dump(ev, f, indent=1, default=str)
        for l in out_lines:
            print(l)
        print('%s %s tier=%s seed=%d obligations=%d/%d evaluations=%d distinct=%d wall=%.1fs' % (
            self.prop, 'FAIL' if rc else 'ok', self.tier, self.seed, self.cov['discharged'], self.cov['obligations'],
            self.cov['evaluations'], self.cov['distinct_nontrivial'], self.elapsed()))
        sys.stdout.flush()
        return rc
