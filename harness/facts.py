''' Translator: regenerate lean/DtnVerif/Generated/Facts.lean from /repo's current source (ast only,
nothing is imported or executed). Unknown syntactic forms raise ExtractError (reported as a
broken tie by the check).
'''
import ast
import os
import json
import re
import sys

HERE = os.path.dirname(os.path.abspath(__file__))
VERIF = os.path.dirname(HERE)
REPO = os.environ.get('VERIF_REPO', '/repo')
OUT = os.path.join(os.environ.get('VERIF_LEAN_DIR') or os.path.join(VERIF, 'lean'), 'DtnVerif', 'Generated', 'Facts.lean')


class ExtractError(Exception):
    pass


_MOD_ENV = {}      # module base name -> {NAME: value} of its module-level constant assignments
_TREE_MOD = {}     # id(tree) -> module base name
_CUR = [None]      # module whose names an unqualified Name refers to


def _parse(rel):
    path = os.path.join(REPO, 'src', rel)
    try:
        tree = ast.parse(open(path).read(), filename=path)
    except (OSError, SyntaxError) as err:
        raise ExtractError('%s: %s' % (rel, err))
    mod = os.path.splitext(os.path.basename(rel))[0]
    key = rel
    _TREE_MOD[id(tree)] = key
    env = {}
    _MOD_ENV[key] = env
    _MOD_ENV.setdefault(mod, env)
    # module-level named constants (NAME = <constant expression>), in order, best effort
    prev = _CUR[0]
    _CUR[0] = key
    try:
        for st in tree.body:
            if isinstance(st, ast.Assign) and len(st.targets) == 1 and isinstance(st.targets[0], ast.Name):
                try:
                    env[st.targets[0].id] = _const(st.value)
                except ExtractError:
                    pass
    finally:
        _CUR[0] = prev
    return tree


def _use(tree):
    ''' unqualified names in the expressions evaluated next belong to this module '''
    _CUR[0] = _TREE_MOD.get(id(tree))


def _const(node, env=None):
    ''' Evaluate a constant integer/str expression (literals, + - * ** | << , int(...), names in env,
    module-level named constants of the module being read, `module.NAME` of another parsed module). '''
    env = env or {}
    if isinstance(node, ast.Constant):
        return node.value
    if isinstance(node, ast.Name) and node.id in env:
        return env[node.id]
    if isinstance(node, ast.Name) and node.id in _MOD_ENV.get(_CUR[0], {}):
        return _MOD_ENV[_CUR[0]][node.id]
    if isinstance(node, ast.Attribute) and isinstance(node.value, ast.Name) \
            and node.attr in _MOD_ENV.get(node.value.id, {}):
        return _MOD_ENV[node.value.id][node.attr]
    if isinstance(node, ast.UnaryOp) and isinstance(node.op, ast.USub):
        return -_const(node.operand, env)
    if isinstance(node, ast.BinOp):
        a = _const(node.left, env)
        b = _const(node.right, env)
        ops = {ast.Add: lambda: a + b, ast.Sub: lambda: a - b, ast.Mult: lambda: a * b,
               ast.Pow: lambda: a ** b, ast.BitOr: lambda: a | b, ast.LShift: lambda: a << b,
               ast.FloorDiv: lambda: a // b}
        for k, f in ops.items():
            if isinstance(node.op, k):
                return f()
    if isinstance(node, ast.Call) and isinstance(node.func, ast.Name) and node.func.id == 'int' and len(node.args) == 1:
        return int(_const(node.args[0], env))
    if isinstance(node, ast.Call) and isinstance(node.func, ast.Name) and node.func.id == 'len' and len(node.args) == 1 \
            and not node.keywords:
        return len(_const(node.args[0], env))
    if isinstance(node, ast.BinOp) and isinstance(node.op, (ast.BitAnd, ast.RShift, ast.Mod)):
        a = _const(node.left, env)
        b = _const(node.right, env)
        return a & b if isinstance(node.op, ast.BitAnd) else (a >> b if isinstance(node.op, ast.RShift) else a % b)
    raise ExtractError('unsupported constant expression: %s' % ast.dump(node)[:200])


def _name(node):
    if isinstance(node, ast.Name):
        return node.id
    if isinstance(node, ast.Attribute):
        return _name(node.value) + '.' + node.attr
    if isinstance(node, ast.Call):
        return _name(node.func)
    return '?'


def enums(tree):
    ''' {QualifiedClass: {member: int}} for every enum class (nested ones qualified by outer class). '''
    _use(tree)
    out = {}

    def visit(body, prefix):
        for node in body:
            if isinstance(node, ast.ClassDef):
                q = prefix + node.name
                bases = [_name(b) for b in node.bases]
                if any(b.startswith('enum.') for b in bases):
                    members = {}
                    for st in node.body:
                        if isinstance(st, ast.Assign) and len(st.targets) == 1 and isinstance(st.targets[0], ast.Name):
                            try:
                                members[st.targets[0].id] = _const(st.value)
                            except ExtractError:
                                raise ExtractError('enum %s.%s: non-constant value' % (q, st.targets[0].id))
                    out[q] = members
                visit(node.body, q + '.')
    visit(tree.body, '')
    return out


def bind_layers(tree):
    ''' [(lower, upper, {field: value})] for packet.bind_layers(...) calls and bind_type/bind_extension decorators '''
    _use(tree)
    out = []
    for node in ast.walk(tree):
        if isinstance(node, ast.Call) and _name(node.func).endswith('bind_layers') and len(node.args) >= 2:
            if any(isinstance(k.value, ast.Name) and k.value.id not in _MOD_ENV.get(_CUR[0], {}) for k in node.keywords):
                continue  # generic helper (bind_type/bind_extension body); decorators are read below
            kw = {k.arg: _const(k.value) for k in node.keywords}
            out.append((_name(node.args[0]), _name(node.args[1]), kw))
        if isinstance(node, ast.ClassDef):
            for dec in node.decorator_list:
                if isinstance(dec, ast.Call) and isinstance(dec.func, ast.Attribute) and dec.func.attr in ('bind_type', 'bind_extension'):
                    out.append((_name(dec.func.value), node.name, {dec.func.attr: _const(dec.args[0])}))
    return out


_DYN_CODE = r'''
import importlib, json, sys
out = []
for modname in sys.argv[1:]:
    try:
        mod = importlib.import_module(modname)
    except Exception as err:
        continue
    for name in dir(mod):
        cls = getattr(mod, name)
        guess = getattr(cls, 'payload_guess', None)
        if not isinstance(cls, type) or not isinstance(guess, list) or getattr(cls, '__module__', None) != modname:
            continue
        for (fval, upper) in guess:
            if all(isinstance(v, int) and not isinstance(v, bool) for v in fval.values()):
                out.append([cls.__name__, upper.__name__, {k: int(v) for k, v in fval.items()}])
print(json.dumps(out))
'''


def dynamic_binds(modnames):
    ''' scapy layer bindings of the imported modules: [(lower, upper, {field: value})]; [] when a module cannot be imported '''
    import subprocess
    env = dict(os.environ, PYTHONPATH=os.pathsep.join([os.path.join(REPO, 'src'), os.path.join(HERE, 'stubs')]))
    try:
        py = '/venv/bin/python' if os.path.exists('/venv/bin/python') else sys.executable
        p = subprocess.run([py, '-c', _DYN_CODE] + list(modnames), env=env, stdout=subprocess.PIPE,
                           stderr=subprocess.DEVNULL, universal_newlines=True, timeout=120)
        return [(lo, up, kw) for (lo, up, kw) in json.loads(p.stdout.strip().split('\n')[-1])]
    except Exception:
        return []


def dbus_sigs(tree):
    ''' {Class.func: (kind, in_sig, out_sig|signature)} '''
    _use(tree)
    out = {}
    for cls in [n for n in ast.walk(tree) if isinstance(n, ast.ClassDef)]:
        for fn in cls.body:
            if not isinstance(fn, ast.FunctionDef):
                continue
            for dec in fn.decorator_list:
                if isinstance(dec, ast.Call) and _name(dec.func) in ('dbus.service.signal', 'dbus.service.method'):
                    kw = {}
                    for k in dec.keywords:
                        try:
                            kw[k.arg] = _const(k.value)
                        except ExtractError:
                            raise ExtractError('dbus decorator on %s.%s: non-constant signature' % (cls.name, fn.name))
                    kind = _name(dec.func).split('.')[-1]
                    if kind == 'signal':
                        out['%s.%s' % (cls.name, fn.name)] = ('signal', kw.get('signature', ''), '')
                    else:
                        out['%s.%s' % (cls.name, fn.name)] = ('method', kw.get('in_signature', ''), kw.get('out_signature', ''))
    return out


def chain_steps(tree):
    ''' [(chain, order, name, action)] from rx_chain.append(ChainStep(order=, name=, action=self._x)) '''
    _use(tree)
    out = []
    for node in ast.walk(tree):
        if (isinstance(node, ast.Call) and isinstance(node.func, ast.Attribute) and node.func.attr == 'append'
                and node.args and isinstance(node.args[0], ast.Call) and _name(node.args[0].func).endswith('ChainStep')):
            chain = _name(node.func.value).split('.')[-1].lstrip('_')
            kw = {k.arg: k.value for k in node.args[0].keywords}
            order = _const(kw['order'])
            if not isinstance(order, int):
                raise ExtractError('ChainStep order is not an integer literal: %r' % (order,))
            out.append((chain, order, _const(kw['name']), _name(kw['action']).split('.')[-1]))
    return out


def fields_desc(tree):
    ''' {Class: [(FieldClass, name, detail)]} — the fields_desc list/tuple of every class. '''
    _use(tree)
    out = {}
    for cls in [n for n in ast.walk(tree) if isinstance(n, ast.ClassDef)]:
        for st in cls.body:
            if isinstance(st, ast.Assign) and len(st.targets) == 1 and _name(st.targets[0]) == 'fields_desc':
                if not isinstance(st.value, (ast.List, ast.Tuple)):
                    raise ExtractError('%s.fields_desc is not a literal list' % cls.name)
                out[cls.name] = [_field(e) for e in st.value.elts]
    return out


def _field(node):
    if not isinstance(node, ast.Call):
        raise ExtractError('fields_desc entry is not a call: %s' % ast.dump(node)[:100])
    fcls = _name(node.func).split('.')[-1]
    kws = {k.arg: k.value for k in node.keywords}
    if fcls == 'ConditionalField':
        inner = kws.get('fld') or node.args[0]
        cond = kws.get('cond') or node.args[1]
        (icls, name, det) = _field(inner)
        return (icls, name, 'if(%s) %s' % (_cond(cond), det))
    if fcls in ('OptionalField', 'ArrayWrapField'):
        (icls, name, det) = _field(node.args[0])
        return (icls, name, '%s %s' % (fcls, det))
    name = None
    if node.args and isinstance(node.args[0], ast.Constant):
        name = node.args[0].value
    elif 'name' in kws:
        name = _const(kws['name'])
    det = []
    for key in ('length', 'size', 'fmt', 'length_of'):
        if key in kws:
            det.append('%s=%s' % (key, _const(kws[key])))
    for key in ('cls', 'pkt_cls'):
        if key in kws:
            det.append('%s=%s' % (key, _name(kws[key])))
    if fcls == 'FieldListField' and 'fld' in kws:
        det.append('fld=%s' % _name(kws['fld']))
    return (fcls, name, ' '.join(det))


def _cond(node):
    ''' Canonical text of the small family of ConditionalField lambdas used by the repo. '''
    if isinstance(node, ast.Lambda) and len(node.args.args) == 1 and not node.args.kwonlyargs and not node.args.defaults:
        # the name of the parameter is immaterial: it is written `p`
        old = node.args.args[0].arg

        class Ren(ast.NodeTransformer):
            def visit_Name(self, n):
                return ast.copy_location(ast.Name(id='p', ctx=n.ctx), n) if n.id == old else n

            def visit_arg(self, a):
                return ast.copy_location(ast.arg(arg='p', annotation=None), a) if a.arg == old else a
        import copy
        node = Ren().visit(copy.deepcopy(node))
    src = ast.unparse(node)
    src = re.sub(r'\s+', ' ', src)
    return src


def assigns(tree, wanted):
    ''' Pick `name = const` assignments anywhere (first match wins): {name: value} '''
    _use(tree)
    out = {}
    for node in ast.walk(tree):
        if isinstance(node, ast.Assign) and len(node.targets) == 1:
            nm = _name(node.targets[0])
            if nm in wanted and nm not in out:
                out[nm] = _const(node.value)
        if isinstance(node, ast.AnnAssign) and node.value is not None:
            nm = _name(node.target)
            if nm in wanted and nm not in out:
                out[nm] = _const(node.value)
    missing = set(wanted) - set(out)
    if missing:
        raise ExtractError('constants not found: %s' % sorted(missing))
    return out


def _dict_items(node):
    ''' (key, value) pairs of a dict written as a literal `{k: v}` or as a call `dict(k=v)` / `dict({k: v})` '''
    if isinstance(node, ast.Dict):
        return list(zip(node.keys, node.values))
    if isinstance(node, ast.Call) and _name(node.func) == 'dict':
        items = []
        for a in node.args:
            items += _dict_items(a)
        items += [(kw.arg, kw.value) for kw in node.keywords if kw.arg is not None]
        return items
    raise ExtractError('not a dict literal or dict(...) call: %s' % ast.dump(node)[:80])


def crc_defs(tree):
    ''' CRC_DEFN: {CrcType member: (crcmod name, struct format)} '''
    _use(tree)
    out = {}
    for node in ast.walk(tree):
        if isinstance(node, ast.Assign) and _name(node.targets[0]) == 'CRC_DEFN':
            for k, v in _dict_items(node.value):
                key = _name(k).split('.')[-1]
                ent = {}
                for kk, vv in _dict_items(v):
                    kname = kk if isinstance(kk, str) else kk.value
                    if kname == 'func':
                        ent['func'] = _const(vv.args[0])
                    elif kname == 'encode':
                        ent['fmt'] = _const(vv.body.args[0])
                out[key] = (ent['func'], ent['fmt'])
    if not out:
        raise ExtractError('CRC_DEFN not found')
    return out


def lean_str(s):
    return '"' + str(s).replace('\\', '\\\\').replace('"', '\\"') + '"'


def lean_ident(s):
    return re.sub(r'[^A-Za-z0-9_]', '_', s)


def collect():
    f = {}
    msgs = _parse('tcpcl/messages.py')
    cont = _parse('tcpcl/contact.py')
    ext = _parse('tcpcl/extend.py')
    sess = _parse('tcpcl/session.py')
    tag = _parse('tcpcl/agent.py')
    tcfg = _parse('tcpcl/config.py')
    blocks = _parse('bp/encoding/blocks.py')
    bundle = _parse('bp/encoding/bundle.py')
    admin = _parse('bp/encoding/admin.py')
    bpsecenc = _parse('bp/encoding/bpsec.py')
    efields = _parse('bp/encoding/fields.py')
    bpagent = _parse('bp/agent.py')
    frag = _parse('bp/app/fragment.py')
    bpsec = _parse('bp/app/bpsec.py')
    adminapp = _parse('bp/app/admin.py')
    udp = _parse('udpcl/agent.py')
    btm = _parse('btpu/messages.py')
    bta = _parse('btpu/agent.py')

    f['enums'] = {}
    for name, tree in (('tcpcl', msgs), ('contact', cont), ('blocks', blocks), ('admin', admin),
                       ('bpsecenc', bpsecenc), ('efields', efields), ('bpsec', bpsec), ('udpcl', udp)):
        for cls, members in enums(tree).items():
            f['enums']['%s.%s' % (name, cls)] = members
    f['binds'] = []
    for tree in (msgs, cont, ext, blocks, admin, bpsecenc, btm):
        f['binds'] += bind_layers(tree)
    # bindings made in a way the syntactic reader does not see (a loop over a table, a helper …) are read
    # from the imported classes; a (lower, upper) pair already found in the source is left as it was read
    have = set((lo.split('.')[-1], up.split('.')[-1]) for (lo, up, _kw) in f['binds'])
    for (lo, up, kw) in dynamic_binds(['tcpcl.messages', 'tcpcl.contact', 'tcpcl.extend', 'btpu.messages']):
        if (lo, up) not in have:
            f['binds'].append((lo, up, kw))
            have.add((lo, up))
    f['dbus'] = {}
    for name, tree in (('tcpcl', sess), ('tcpclagent', tag), ('udpcl', udp), ('btpu', bta), ('bp', bpagent), ('admin', adminapp)):
        for k, v in dbus_sigs(tree).items():
            f['dbus']['%s.%s' % (name, k)] = v
    f['chain'] = []
    for tree in (bpagent, frag, bpsec, adminapp):
        f['chain'] += chain_steps(tree)
    f['fields'] = {}
    for name, tree in (('tcpcl', msgs), ('contact', cont), ('extend', ext), ('blocks', blocks), ('bundle', bundle),
                       ('admin', admin), ('bpsecenc', bpsecenc), ('btpu', btm)):
        for cls, lst in fields_desc(tree).items():
            f['fields']['%s.%s' % (name, cls)] = lst
    f['consts'] = {}
    f['consts'].update({'tcpcl.' + k: v for k, v in assigns(sess, ['CHUNK_SIZE', 'self._send_segment_size_min']).items()})
    f['consts'].update({'contact.' + k: v for k, v in assigns(cont, ['MAGIC_HEAD']).items()})
    f['consts'].update({'tcpcfg.' + k: v for k, v in assigns(tcfg, ['keepalive_time', 'idle_time', 'segment_size_mru', 'segment_size_tx_initial']).items()})
    f['consts'].update({'btpu.' + k: v for k, v in assigns(bta, ['RX_XFER_TIMEOUT_MS']).items()})
    f['consts'].update({'bundle.' + k: v for k, v in assigns(bundle, ['BLOCK_TYPE_PAYLOAD', 'BLOCK_NUM_PAYLOAD']).items()})
    f['consts'].update({'bpsec.' + k: v for k, v in assigns(bpsec, ['BPSEC_COSE_CONTEXT_ID']).items()})
    f['crc'] = crc_defs(blocks)
    return f


def render(f):
    L = []
    L.append('/- GENERATED by harness/facts.py from /repo/src on every check run. Do not edit. -/')
    L.append('namespace DtnVerif')
    L.append('namespace Facts')
    L.append('')
    for q in sorted(f['enums']):
        for m, v in sorted(f['enums'][q].items(), key=lambda kv: (kv[1], kv[0])):
            if isinstance(v, int):
                L.append('def %s : Int := %d' % (lean_ident('enum_%s_%s' % (q, m)), v))
    L.append('')
    L.append('/-- (lower layer, upper layer, key, value) of every bind_layers / bind_type / bind_extension -/')
    L.append('def binds : List (String × String × String × Int) := [')
    rows = []
    for (lo, up, kw) in f['binds']:
        for k, v in sorted(kw.items()):
            rows.append((lo.split('.')[-1], k, v, up.split('.')[-1]))
    # canonical order (lower layer, key, value, upper layer): independent of the order of the statements
    rows = ['  (%s, %s, %s, %d)' % (lean_str(lo), lean_str(up), lean_str(k), v) for (lo, k, v, up) in sorted(set(rows))]
    L.append(',\n'.join(rows))
    L.append(']')
    L.append('')
    L.append('/-- (qualified function, kind, in/signal signature, out signature) -/')
    L.append('def dbusSigs : List (String × String × String × String) := [')
    L.append(',\n'.join('  (%s, %s, %s, %s)' % (lean_str(k), lean_str(v[0]), lean_str(v[1]), lean_str(v[2]))
                        for k, v in sorted(f['dbus'].items())))
    L.append(']')
    L.append('')
    L.append('/-- (chain, order, step name, action method), sorted by chain and order -/')
    L.append('def chainSteps : List (String × Int × String × String) := [')
    # canonical order (chain, order, name): the order in which the chains are run, not that of the statements
    L.append(',\n'.join('  (%s, %d, %s, %s)' % (lean_str(c), o, lean_str(n), lean_str(a)) for (c, o, n, a) in sorted(set(f['chain']))))
    L.append(']')
    L.append('')
    L.append('/-- fields_desc of every packet class: (class, [(field class, field name, detail)]) -/')
    L.append('def layouts : List (String × List (String × String × String)) := [')
    rows = []
    for cls in sorted(f['fields']):
        ents = ', '.join('(%s, %s, %s)' % (lean_str(a), lean_str(b), lean_str(c)) for (a, b, c) in f['fields'][cls])
        rows.append('  (%s, [%s])' % (lean_str(cls), ents))
    L.append(',\n'.join(rows))
    L.append(']')
    L.append('')
    for k, v in sorted(f['consts'].items()):
        if isinstance(v, bytes):
            L.append('def %s : List UInt8 := [%s]' % (lean_ident('const_' + k), ', '.join(str(b) for b in v)))
        elif isinstance(v, int):
            L.append('def %s : Int := %d' % (lean_ident('const_' + k), v))
        else:
            L.append('def %s : String := %s' % (lean_ident('const_' + k), lean_str(v)))
    L.append('')
    L.append('def crcDefs : List (String × String × String) := [')
    L.append(',\n'.join('  (%s, %s, %s)' % (lean_str(k), lean_str(v[0]), lean_str(v[1])) for k, v in sorted(f['crc'].items())))
    L.append(']')
    L.append('')
    L.append('end Facts')
    L.append('end DtnVerif')
    return '\n'.join(L) + '\n'


def write_facts():
    text = render(collect())
    os.makedirs(os.path.dirname(OUT), exist_ok=True)
    old = open(OUT).read() if os.path.exists(OUT) else None
    if old != text:
        tmp = OUT + '.tmp%d' % os.getpid()
        with open(tmp, 'w') as fh:
            fh.write(text)
        os.replace(tmp, OUT)
    return text


if __name__ == '__main__':
    print(write_facts())
