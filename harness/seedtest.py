#!/usr/bin/env python3
''' Run the registered checks of one property against a seeded change, without touching /repo or the
evidence of the real tree.

  harness/seedtest.py Cxx path/to/patch.diff [--tier quick|thorough|both] [--seeds 0,1] [--baseline]

A private worktree of /repo (at HEAD, plus the working-tree state) gets the patch applied; a private
copy of the Lean project is used for the build (facts may change); evidence and replays go to a scratch
directory. Prints one JSON line with the verdict per (tier, seed) and removes everything afterwards.
'''
import argparse
import json
import os
import shutil
import subprocess
import sys
import tempfile

VERIF = os.path.dirname(os.path.dirname(os.path.abspath(__file__)))
BASE_CMD = ('/venv/bin/python -m pytest -ra -q -p no:cacheprovider --timeout=900 '
            '--continue-on-collection-errors')


def sh(cmd, cwd=None, env=None, timeout=None):
    p = subprocess.run(cmd, shell=True, cwd=cwd, env=env, stdout=subprocess.PIPE, stderr=subprocess.STDOUT,
                       universal_newlines=True, timeout=timeout)
    return p.returncode, p.stdout


def main():
    ap = argparse.ArgumentParser()
    ap.add_argument('prop')
    ap.add_argument('patch')
    ap.add_argument('--tier', default='quick')
    ap.add_argument('--seeds', default='0')
    ap.add_argument('--baseline', action='store_true', help='also run the repository test suite on the patched copy')
    ap.add_argument('--keep', action='store_true')
    args = ap.parse_args()
    patch = os.path.abspath(args.patch)
    work = tempfile.mkdtemp(prefix='mut_%s_' % args.prop, dir='/tmp')
    repo = os.path.join(work, 'repo')
    res = {'property': args.prop, 'patch': patch, 'runs': []}
    try:
        rc, out = sh('git -C /repo worktree add -q --detach %s HEAD' % repo)
        if rc != 0:
            raise RuntimeError('worktree: ' + out)
        # carry over uncommitted changes of /repo's working tree (checks run against the working tree)
        rc, diff = sh('git -C /repo diff HEAD')
        if diff.strip():
            with open(os.path.join(work, 'wt.diff'), 'w') as f:
                f.write(diff)
            sh('git -C %s apply %s' % (repo, os.path.join(work, 'wt.diff')))
        rc, out = sh('git -C %s apply %s' % (repo, patch))
        if rc != 0:
            res['error'] = 'patch does not apply: ' + out[-400:]
            print(json.dumps(res))
            return 2
        if args.baseline:
            rc, out = sh('cd %s && %s' % (repo, BASE_CMD), timeout=1800)
            tail = [l for l in out.splitlines() if l.strip()][-1] if out.strip() else ''
            res['baseline'] = tail
        lean = os.path.join(work, 'lean')
        for attempt in range(6):
            try:
                shutil.copytree(os.path.join(VERIF, 'lean'), lean, symlinks=True)
                break
            except shutil.Error:
                # a concurrent `lake build` replaced files under our feet: start the copy again
                shutil.rmtree(lean, ignore_errors=True)
                import time
                time.sleep(3)
        outdir = os.path.join(work, 'out')
        os.makedirs(outdir)
        env = dict(os.environ, VERIF_REPO=repo, VERIF_LEAN_DIR=lean, VERIF_OUT_DIR=outdir)
        tiers = ['quick', 'thorough'] if args.tier == 'both' else [args.tier]
        for tier in tiers:
            for seed in args.seeds.split(','):
                env['VERIF_SEED'] = seed
                rc, out = sh('./check %s --tier %s' % (args.prop, tier), cwd=VERIF, env=env, timeout=8000)
                lines = [l for l in out.splitlines() if l.startswith('VIOLATION') or l.startswith('KNOWN-FINDING')
                         or l.startswith(args.prop + ' ')]
                run = {'tier': tier, 'seed': seed, 'exit': rc, 'lines': [l[:300] for l in lines]}
                # summarise what was found
                sigs = []
                rdir = os.path.join(outdir, 'replays')
                if os.path.isdir(rdir):
                    for fn in sorted(os.listdir(rdir)):
                        try:
                            d = json.load(open(os.path.join(rdir, fn)))
                        except Exception:
                            continue
                        if 'signature' in d:
                            sigs.append(d['signature'])
                        elif d.get('no_failing_input_found'):
                            sigs.append('unproved:' + ';'.join(
                                [str(x.get('what', x))[:120] for x in d.get('correspondence_broken', [])[:2]]
                                + [str(x)[:160] for x in d.get('proof_broken', [])[:2]]))
                    shutil.rmtree(rdir)
                run['signatures'] = sigs
                res['runs'].append(run)
        res['detected'] = any(r['exit'] == 1 for r in res['runs'])
        print(json.dumps(res))
        return 0
    finally:
        if not args.keep:
            sh('git -C /repo worktree remove --force %s' % repo)
            shutil.rmtree(work, ignore_errors=True)
            sh('git -C /repo worktree prune')


if __name__ == '__main__':
    sys.exit(main())
