''' Scenario generation and the shared run/compare skeleton for the TCPCL session properties
(C01, C04, C09, C14, C17, C18). '''
import json

import tcpcl_sim as ts
import tcpcl_monitors as tm

SEG_CHOICES = [1, 2, 3, 7, 10, 100, 1000, 10240, 104857]
MRU_CHOICES = [1, 2, 3, 7, 50, 10240, 10485760, 2 ** 64 - 1]


def gen_cfg(rng, timers=False):
    cfg = {'seg_init': rng.choice(SEG_CHOICES), 'seg_mru': rng.choice(MRU_CHOICES)}
    if rng.random() < 0.08:
        # extreme configuration: segment sizes at and beyond 2^63 (file.read() takes a signed size)
        cfg['seg_init'] = rng.choice([2 ** 63 - 1, 2 ** 63, 2 ** 64 - 1])
        cfg['seg_mru'] = rng.choice([2 ** 63, 2 ** 64 - 1])
    # adaptive segment size (PID controller on ACK round-trip time) in a third of the runs
    if rng.random() < 0.33:
        cfg['modulate'] = rng.choice([0.001, 0.05, 1.0])
    if timers:
        cfg['keepalive'] = rng.choice([0, 1, 2, 5, 30])
        cfg['idle'] = rng.choice([0, 0, 3, 10, 60])
    return cfg


def eff_seg(cfg_self, cfg_peer):
    return max(1, min(cfg_self.get('seg_init', 104857), cfg_peer.get('seg_mru', 10485760)))


def gen_bundle(rng, seg, big_ok=True):
    c = rng.random()
    if c < 0.12:
        n = 0
    elif c < 0.22:
        n = 1
    elif c < 0.6:
        n = rng.choice([seg - 1, seg, seg + 1, 2 * seg - 1, 2 * seg, 2 * seg + 1, 3 * seg, 5 * seg + 1])
    elif c < 0.95 or not big_ok:
        n = rng.randrange(0, 300)
    else:
        n = rng.choice([10239, 10240, 10241, 30000])
    n = max(0, min(n, 40000))
    if seg <= 3:
        n = min(n, 40)       # keep event counts bounded for tiny segments
    elif seg <= 10:
        n = min(n, 200)
    return bytes(rng.getrandbits(8) for _ in range(n))


def run_scenario(rng, flavour, tier, cfg_a=None, cfg_b=None, timers=False, nqueries=None, npops=None):
    ''' flavour: 'transfer' | 'terminate' | 'abort'. Returns (sim, sent, meta). '''
    cfg_a = cfg_a or gen_cfg(rng, timers)
    cfg_b = cfg_b or gen_cfg(rng, timers)
    sim = ts.Sim(cfg_a, cfg_b)
    for ep in sim.eps():
        ep.popped = {}
    sent = {'a': [], 'b': []}
    meta = {'cfg_a': cfg_a, 'cfg_b': cfg_b, 'flavour': flavour, 'term': [], 'hard': False, 'quiescent': False}
    actions = []
    nb = rng.choice([0, 1, 1, 2, 3, 5]) if tier == 'quick' else rng.choice([0, 1, 2, 3, 5, 8, 12])
    for _ in range(nb):
        who = rng.choice(['a', 'b'])
        seg = eff_seg(cfg_a, cfg_b) if who == 'a' else eff_seg(cfg_b, cfg_a)
        actions.append(('send', who, gen_bundle(rng, seg)))
    for _ in range(rng.choice([0, 1, 2, 4]) if nqueries is None else nqueries):
        actions.append(('query', rng.choice(['a', 'b']), rng.choice(['state', 'idle', 'txq', 'rxq'])))
    for _ in range(rng.choice([0, 1, 2]) if npops is None else npops):
        actions.append(('pop', rng.choice(['a', 'b']), None))
    rng.shuffle(actions)
    if flavour in ('terminate', 'abort'):
        kinds = ['term_a', 'term_b', 'term_both'] if flavour == 'terminate' else ['close_a', 'close_b', 'term_a_close_b']
        k = rng.choice(kinds)
        pos = rng.randrange(0, len(actions) + 1)
        actions.insert(pos, ('end', k, None))
    # starting order and early user actions before establishment are part of the schedule
    sim.start(sim.b)
    sim.start(sim.a)
    budget = 6000 if tier == 'quick' else 30000
    wait_est = rng.random() < 0.8
    steps = 0
    ended = False
    while steps < budget:
        steps += 1
        if actions and (rng.random() < 0.25 or not _any_enabled(sim)):
            act = actions.pop(0)
            if act[0] == 'end' and wait_est and not (sim.a.h._state == 'established' and sim.b.h._state == 'established') \
                    and not sim.a.closed() and not sim.b.closed() and _any_enabled(sim):
                # most termination requests are only meaningful once the session exists: let it establish first
                actions.insert(0, act)
                sim.step_random(rng)
                continue
            ep = sim.a if act[1] == 'a' else sim.b
            if act[0] == 'send':
                if ep.closed():
                    continue
                sim.send(ep, act[2])
                sent[ep.name].append(act[2])
            elif act[0] == 'query':
                sim.query(ep, act[2])
            elif act[0] == 'pop':
                try:
                    q = [int(x) for x in ep.h.recv_bundle_get_queue()]
                except Exception:
                    q = []
                tid = rng.choice(q) if q and rng.random() < 0.85 else rng.choice([0, 1, 99])
                sim.pop(ep, tid)
                last = ep.obs[-1]
                if last.get('ret') and 'b' in last['ret']:
                    ep.popped[tid] = bytes.fromhex(last['ret']['b'])
            elif act[0] == 'end':
                ended = True
                k = act[1]
                if k in ('term_a', 'term_both', 'term_a_close_b'):
                    sim.terminate(sim.a, rng.choice([0, 3, 5]))
                    if sim.a.obs[-1].get('raised') is None:
                        meta['term'].append('a')
                if k in ('term_b', 'term_both'):
                    # let a few internal events happen in between or not
                    for _ in range(rng.choice([0, 0, 1, 3])):
                        sim.step_random(rng)
                    sim.terminate(sim.b, rng.choice([0, 3, 5]))
                    if sim.b.obs[-1].get('raised') is None:
                        meta['term'].append('b')
                if k in ('close_a',):
                    sim.close(sim.a)
                    meta['hard'] = True
                if k in ('close_b', 'term_a_close_b'):
                    for _ in range(rng.choice([0, 1, 3])):
                        sim.step_random(rng)
                    sim.close(sim.b)
                    meta['hard'] = True
            continue
        if not sim.step_random(rng):
            if not actions:
                meta['quiescent'] = True
                break
    meta['steps'] = steps
    meta['ended'] = ended
    # final queries so that the D-Bus views are compared at the end too
    for ep in sim.eps():
        if not ep.closed():
            for q in ('idle', 'txq', 'rxq', 'state'):
                sim.query(ep, q)
    return sim, sent, meta


def coalesced_term_scenario(rng, tier):
    ''' Termination with keepalives enabled and *coalesced* reads: each side writes everything it has
    before the peer reads, and the peer reads it in one chunk, so a decisive message (SESS_TERM, final
    XFER_ACK, final XFER_SEGMENT) is regularly followed by another message (KEEPALIVE, ACK, …) inside the
    same `recv_raw` call. Keepalive timers are fired between a message being queued and being pumped. '''
    cfg_a = gen_cfg(rng)
    cfg_b = gen_cfg(rng)
    cfg_a['keepalive'] = rng.choice([1, 2, 5])
    cfg_b['keepalive'] = rng.choice([1, 2, 5])
    for c in (cfg_a, cfg_b):
        c['seg_init'] = max(c['seg_init'], 3)
    sim = ts.Sim(cfg_a, cfg_b)
    for ep in sim.eps():
        ep.popped = {}
    sent = {'a': [], 'b': []}
    meta = {'cfg_a': cfg_a, 'cfg_b': cfg_b, 'flavour': 'coalesced', 'term': [], 'hard': False, 'quiescent': False}
    sim.establish(rng)
    if sim.a.closed() or sim.b.closed() or sim.a.h._state != 'established' or sim.b.h._state != 'established':
        return sim, sent, meta

    def drain_tx(ep):
        n = 0
        while sim.tx_sources(ep) and not ep.closed() and n < 400:
            sim.pump(ep, ts.CHUNK)
            n += 1

    def drain_pq(ep):
        n = 0
        while ep.sources('idle', '_process_queue') and not ep.closed() and n < 400:
            sim.pq(ep)
            n += 1

    def read_all(ep):
        n = 0
        while sim.inflight[ep.name] and not ep.closed() and n < 400:
            sim.rx(ep, ts.CHUNK)
            n += 1
        if not ep.closed() and 'eof' in sim.enabled(ep):
            sim.eof(ep)

    def fire_ka(ep):
        if not ep.closed() and 'ka' in sim.due_timers(ep):
            sim.timer(ep, 'ka')

    for who in ('a', 'b'):
        for _ in range(rng.choice([0, 0, 1, 2])):
            ep = sim.a if who == 'a' else sim.b
            seg = eff_seg(cfg_a, cfg_b) if who == 'a' else eff_seg(cfg_b, cfg_a)
            d = gen_bundle(rng, seg, big_ok=False)
            sim.send(ep, d)
            sent[who].append(d)
    kind = rng.choice(['term_a', 'term_b', 'term_both'])
    term_at = rng.choice([0, 0, 1, 2])
    for rnd in range(40):
        if all(ep.closed() for ep in sim.eps()):
            break
        if rnd == term_at:
            for (k, ep) in (('a', sim.a), ('b', sim.b)):
                if kind in ('term_' + k, 'term_both') and not ep.closed():
                    sim.terminate(ep, rng.choice([0, 3]))
                    if ep.obs[-1].get('raised') is None:
                        meta['term'].append(k)
        order = [sim.a, sim.b]
        rng.shuffle(order)
        for ep in order:
            if rng.random() < 0.8:
                drain_pq(ep)
        # let a keepalive interval elapse now and then, *before* the queued octets are written
        if rng.random() < 0.7:
            sim.advance(rng.choice([1000, 2000, 5000]))
            for ep in order:
                if rng.random() < 0.8:
                    fire_ka(ep)
        for ep in order:
            drain_tx(ep)
        for ep in order:
            read_all(ep)
        if not _any_enabled(sim) and rnd > term_at:
            break
    # whatever is left: random order to quiescence (timers included)
    meta['quiescent'] = sim.run_quiescent(rng)
    meta['ended'] = bool(meta['term'])
    for ep in sim.eps():
        if not ep.closed():
            for q in ('idle', 'txq', 'rxq', 'state'):
                sim.query(ep, q)
    return sim, sent, meta


def _any_enabled(sim):
    for ep in sim.eps():
        if sim.enabled(ep) or sim.due_timers(ep):
            return True
    return False


def compare_with_model(chk, sims, with_timers=False, project=None):
    ''' sims: list of (sim, label). Runs every endpoint's event list through the Lean model. '''
    reqs, owners = [], []
    for sim, label in sims:
        for ep in sim.eps():
            reqs.append(ts.model_requests(ep))
            owners.append((sim, ep, label))
    if not reqs:
        return
    try:
        outs = chk.driver(reqs)
    except Exception as err:
        chk.corr_break('model driver unavailable: %s' % str(err)[:300], {})
        return
    for out, (sim, ep, label) in zip(outs, owners):
        if 'trace' not in out:
            chk.corr_break('model rejected the event list: %s' % out, {'label': label})
            continue
        d = ts.diff_trace(ep, out['trace'], with_timers=with_timers, project=project)
        chk.cov['traces_validated_against_impl'] += 1
        if d is not None:
            i, det = d
            chk.corr_break('endpoint %s: model and implementation differ at event %d (%s)' % (ep.name, i, json.dumps(ep.events[i])[:80]),
                           {'label': label, 'cfg': ep.model_cfg(), 'events': ep.events[:i + 1], 'diff': det})


def sim_replay(sim, sent, meta):
    ''' compact replay record of a scenario: per-endpoint event lists are enough to re-run it '''
    return {'meta': {k: (v if not isinstance(v, bytes) else v.hex()) for k, v in meta.items()},
            'a': {'cfg': sim.a.model_cfg(), 'events': sim.a.events},
            'b': {'cfg': sim.b.model_cfg(), 'events': sim.b.events},
            'order': [who for (who, _e, _o) in sim.log],
            'sent': {k: [d.hex() for d in v] for k, v in sent.items()}}


def report(chk, prop, bad, sim, sent, meta, only=None):
    for (sig, what) in bad:
        if only and not sig.startswith(only):
            continue
        chk.violation(sig, what, sim_replay(sim, sent, meta))
