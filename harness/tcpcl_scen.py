''' Scenario generation and the shared run/compare skeleton for the TCPCL session properties
(C01, C04, C09, C14, C17, C18). '''
import json

import tcpcl_sim as ts
import tcpcl_monitors as tm

SEG_CHOICES = [1, 2, 3, 7, 10, 100, 1000, 10240, 104857]
MRU_CHOICES = [1, 2, 3, 7, 50, 10240, 10485760, 2 ** 64 - 1]


def gen_cfg(rng, timers=False):
    cfg = {'seg_init': rng.choice(SEG_CHOICES), 'seg_mru': rng.choice(MRU_CHOICES)}
    # adaptive segment size (PID controller on ACK round-trip time) in a third of the runs
    if rng.random() < 0.33:
        cfg['modulate'] = rng.choice([0.001, 0.05, 1.0])
    if timers:
        cfg['keepalive'] = rng.choice([0, 1, 2, 5, 30])
        cfg['idle'] = rng.choice([0, 0, 3, 10, 60])
    return cfg


def eff_seg(cfg_self, cfg_peer):
    return max(1, min(cfg_self.get('seg_init', 104857), cfg_peer.get('seg_mru', 10485760)))


def gen_bundle(rng, seg, big_ok=True):
    c = rng.random()
    if c < 0.12:
        n = 0
    elif c < 0.22:
        n = 1
    elif c < 0.6:
        n = rng.choice([seg - 1, seg, seg + 1, 2 * seg - 1, 2 * seg, 2 * seg + 1, 3 * seg, 5 * seg + 1])
    elif c < 0.95 or not big_ok:
        n = rng.randrange(0, 300)
    else:
        n = rng.choice([10239, 10240, 10241, 30000])
    n = max(0, min(n, 40000))
    if seg <= 3:
        n = min(n, 40)       # keep event counts bounded for tiny segments
    elif seg <= 10:
        n = min(n, 200)
    return bytes(rng.getrandbits(8) for _ in range(n))


def run_scenario(rng, flavour, tier, cfg_a=None, cfg_b=None, timers=False):
    ''' flavour: 'transfer' | 'terminate' | 'abort'. Returns (sim, sent, meta). '''
    cfg_a = cfg_a or gen_cfg(rng, timers)
    cfg_b = cfg_b or gen_cfg(rng, timers)
    sim = ts.Sim(cfg_a, cfg_b)
    for ep in sim.eps():
        ep.popped = {}
    sent = {'a': [], 'b': []}
    meta = {'cfg_a': cfg_a, 'cfg_b': cfg_b, 'flavour': flavour, 'term': [], 'hard': False, 'quiescent': False}
    actions = []
    nb = rng.choice([0, 1, 1, 2, 3, 5]) if tier == 'quick' else rng.choice([0, 1, 2, 3, 5, 8, 12])
    for _ in range(nb):
        who = rng.choice(['a', 'b'])
        seg = eff_seg(cfg_a, cfg_b) if who == 'a' else eff_seg(cfg_b, cfg_a)
        actions.append(('send', who, gen_bundle(rng, seg)))
    for _ in range(rng.choice([0, 1, 2, 4])):
        actions.append(('query', rng.choice(['a', 'b']), rng.choice(['state', 'idle', 'txq', 'rxq'])))
    for _ in range(rng.choice([0, 1, 2])):
        actions.append(('pop', rng.choice(['a', 'b']), None))
    rng.shuffle(actions)
    if flavour in ('terminate', 'abort'):
        kinds = ['term_a', 'term_b', 'term_both'] if flavour == 'terminate' else ['close_a', 'close_b', 'term_a_close_b']
        k = rng.choice(kinds)
        pos = rng.randrange(0, len(actions) + 1)
        actions.insert(pos, ('end', k, None))
    # starting order and early user actions before establishment are part of the schedule
    sim.start(sim.b)
    sim.start(sim.a)
    budget = 6000 if tier == 'quick' else 30000
    wait_est = rng.random() < 0.8
    steps = 0
    ended = False
    while steps < budget:
        steps += 1
        if actions and (rng.random() < 0.25 or not _any_enabled(sim)):
            act = actions.pop(0)
            if act[0] == 'end' and wait_est and not (sim.a.h._state == 'established' and sim.b.h._state == 'established') \
                    and not sim.a.closed() and not sim.b.closed() and _any_enabled(sim):
                # most termination requests are only meaningful once the session exists: let it establish first
                actions.insert(0, act)
                sim.step_random(rng)
                continue
            ep = sim.a if act[1] == 'a' else sim.b
            if act[0] == 'send':
                if ep.closed():
                    continue
                sim.send(ep, act[2])
                sent[ep.name].append(act[2])
            elif act[0] == 'query':
                sim.query(ep, act[2])
            elif act[0] == 'pop':
                try:
                    q = [int(x) for x in ep.h.recv_bundle_get_queue()]
                except Exception:
                    q = []
                tid = rng.choice(q) if q and rng.random() < 0.85 else rng.choice([0, 1, 99])
                sim.pop(ep, tid)
                last = ep.obs[-1]
                if last.get('ret') and 'b' in last['ret']:
                    ep.popped[tid] = bytes.fromhex(last['ret']['b'])
            elif act[0] == 'end':
                ended = True
                k = act[1]
                if k in ('term_a', 'term_both', 'term_a_close_b'):
                    sim.terminate(sim.a, rng.choice([0, 3, 5]))
                    if sim.a.obs[-1].get('raised') is None:
                        meta['term'].append('a')
                if k in ('term_b', 'term_both'):
                    # let a few internal events happen in between or not
                    for _ in range(rng.choice([0, 0, 1, 3])):
                        sim.step_random(rng)
                    sim.terminate(sim.b, rng.choice([0, 3, 5]))
                    if sim.b.obs[-1].get('raised') is None:
                        meta['term'].append('b')
                if k in ('close_a',):
                    sim.close(sim.a)
                    meta['hard'] = True
                if k in ('close_b', 'term_a_close_b'):
                    for _ in range(rng.choice([0, 1, 3])):
                        sim.step_random(rng)
                    sim.close(sim.b)
                    meta['hard'] = True
            continue
        if not sim.step_random(rng):
            if not actions:
                meta['quiescent'] = True
                break
    meta['steps'] = steps
    meta['ended'] = ended
    # final queries so that the D-Bus views are compared at the end too
    for ep in sim.eps():
        if not ep.closed():
            for q in ('idle', 'txq', 'rxq', 'state'):
                sim.query(ep, q)
    return sim, sent, meta


def _any_enabled(sim):
    for ep in sim.eps():
        if sim.enabled(ep) or sim.due_timers(ep):
            return True
    return False


def compare_with_model(chk, sims, with_timers=False, project=None):
    ''' sims: list of (sim, label). Runs every endpoint's event list through the Lean model. '''
    reqs, owners = [], []
    for sim, label in sims:
        for ep in sim.eps():
            reqs.append(ts.model_requests(ep))
            owners.append((sim, ep, label))
    if not reqs:
        return
    try:
        outs = chk.driver(reqs)
    except Exception as err:
        chk.corr_break('model driver unavailable: %s' % str(err)[:300], {})
        return
    for out, (sim, ep, label) in zip(outs, owners):
        if 'trace' not in out:
            chk.corr_break('model rejected the event list: %s' % out, {'label': label})
            continue
        d = ts.diff_trace(ep, out['trace'], with_timers=with_timers, project=project)
        chk.cov['traces_validated_against_impl'] += 1
        if d is not None:
            i, det = d
            chk.corr_break('endpoint %s: model and implementation differ at event %d (%s)' % (ep.name, i, json.dumps(ep.events[i])[:80]),
                           {'label': label, 'cfg': ep.model_cfg(), 'events': ep.events[:i + 1], 'diff': det})


def sim_replay(sim, sent, meta):
    ''' compact replay record of a scenario: per-endpoint event lists are enough to re-run it '''
    return {'meta': {k: (v if not isinstance(v, bytes) else v.hex()) for k, v in meta.items()},
            'a': {'cfg': sim.a.model_cfg(), 'events': sim.a.events},
            'b': {'cfg': sim.b.model_cfg(), 'events': sim.b.events},
            'order': [who for (who, _e, _o) in sim.log],
            'sent': {k: [d.hex() for d in v] for k, v in sent.items()}}


def report(chk, prop, bad, sim, sent, meta, only=None):
    for (sig, what) in bad:
        if only and not sig.startswith(only):
            continue
        chk.violation(sig, what, sim_replay(sim, sent, meta))
