''' Make /repo/src importable in this sandbox (see DESIGN.md §1, §4).
Call boot() before importing any repo module. Idempotent. '''
import os
import sys
import types

HERE = os.path.dirname(os.path.abspath(__file__))
REPO = os.environ.get('VERIF_REPO', '/repo')
SRC = os.path.join(REPO, 'src')
STUBS = os.path.join(HERE, 'stubs')
GUARD = 'DTN_DEMO_AGENT_VERIF'

_booted = False


def boot(with_bp_app=True):
    global _booted
    if _booted:
        return
    _booted = True
    os.environ.setdefault(GUARD, '1')
    # repo source first (an unrelated PyPI package named `bp` is installed), then stubs
    for p in (STUBS, SRC):
        if p in sys.path:
            sys.path.remove(p)
        sys.path.insert(0, p)
    import logging
    logging.disable(logging.CRITICAL)

    import ssl
    if not hasattr(ssl, 'match_hostname'):
        # Python 3.12 removed it; keep the attribute test in C15 explicit instead
        pass

    # pycose.extensions.x509 cannot import (oscrypto/libcrypto); provide what the repo uses
    try:
        import pycose.extensions.x509  # noqa
    except Exception:
        mod = types.ModuleType('pycose.extensions.x509')
        import cbor2

        class X5T(object):
            def __init__(self, alg, thumbprint):
                self.alg = alg
                self.thumbprint = thumbprint

            @classmethod
            def from_certificate(cls, alg, certificate):
                return cls(alg, alg.compute_hash(certificate))

            def matches(self, certificate):
                return self.alg.compute_hash(certificate) == self.thumbprint

            def encode(self):
                return [self.alg.identifier, self.thumbprint]

            @classmethod
            def decode(cls, item):
                from pycose.algorithms import CoseAlgorithm
                return cls(CoseAlgorithm.from_id(item[0]), item[1])

        class X5Chain(object):
            def __init__(self, cert_chain, verify=False):
                self.cert_chain = cert_chain

            def encode(self):
                if len(self.cert_chain) == 1:
                    return self.cert_chain[0]
                return list(self.cert_chain)

        mod.X5T = X5T
        mod.X5Chain = X5Chain
        ext = sys.modules.get('pycose.extensions')
        if ext is None:
            ext = types.ModuleType('pycose.extensions')
            ext.__path__ = []
            sys.modules['pycose.extensions'] = ext
        sys.modules['pycose.extensions.x509'] = mod
        ext.x509 = mod

    if with_bp_app:
        # do not execute bp/app/__init__.py (drags in sand/safe/zeroconf needing absent deps)
        import bp
        pkg = types.ModuleType('bp.app')
        pkg.__path__ = [os.path.join(SRC, 'bp', 'app')]
        pkg.__package__ = 'bp.app'
        sys.modules['bp.app'] = pkg
        bp.app = pkg


def glib_loop():
    from gi.repository import GLib
    return GLib.LOOP


def dbus_log():
    import dbus.service
    return dbus.service.LOG
