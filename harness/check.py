''' CLI: ./check <Cxx> [--tier quick|thorough] [--replay file] | ./check setup '''
import argparse
import importlib
import os
import signal
import sys
import traceback

HERE = os.path.dirname(os.path.abspath(__file__))
sys.path.insert(0, HERE)
import core  # noqa: E402
import facts  # noqa: E402


def on_alarm(signum, frame):
    raise core.Timeout()


def main():
    ap = argparse.ArgumentParser()
    ap.add_argument('prop')
    ap.add_argument('--tier', default=os.environ.get('VERIF_TIER', 'quick'))
    ap.add_argument('--replay', default=None)
    ap.add_argument('--max-seconds', type=int, default=None)
    args = ap.parse_args()
    seed = int(os.environ.get('VERIF_SEED', '0'))

    if args.prop == 'setup':
        facts.write_facts()
        lean = core.LeanSide()
        ok, log = lean.build([])
        print(log[-3000:])
        return 0 if ok else 1

    prop = args.prop.upper()
    mod = importlib.import_module('props.%s' % prop.lower())
    chk = core.Check(prop, args.tier, seed)
    limit = args.max_seconds or (1500 if args.tier == 'quick' else 7200)
    signal.signal(signal.SIGALRM, on_alarm)
    signal.alarm(limit)
    try:
        try:
            facts.write_facts()
        except facts.ExtractError as err:
            chk.proof_broken.append({'facts_extractor': str(err)})
        except Exception as err:
            # the translator met source it cannot read (syntax it does not know): the tie to the source is
            # broken, which is reported as such; the checks still run against the last generated facts
            chk.proof_broken.append({'facts_extractor': 'unexpected %s: %s' % (type(err).__name__, str(err)[:200]),
                                     'traceback': traceback.format_exc()[-1500:]})
        if args.replay:
            try:
                import json
                rep = json.load(open(args.replay))
            except Exception:
                rep = {}
            if isinstance(rep, dict) and rep.get('no_failing_input_found'):
                # no concrete input was found when this was written: what can be replayed is the obligation
                # itself — rebuild the proofs from the current tree and say whether they check now
                ok = chk.prove(getattr(mod, 'MODULE'))
                print('replay: %s named proof_broken=%s correspondence_broken=%d; the proof obligations of %s %s on the current tree'
                      % (args.replay, json.dumps(rep.get('proof_broken'))[:300], len(rep.get('correspondence_broken') or []),
                         prop, 'all check' if ok else 'do NOT check: %s' % json.dumps(chk.proof_broken)[:400]))
                if rep.get('correspondence_broken'):
                    print('replay: the correspondence break is re-examined by running the check itself (./check %s)' % prop)
                return 0 if ok else 1
            return mod.replay(chk, args.replay)
        chk.clean_replays()
        mod.run(chk)
        signal.alarm(0)
        return chk.finish()
    except core.Timeout:
        print('%s TIMEOUT after %ds (not a verdict)' % (prop, limit))
        return 2
    except Exception as err:
        signal.alarm(0)
        traceback.print_exc()
        # An exception which comes out of the implementation while the harness drives it (a frame under the
        # repository's src/) means the implementation no longer behaves as the model and the harness expect:
        # that is a broken correspondence, reported as the brief requires. Anything else is a harness error.
        repo_src = os.path.join(os.path.realpath(core.REPO), 'src') + os.sep
        frames = traceback.extract_tb(err.__traceback__)
        inside = [f for f in frames if os.path.realpath(f.filename).startswith(repo_src)]
        if inside:
            last = inside[-1]
            chk.corr_break('the implementation raised %s in %s (%s:%d) while the harness was driving it: %s'
                           % (type(err).__name__, last.name, os.path.relpath(last.filename, core.REPO), last.lineno, str(err)[:200]),
                           {'traceback': traceback.format_exception(type(err), err, err.__traceback__)[-12:]})
            try:
                return chk.finish()
            except Exception:
                traceback.print_exc()
        print('%s HARNESS-ERROR (not a verdict)' % prop)
        return 2


if __name__ == '__main__':
    sys.exit(main())
