''' C15 harness library: a fake TLS layer under the REAL tcpcl.session.ContactHandler.

What is real   : Messenger.recv_raw / recv_message (contact-header branch, policy checks, secure()),
                 Connection.secure() itself, merge_contact_params, merge_session_params, match_id,
                 x509.load_der_x509_certificate on real DER made with `cryptography`,
                 send_sess_term / get_session_parameters.
What is faked  : the ssl context (`Config.get_ssl_context` replaced on the *instance* by a factory of
                 FakeCtx), whose wrap_socket() returns a FakeTlsSock: do_handshake() succeeds or raises
                 what the scenario says; getpeercert(True) returns the scenario's DER certificate;
                 application octets travel through the same scripted queues as FakeSock.
Nothing in /repo and nothing of the `ssl` module is patched.
'''
import datetime
import io
import json
import ipaddress
import ssl
import struct

import tcpcl_util as tu
from tcpcl_util import GLib, session, FakeSock

from cryptography import x509
from cryptography.hazmat.primitives import serialization
from cryptography.hazmat.primitives.asymmetric import ed25519
from cryptography.x509.oid import NameOID

LOOP = GLib.LOOP
CAN_TLS = 0x01
CONTACT_FAILURE = 4

# ------------------------------------------------------------------------------------ certificates
_KEY = None
_CACHE = {}


def _key():
    global _KEY
    if _KEY is None:
        # fixed private key: certificates are deterministic functions of the scenario
        _KEY = ed25519.Ed25519PrivateKey.from_private_bytes(bytes(range(32)))
    return _KEY


def ip_bytes(text):
    return ipaddress.ip_address(text).packed


def ip_obj(raw):
    ''' SAN iPAddress octets -> the object `cryptography` hands out (address for 4/16, network for 8/32) '''
    if len(raw) == 4:
        return ipaddress.IPv4Address(raw)
    if len(raw) == 16:
        return ipaddress.IPv6Address(raw)
    if len(raw) == 8:
        return ipaddress.IPv4Network((raw[:4], bin(int.from_bytes(raw[4:], 'big')).count('1')))
    if len(raw) == 32:
        return ipaddress.IPv6Network((raw[:16], bin(int.from_bytes(raw[16:], 'big')).count('1')))
    raise ValueError('bad iPAddress length')


def make_cert(spec):
    ''' spec: None (no certificate presented) or dict(san=bool, ip=[hex], dns=[str], uri=[str], other=[str])
    (other = rfc822Name entries: SAN present, of no type the code looks at). Returns DER or None.
    The SAN entries are written in an interleaved order derived from the lists, so that order of
    general-name kinds inside the extension varies too. '''
    if spec is None:
        return None
    key = repr(sorted(spec.items()))
    if key in _CACHE:
        return _CACHE[key]
    names = []
    lists = [[x509.IPAddress(ip_obj(bytes.fromhex(h))) for h in spec.get('ip', [])],
             [x509.DNSName(d) for d in spec.get('dns', [])],
             [x509.UniformResourceIdentifier(u) for u in spec.get('uri', [])],
             [x509.RFC822Name(o) for o in spec.get('other', [])]]
    if spec.get('order', 0) % 2:
        lists.reverse()
    while any(lists):
        for l in lists:
            if l:
                names.append(l.pop(0))
    subject = x509.Name([x509.NameAttribute(NameOID.COMMON_NAME, 'verif peer')])
    b = (x509.CertificateBuilder().subject_name(subject).issuer_name(subject)
         .public_key(_key().public_key()).serial_number(1000 + len(_CACHE))
         .not_valid_before(datetime.datetime(2020, 1, 1)).not_valid_after(datetime.datetime(2040, 1, 1)))
    if spec.get('san', True):
        b = b.add_extension(x509.SubjectAlternativeName(names), critical=False)
    if spec.get('eku'):
        b = b.add_extension(x509.ExtendedKeyUsage([x509.ObjectIdentifier('1.3.6.1.5.5.7.3.35')]), critical=False)
    der = b.sign(_key(), None).public_bytes(serialization.Encoding.DER)
    _CACHE[key] = der
    return der


# ------------------------------------------------------------------------------------ fake TLS
class FakeTlsSock(object):
    ''' What ssl.SSLContext.wrap_socket would return; octets go through the wrapped FakeSock's peer
    name but separate sent / rx queues, so the harness can tell clear from secured octets. '''

    def __init__(self, raw, ctx, server_side, server_hostname):
        self.raw = raw
        self.ctx = ctx
        self.server_side = server_side
        self.server_hostname = server_hostname
        self.sent = bytearray()
        self.rx_script = []
        self.closed = False
        self.handshaken = False
        self.blocking = None
        self.certcalls = []

    def do_handshake(self):
        hs = self.ctx.handshake
        if hs == 'ok':
            self.handshaken = True
            return
        if hs == 'sslerror':
            raise ssl.SSLError(1, '[SSL: TLSV1_ALERT_UNKNOWN_CA] harness')
        if hs == 'certerror':
            raise ssl.SSLCertVerificationError(1, '[SSL: CERTIFICATE_VERIFY_FAILED] harness')
        if hs == 'eof':
            raise ssl.SSLEOFError(8, 'EOF occurred in violation of protocol')
        if hs == 'reset':
            raise ConnectionResetError(104, 'Connection reset by peer')
        raise AssertionError(hs)

    def cipher(self):
        return ('TLS_FAKE', 'TLSv1.3', 0)

    def setblocking(self, flag):
        self.blocking = flag

    def fileno(self):
        return -1 if self.closed else 98

    def getpeername(self):
        return self.raw.getpeername()

    def getpeercert(self, binary_form=False):
        self.certcalls.append(binary_form)
        if binary_form:
            return self.ctx.cert_der
        return {} if self.ctx.cert_der is not None else None

    def recv(self, size):
        if not self.rx_script:
            raise ssl.SSLWantReadError(2, 'no data')
        return self.rx_script.pop(0)

    def send(self, data):
        self.sent += data
        return len(data)

    def shutdown(self, how):
        pass

    def close(self):
        self.closed = True

    def unwrap(self):
        return self.raw


class FakeCtx(object):
    def __init__(self, handshake, cert_der):
        self.handshake = handshake
        self.cert_der = cert_der
        self.wrapped = []

    def wrap_socket(self, sock, server_side=False, do_handshake_on_connect=True, server_hostname=None, **kw):
        t = FakeTlsSock(sock, self, server_side, server_hostname)
        self.wrapped.append(t)
        return t


def native_available():
    return hasattr(ssl, 'match_hostname')


# ------------------------------------------------------------------------------------ scenario runner
def sess_init_bytes(node, keepalive=0):
    ''' peer SESS_INIT, encoded by the harness's RFC 9174 codec (not the repo's) '''
    nb = node if isinstance(node, bytes) else node.encode('utf-8')
    return tu.rfc_encode({'k': 'sess_init', 'keepalive': keepalive, 'seg_mru': 2 ** 20, 'xfer_mru': 2 ** 30,
                          'node': nb.hex(), 'ext': ''})


def contact_bytes(flags):
    return b'dtn!' + bytes([4, flags & 0xff])


POLICY_OPTIONS = ('tls_enable', 'require_tls', 'require_host_authn', 'require_node_authn')


def config_file_text(options, form='section'):
    ''' text of a configuration file whose `tcpcl:` section holds `options` (only the keys given; None = null).
    form: 'section' | 'with-others' (more options and sections around) | 'no-section' | 'empty' '''
    if form == 'empty':
        return ''
    if form == 'no-section':
        return json.dumps({'bp': {'node_id': 'dtn://local/'}})
    doc = {'tcpcl': dict(options)}
    if form == 'with-others':
        doc['tcpcl'].update({'node_id': 'dtn://local/', 'keepalive_time': 0, 'stop_on_close': False})
        doc['udpcl'] = {'dtls_enable_tx': False}
    return json.dumps(doc)


def config_from_file(options, form='section'):
    from tcpcl.config import Config
    cfg = Config()
    cfg.node_id = 'dtn://local/'
    cfg._bus_conn = None
    cfg.from_file(io.StringIO(config_file_text(options, form)))
    return cfg


class Run(object):
    ''' One scenario on one real ContactHandler. '''

    def __init__(self, sc):
        self.sc = sc
        LOOP.reset()
        import dbus.service
        del dbus.service.LOG[:]
        self.sock = FakeSock('c15', peername=(sc['sock_peer'], 4556 if not sc['passive'] else 40000))
        self.ctx = FakeCtx(sc.get('handshake', 'ok'), make_cert(sc.get('cert')))
        if 'config_file' in sc:
            # the policy comes from a configuration file read by the REAL Config.from_file (yaml stub: JSON subset);
            # sc['tls_enable'] … are then only what the file *says* (used by the monitors), never applied here
            cfg = config_from_file(sc['config_file'], sc.get('config_file_form', 'section'))
        else:
            cfg = tu.make_config(tls_enable=bool(sc['tls_enable']), require_tls=sc['require_tls'],
                                 require_host_authn=bool(sc['require_host']), require_node_authn=bool(sc['require_node']),
                                 node_id='dtn://local/')
        self.loaded = {k: getattr(cfg, k) for k in POLICY_OPTIONS}
        self.ctx_calls = 0

        def get_ctx():
            self.ctx_calls += 1
            return self.ctx
        cfg.get_ssl_context = get_ctx
        kw = dict(config=cfg, sock=self.sock)
        if sc['passive']:
            kw['fromaddr'] = (sc['peer_name'], 40000)
        else:
            kw['toaddr'] = (sc['peer_name'], 4556)
        self.h = session.ContactHandler(hdl_kwargs=kw, bus_kwargs=dict(conn=None, object_path='/verif/c15'))
        self.escaped = []
        self.trace = []

    # --- sources
    def _srcs(self, kind=None):
        return [s for s in LOOP.pending(kind) if getattr(s.func, '__self__', None) is self.h]

    def pump(self):
        ''' let every pending TX source run (the fake sockets accept everything) '''
        for _ in range(50):
            tx = [s for s in self._srcs() if s.func.__name__ in ('_avail_tx_notls', '_avail_tx_tls')]
            if not tx:
                return
            for s in tx:
                _ran, exc = LOOP.fire(s)
                if exc is not None:
                    self.escaped.append(type(exc).__name__)

    def tls_sock(self):
        return self.ctx.wrapped[-1] if self.ctx.wrapped else None

    def feed(self, data):
        ''' deliver octets to whichever socket the endpoint is currently reading from; returns False
        when the endpoint has no read watch any more '''
        rx = [s for s in self._srcs('io') if s.cond == GLib.IO_IN]
        if not rx:
            return False
        src = rx[-1] if len(rx) > 1 else rx[0]
        src.obj.rx_script = [data]
        _ran, exc = LOOP.fire(src)
        src.obj.rx_script = []
        if exc is not None:
            self.escaped.append(type(exc).__name__)
            self.last_exc = exc
        self.pump()
        return True

    def start(self):
        self.h.start()
        self.pump()

    # --- observation
    def observe(self):
        h = self.h
        t = self.tls_sock()
        clear, _r = tu.rfc_frames(bytes(self.sock.sent))
        sec, _r = tu.rfc_frames(bytes(t.sent), in_conn=True) if t is not None else ([], 0)
        states = [str(a[3][0]) for a in h._verif_signals if a[1] == 'session_state_changed']
        params = dict(h.get_session_parameters()) if 'established' in states or h._sess_parameters else {}
        return {
            'clear': [m for (m, _e) in clear], 'secured': [m for (m, _e) in sec],
            'states': states, 'state': str(h.get_session_state()),
            'closed': bool(self.sock.closed), 'is_secure': bool(h.is_secure()),
            'tls_attempted': len(self.ctx.wrapped) > 0,
            'escaped': list(self.escaped), 'loaded_cfg': dict(self.loaded),
            'params': {k: (str(v) if not isinstance(v, bool) else v) for k, v in params.items()
                       if k.startswith('authn_') or k.startswith('peer_') and k.endswith('id')},
        }


def run_scenario(sc, probe_transfer=False):
    ''' Drive one contact + session negotiation. Returns the observation dict. '''
    r = Run(sc)
    r.start()
    ch = contact_bytes(sc['peer_flags'])
    si = sess_init_bytes(sc.get('peer_node_raw') and bytes.fromhex(sc['peer_node_raw']) or sc['peer_node'])
    if sc.get('pipelined'):
        r.feed(ch + si)
    else:
        r.feed(ch)
        if not r.sock.closed:
            r.feed(si)
    obs = r.observe()
    if probe_transfer and not r.sock.closed:
        # after the negotiation outcome: does the endpoint still take a bundle from this peer?
        seg = tu.rfc_encode({'k': 'xfer_segment', 'flags': 3, 'tid': 1, 'ext': '', 'data': b'unauthenticated'.hex()})
        before = len(r.h._verif_signals)
        r.feed(seg)
        obs['transfer_accepted'] = any(a[1] == 'recv_bundle_finished' for a in r.h._verif_signals[before:])
        obs['escaped'] = list(r.escaped)
    return obs
