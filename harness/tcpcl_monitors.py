''' Implementation-side monitors for the TCPCL properties, written against observable behaviour only
(wire octets decoded by the independent RFC 9174 reader, recorded D-Bus signals and return values).
They are the failing-input search oracle; they use nothing from the Lean model. '''
import tcpcl_util as tu

END, START = 1, 2


def signals(sim, ep_name, name=None):
    ''' [(global index, signal name, args)] of one endpoint '''
    out = []
    for i, (who, _ev, obs) in enumerate(sim.log):
        if who != ep_name:
            continue
        for s in obs['sigs']:
            if name is None or s['sig'] == name:
                out.append((i, s['sig'], s['args']))
    return out


def arg(a):
    for k in ('s', 'n', 'b', 'bool', 'ss'):
        if k in a:
            return a[k]
    return a


def wire_frames(ep):
    data = bytes(ep.sock.sent)
    try:
        frames, pos = tu.rfc_frames(data)
        err = None
    except ValueError as e:
        frames, pos, err = [], 0, str(e)
    return data, [m for (m, _e) in frames], pos, err


def escapes(sim):
    out = []
    for i, (who, ev, obs) in enumerate(sim.log):
        if obs.get('escaped'):
            out.append((i, who, ev, obs['escaped']))
    return out


# ------------------------------------------------------------------------------------- C01
def mon_c01(sim, sent, expect_complete):
    ''' sent = {'a': [bytes...], 'b': [...]} in the order queued. Returns [(signature, what)] '''
    bad = []
    for x, y in ((sim.a, sim.b), (sim.b, sim.a)):
        fin = signals(sim, y.name, 'recv_bundle_finished')
        tids = [int(arg(a[0])) for (_i, _n, a) in fin if arg(a[2]) == 'success']
        if len(set(tids)) != len(tids):
            bad.append(('C01:duplicate-delivery', 'transfer delivered twice at %s: %s' % (y.name, tids)))
        got = []
        for t in tids:
            d = y.popped.get(t)
            if d is None:
                try:
                    d = bytes(y.h.recv_bundle_pop_data(str(t)))
                    y.popped[t] = d
                except Exception:
                    d = None
            got.append(d)
        want = sent[x.name]
        if got != want[:len(got)]:
            k = next(i for i in range(len(got)) if i >= len(want) or got[i] != want[i])
            kind = 'reordered-or-corrupted'
            if got[k] is not None and k < len(want) and len(got[k]) < len(want[k]) and want[k].startswith(got[k]):
                kind = 'truncated'
            bad.append(('C01:%s' % kind, 'bundle %d delivered to %s differs from what %s queued (got %s octets, want %s)' % (
                k, y.name, x.name, None if got[k] is None else len(got[k]), len(want[k]) if k < len(want) else None)))
        if expect_complete and len(got) < len(want):
            missing = want[len(got)]
            bad.append(('C01:not-delivered-len%s' % ('0' if len(missing) == 0 else ('1' if len(missing) == 1 else 'N')),
                        'bundle %d of %s (%d octets) never delivered to %s although the system is quiescent' % (len(got), x.name, len(missing), y.name)))
        # success only after the receiver holds the complete bundle
        fin_idx = {int(arg(a[0])): i for (i, _n, a) in fin if arg(a[2]) == 'success'}
        for (i, _n, a) in signals(sim, x.name, 'send_bundle_finished'):
            if arg(a[2]) == 'success':
                t = int(arg(a[0]))
                if t not in fin_idx or fin_idx[t] > i:
                    bad.append(('C01:success-before-receipt', '%s reported success for transfer %d before %s held it' % (x.name, t, y.name)))
        if expect_complete:
            succ = [int(arg(a[0])) for (_i, _n, a) in signals(sim, x.name, 'send_bundle_finished') if arg(a[2]) == 'success']
            if sorted(succ) != list(range(1, len(want) + 1)):
                bad.append(('C01:missing-success', '%s queued %d bundles, success reported for %s' % (x.name, len(want), succ)))
    return bad


# ------------------------------------------------------------------------------------- C04
def total_length_ext(ext_hex):
    items = tu.rfc_ext_items(bytes.fromhex(ext_hex))
    if items is None:
        return 'malformed'
    for (_f, t, v) in items:
        if t == 1 and len(v) == 8:
            return int.from_bytes(v, 'big')
    return None


def mon_c04(sim):
    bad = []
    frames = {}
    for ep in sim.eps():
        data, fr, pos, err = wire_frames(ep)
        frames[ep.name] = fr
        if err:
            bad.append(('C04:undecodable-wire', '%s wrote octets an RFC 9174 reader cannot decode: %s' % (ep.name, err)))
        elif pos != len(data) and not ep.closed():
            # a partially written message is only acceptable while the pump has not finished
            pass
        elif pos != len(data) and ep.closed() and not getattr(ep, 'user_closed', False):
            # the endpoint closed on its own decision (`_check_sess_term` from a TX/RX/idle callback, not a user
            # close and not the peer hanging up): everything it had queued must have been written out whole
            how = next((ev['e'] for (who, ev, obs) in sim.log if who == ep.name and obs.get('closed')), None)
            if how in ('pump', 'rx', 'pq'):
                bad.append(('C04:wire-ends-inside-a-message',
                            '%s closed the connection by itself (in a %s callback) with %d octets of its last message unwritten'
                            % (ep.name, how, len(data) - pos)))
    for ep in sim.eps():
        peer = sim.peer(ep)
        fr = frames[ep.name]
        peer_mru = None
        for m in frames[peer.name]:
            if m['k'] == 'sess_init':
                peer_mru = m['seg_mru']
                break
        phase = 'contact'
        term_seen = False
        cur = None          # (tid, total, sent)
        last_tid = 0
        for idx, m in enumerate(fr):
            k = m['k']
            if phase == 'contact':
                if k != 'contact':
                    bad.append(('C04:first-not-contact', '%s first wrote %s' % (ep.name, k)))
                phase = 'init'
                continue
            if phase == 'init':
                if k != 'sess_init':
                    bad.append(('C04:second-not-sessinit', '%s wrote %s before SESS_INIT' % (ep.name, k)))
                phase = 'body'
                if k == 'sess_init':
                    continue
            if k in ('contact', 'sess_init'):
                bad.append(('C04:repeated-%s' % k, '%s wrote a second %s' % (ep.name, k)))
                continue
            if k == 'sess_term':
                if term_seen:
                    bad.append(('C04:second-sess-term', '%s wrote two SESS_TERM' % ep.name))
                term_seen = True
                continue
            if k == 'xfer_segment':
                fl = m['flags']
                dlen = len(m['data']) // 2
                if peer_mru is not None and dlen > peer_mru:
                    bad.append(('C04:segment-exceeds-mru', '%s wrote a %d-octet segment, peer segment MRU %d' % (ep.name, dlen, peer_mru)))
                if fl & START:
                    if term_seen:
                        bad.append(('C04:start-after-sess-term', '%s started transfer %d after its SESS_TERM' % (ep.name, m['tid'])))
                    if cur is not None:
                        bad.append(('C04:interleaved-transfers', '%s started transfer %d while %d was unfinished' % (ep.name, m['tid'], cur[0])))
                    if m['tid'] <= last_tid:
                        bad.append(('C04:transfer-id-reused', '%s reused transfer id %d' % (ep.name, m['tid'])))
                    tl = total_length_ext(m['ext'])
                    if tl is None or tl == 'malformed':
                        bad.append(('C04:start-without-total-length', '%s START segment of %d carries no Transfer Length extension' % (ep.name, m['tid'])))
                        tl = None
                    cur = [m['tid'], tl, 0]
                    last_tid = max(last_tid, m['tid'])
                else:
                    if cur is None or cur[0] != m['tid']:
                        bad.append(('C04:segment-without-start', '%s wrote a non-START segment of %d with no such transfer open' % (ep.name, m['tid'])))
                        cur = [m['tid'], None, 0]
                    if m['ext']:
                        bad.append(('C04:ext-outside-start', 'extension items outside START'))
                cur[2] += dlen
                if fl & END:
                    if cur[1] is not None and cur[1] != cur[2]:
                        bad.append(('C04:total-length-mismatch', '%s announced total %s for transfer %d but sent %d' % (ep.name, cur[1], cur[0], cur[2])))
                    cur = None
                elif cur[1] is not None and cur[2] >= cur[1] and cur[1] > 0:
                    bad.append(('C04:missing-end', '%s sent all %d octets of transfer %d without END' % (ep.name, cur[1], cur[0])))
        # acks echo the peer's segments in order
        segs = [m for m in frames[peer.name] if m['k'] == 'xfer_segment']
        acks = [m for m in fr if m['k'] == 'xfer_ack']
        cum = {}
        for i, a in enumerate(acks):
            if i >= len(segs):
                bad.append(('C04:ack-without-segment', '%s wrote more XFER_ACK than segments it can have received' % ep.name))
                break
            s = segs[i]
            if s['flags'] & START:
                cum[s['tid']] = 0
            cum[s['tid']] = cum.get(s['tid'], 0) + len(s['data']) // 2
            if a['tid'] != s['tid'] or a['flags'] != s['flags'] or a['len'] != cum[s['tid']]:
                bad.append(('C04:ack-mismatch', '%s ack %d = (tid %d, flags %d, len %d), segment was (tid %d, flags %d, cumulative %d)' % (
                    ep.name, i, a['tid'], a['flags'], a['len'], s['tid'], s['flags'], cum[s['tid']])))
                break
    return bad


# ------------------------------------------------------------------------------------- C09
def mon_c09(sim, sent, term_requested, hard_closed):
    ''' After termination was requested (by the listed endpoints) and the system ran to quiescence. '''
    bad = []
    frames = {ep.name: wire_frames(ep)[1] for ep in sim.eps()}
    both_closed = all(ep.closed() for ep in sim.eps())
    if not both_closed:
        bad.append(('C09:not-closed', 'quiescent after termination request but closed=%s' % {ep.name: ep.closed() for ep in sim.eps()}))
    if hard_closed:
        return bad
    for ep in sim.eps():
        terms = [m for m in frames[ep.name] if m['k'] == 'sess_term']
        if len(terms) != 1:
            bad.append(('C09:sess-term-count-%d' % len(terms), '%s wrote %d SESS_TERM messages' % (ep.name, len(terms))))
        elif ep.name not in term_requested and not (terms[0]['flags'] & 1):
            bad.append(('C09:reply-flag-missing', "responder %s's SESS_TERM lacks REPLY" % ep.name))
        elif ep.name in term_requested and len(term_requested) == 2 and (terms[0]['flags'] & 1) and False:
            pass
    # every started transfer completes and is acknowledged; unstarted ones are reported once, not success
    for x, y in ((sim.a, sim.b), (sim.b, sim.a)):
        started = [int(arg(a[0])) for (_i, _n, a) in signals(sim, x.name, 'send_bundle_started')]
        finished = {}
        for (_i, _n, a) in signals(sim, x.name, 'send_bundle_finished'):
            finished.setdefault(int(arg(a[0])), []).append(arg(a[2]))
        for t in range(1, len(sent[x.name]) + 1):
            res = finished.get(t, [])
            if len(res) > 1:
                bad.append(('C09:finished-twice', '%s transfer %d finished %s' % (x.name, t, res)))
            if t in started:
                if res != ['success']:
                    bad.append(('C09:started-transfer-not-completed', '%s transfer %d was in progress at termination and ended %s' % (x.name, t, res)))
            else:
                if len(res) != 1 or res[0] == 'success':
                    bad.append(('C09:unstarted-not-reported', '%s queued transfer %d never started and was reported %s' % (x.name, t, res)))
        try:
            q = list(x.h.send_bundle_get_queue())
        except Exception:
            q = None
        if q:
            bad.append(('C09:send-queue-not-empty', '%s send queue still lists %s after closure' % (x.name, q)))
    return bad


# ------------------------------------------------------------------------------------- C18
def conforms(val, sig):
    ''' Does a canonical value conform to one complete D-Bus type (dbus-python marshalling rules)? '''
    if sig == 's':
        return 's' in val
    if sig == 'o':
        return 's' in val and val['s'].startswith('/')
    if sig == 'b':
        return 'bool' in val or 'n' in val
    if sig in ('y', 'q', 'u', 't', 'n', 'i', 'x') and 'bool' in val:
        return True      # a Python bool is an int (0/1) to dbus-python's integer marshalling
    if sig in ('y', 'q', 'u', 't'):
        bits = {'y': 8, 'q': 16, 'u': 32, 't': 64}[sig]
        return 'n' in val and 0 <= val['n'] < (1 << bits)
    if sig in ('n', 'i', 'x'):
        bits = {'n': 16, 'i': 32, 'x': 64}[sig]
        return 'n' in val and -(1 << (bits - 1)) <= val['n'] < (1 << (bits - 1))
    if sig == 'v':
        return any(k in val for k in ('s', 'n', 'bool', 'b', 'ss'))
    if sig == 'as':
        return 'ss' in val or val.get('list') == []
    if sig == 'ay':
        return 'b' in val
    if sig == 'a{sv}':
        return 'dict' in val and all(conforms(v, 'v') for v in val['dict'].values())
    return False


def split_sig(sig):
    out = []
    i = 0
    while i < len(sig):
        if sig[i] == 'a':
            if sig[i + 1] == '{':
                j = sig.index('}', i)
                out.append(sig[i:j + 1])
                i = j + 1
            else:
                out.append(sig[i:i + 2])
                i += 2
        else:
            out.append(sig[i])
            i += 1
    return out


def mon_types(sim, sigtable, prefix='tcpcl.ContactHandler.'):
    bad = []
    for (who, ev, obs) in sim.log:
        for s in obs['sigs']:
            ent = sigtable.get(prefix + s['sig'])
            if ent is None:
                bad.append(('C18:undeclared-signal', 'signal %s has no declared signature' % s['sig']))
                continue
            parts = split_sig(ent[1])
            if len(parts) != len(s['args']) or not all(conforms(a, p) for a, p in zip(s['args'], parts)):
                bad.append(('C18:signal-type-%s' % s['sig'], 'signal %s%r does not conform to signature "%s"' % (s['sig'], s['args'], ent[1])))
        if obs.get('ret') is not None and ev['e'] in ('send', 'pop', 'query'):
            meth = {'send': 'send_bundle_data', 'pop': 'recv_bundle_pop_data'}.get(ev['e'])
            if ev['e'] == 'query':
                meth = {'state': 'get_session_state', 'idle': 'is_sess_idle', 'txq': 'send_bundle_get_queue', 'rxq': 'recv_bundle_get_queue'}[ev['q']]
            ent = sigtable.get(prefix + meth)
            if ent and not conforms(obs['ret'], ent[2]):
                bad.append(('C18:return-type-%s' % meth, '%s returned %r, declared "%s"' % (meth, obs['ret'], ent[2])))
    return bad


def mon_c18_queues(sim):
    ''' queue views vs announced signals, replayed over the global log '''
    bad = []
    for ep in sim.eps():
        announced, popped, queued, finished, started = [], set(), [], {}, set()
        for (who, ev, obs) in sim.log:
            if who != ep.name:
                continue
            if ev['e'] == 'send' and obs.get('ret') and 's' in obs['ret']:
                queued.append(int(obs['ret']['s']))
            for s in obs['sigs']:
                a = [arg(x) for x in s['args']]
                if s['sig'] == 'recv_bundle_finished':
                    announced.append(int(a[0]))
                elif s['sig'] == 'send_bundle_started':
                    started.add(int(a[0]))
                elif s['sig'] == 'send_bundle_finished':
                    finished.setdefault(int(a[0]), []).append(a[2])
            if ev['e'] == 'pop':
                if obs.get('raised') is None:
                    if ev['tid'] in popped:
                        bad.append(('C18:pop-twice', 'transfer %d popped twice' % ev['tid']))
                    popped.add(ev['tid'])
            if ev['e'] == 'query' and obs.get('ret') is not None:
                if ev['q'] == 'rxq':
                    want = [str(t) for t in dict.fromkeys(announced) if t not in popped]
                    if sorted(obs['ret'].get('ss', [])) != sorted(want):
                        bad.append(('C18:rx-queue-mismatch', '%s recv queue %s, announced-not-popped %s' % (ep.name, obs['ret'], want)))
                elif ev['q'] == 'txq':
                    want = [str(t) for t in queued if t not in finished]
                    if sorted(obs['ret'].get('ss', [])) != sorted(want):
                        bad.append(('C18:tx-queue-mismatch', '%s send queue %s, queued-not-finished %s' % (ep.name, obs['ret'], want)))
                elif ev['q'] == 'idle' and obs['ret'].get('bool'):
                    pend = [t for t in queued if t not in finished]
                    if pend or obs['snap']['rxbuf']:
                        bad.append(('C18:idle-unsound', '%s reports idle with transfers %s pending / %d octets unprocessed' % (ep.name, pend, obs['snap']['rxbuf'])))
        for t, res in finished.items():
            if len(res) > 1:
                bad.append(('C18:finished-twice', '%s transfer %d (%s) got finished signals %s'
                            % (ep.name, t, 'started' if t in started else 'never started', res)))
        # a signal raised after the object was removed from the bus reaches nobody
        for (_path, name, _sig, args) in getattr(ep.h, '_verif_lost', []):
            bad.append(('C18:signal-after-unexport-%s' % name,
                        '%s raised %s%s after its D-Bus object had been removed from the connection: the signal is never emitted'
                        % (ep.name, name, tuple(str(a)[:20] for a in args))))
        # a graceful end (SESS_TERM written by both sides, nobody closed by hand): every started transfer was reported once
        try:
            mine = [m for m in wire_frames(ep)[1] if m['k'] == 'sess_term']
            other = [e2 for e2 in sim.eps() if e2 is not ep][0]
            theirs = [m for m in wire_frames(other)[1] if m['k'] == 'sess_term']
        except Exception:
            mine, theirs, other = [], [], None
        if mine and theirs and ep.closed() and other is not None and other.closed() \
                and not getattr(ep, 'user_closed', False) and not getattr(other, 'user_closed', False):
            for t in sorted(started):
                if len(finished.get(t, [])) != 1:
                    bad.append(('C18:started-not-finished-once-at-graceful-end',
                                '%s transfer %d was started and the session ended gracefully with finished signals %s' % (ep.name, t, finished.get(t, []))))
    return bad


def mon_sources_after_close(sim, prefix='C09'):
    ''' Closed is final for the event loop too: whatever GLib sources a closed contact still has installed
    (a pending idle call of the TX callback, a `_process_queue` idle source) go away the next time they
    fire; none keeps itself installed on a closed connection. Run after all other monitors of the
    scenario: it fires the left-over sources directly (nothing is recorded). '''
    from tcpcl_sim import LOOP
    bad = []
    for ep in sim.eps():
        if not ep.closed():
            continue
        for _ in range(4):
            srcs = ep.sources()
            if not srcs:
                break
            for s in srcs:
                LOOP.fire(s)
        if list(getattr(ep.h, 'locations', []) or []):
            bad.append(('%s:dbus-object-left-after-close' % prefix,
                        'endpoint %s is closed but its D-Bus object is still exported at %r' % (ep.name, list(ep.h.locations))))
        left = ep.sources()
        if left:
            bad.append(('%s:source-left-after-close-%s' % (prefix, getattr(left[0].func, '__name__', '?')),
                        'endpoint %s is closed but %d GLib source(s) of it stay installed after firing four times: %r'
                        % (ep.name, len(left), left[:3])))
    return bad
