''' C03  A COSE integrity block verifies iff nothing it covers was altered.

proof    : DtnVerif.Props.C03 (Model/Sec.lean: external AAD, MAC_structure, verify/apply)
corr     : `CoseSecOpCtx.get_external_aad` and pycose's `_mac_structure` captured on the real sender and
           receiver vs `sec.aad` / `sec.macstructure`; BIBs built from the model's MAC input (8 AAD scopes)
           must verify on the real receiver
search   : every single-bit flip of secured bundles through the real receiving agent; expected outcome
           decided by an independent decoder + the model's MAC input (covered => not delivered, marked,
           reported; uncovered => delivered); wrong key, missing key
'''
import seclib as S


def run(chk):
    chk.prove('DtnVerif.Props.C03')
    chk.cov['rule'] = ('own MAC0 BIBs (real apply_bib) and model-built BIBs over 8 AAD scopes; AAD + MAC_structure compared '
                       'with the model on every call; all single-bit flips classified must-pass / must-fail by an independent decode')
    chk.assumptions += [
        'HMAC is a parameter of the theorems: what is proved is which octets reach it, not that it resists forgery',
        'COSE_Mac with a key-wrap recipient: upstream pycose 1.1.0 cannot produce it (HMAC algorithms lack get_key_length, macmessage.py misses imports; the source-side step raises and the bundle leaves WITHOUT a BIB) nor verify it (no MacMessage.verify_tag(recipient)). Source side: theorems only. Receive side: model-built COSE_Mac blocks through the real _verify_bib_mac with a harness stand-in for the missing method that only chains pycose KeyWrap.decrypt and MacCommon.verify_tag',
        'COSE_Sign1 (x5chain path, certificate validation stubbed) is not exercised; Sig_structure is the same function as MAC_structure with context "Signature1"',
        'flips that make the bundle undecodable / fail a block CRC / change only the security-block framing are counted, not judged here (C02, C08, C12)',
        'D20-type alterations (EID text that the implementation normalises through urlsplit before re-encoding) are counted separately (C08)',
    ]
    keyhex = S.campaign(chk, 'C03', conf=False)
    S.mackw_receive_check(chk, 'C03', keyhex, 3 if chk.tier == 'quick' else 24)


def replay(chk, path):
    return S.replay_variant(chk, path, 'C03')
