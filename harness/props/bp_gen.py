''' Shared by the C02 / C08 checks: structured bundle generator, independent mini-CBOR codec,
independent RFC 9171 block splitter, bit-at-a-time CRC, conversions spec -> real objects / Lean JSON.

A bundle *spec* is a plain dict produced without touching the repository:
  {'primary': {'version','flags','crc_type','dest','src','rpt','time','seq','lifetime','frag_off',
               'total_len','crc'}, 'blocks': [{'type','num','flags','crc_type','btsd','crc', ...}]}
EIDs are ('none',) | ('dtn', ssp_text) | ('ipn', [ints]); octet strings are bytes or None.
The URI text handed to the repository and the CBOR-level form handed to Lean are both derived
from that structured form here, never through the repository's EidField.
'''
import re

U64 = 2 ** 64 - 1
BOUNDS = [0, 1, 22, 23, 24, 25, 254, 255, 256, 257, 65534, 65535, 65536, 65537, 2 ** 32 - 1, 2 ** 32,
          2 ** 32 + 1, 2 ** 63, U64 - 1, U64]
LEN_BOUNDS = [0, 1, 22, 23, 24, 25, 254, 255, 256, 257]
PRIMARY_FLAG_BITS = [0x1, 0x2, 0x4, 0x20, 0x40, 0x4000, 0x10000, 0x20000, 0x40000]
BLOCK_FLAG_BITS = [0x01, 0x02, 0x04, 0x10]
F_FRAG = 0x1
F_ADMIN = 0x2


# ---------------------------------------------------------------- independent mini CBOR

def cb_head(mt, n):
    if n < 24:
        return bytes([mt << 5 | n])
    if n < 1 << 8:
        return bytes([mt << 5 | 24]) + n.to_bytes(1, 'big')
    if n < 1 << 16:
        return bytes([mt << 5 | 25]) + n.to_bytes(2, 'big')
    if n < 1 << 32:
        return bytes([mt << 5 | 26]) + n.to_bytes(4, 'big')
    return bytes([mt << 5 | 27]) + n.to_bytes(8, 'big')


def cb_head_long(mt, n, extra=1):
    ''' a deliberately non-shortest head (extra = how many sizes longer than needed) '''
    sizes = [(24, 1), (25, 2), (26, 4), (27, 8)]
    need = 0 if n < 24 else 1 if n < 1 << 8 else 2 if n < 1 << 16 else 3 if n < 1 << 32 else 4
    idx = min(3, max(0, need - 1 + extra)) if need else min(3, extra - 1)
    ai, k = sizes[idx]
    if n >= 1 << (8 * k):
        return cb_head(mt, n)
    return bytes([mt << 5 | ai]) + n.to_bytes(k, 'big')


def cb_uint(n):
    return cb_head(0, n)


def cb_bstr(d):
    return cb_head(2, len(d)) + d


def cb_tstr(s):
    d = s.encode('utf8') if isinstance(s, str) else s
    return cb_head(3, len(d)) + d


def cb_arr(items):
    return cb_head(4, len(items)) + b''.join(items)


def cb_optbstr(d):
    return b'\xf6' if d is None else cb_bstr(d)


def cb_skip(data, pos):
    ''' Position after the well-formed definite-length item at pos; raises ValueError. '''
    if pos >= len(data):
        raise ValueError('eof')
    ib = data[pos]
    mt, ai = ib >> 5, ib & 31
    pos += 1
    if ai < 24:
        arg = ai
    elif ai <= 27:
        k = 1 << (ai - 24)
        if pos + k > len(data):
            raise ValueError('eof')
        arg = int.from_bytes(data[pos:pos + k], 'big')
        pos += k
    else:
        raise ValueError('ai %d' % ai)
    if mt in (0, 1, 7):
        return pos
    if mt in (2, 3):
        if pos + arg > len(data):
            raise ValueError('eof')
        return pos + arg
    n = arg if mt == 4 else 2 * arg if mt == 5 else 1
    if n > len(data):
        raise ValueError('count')
    for _ in range(n):
        pos = cb_skip(data, pos)
    return pos


def cb_read_head(data, pos):
    ib = data[pos]
    mt, ai = ib >> 5, ib & 31
    pos += 1
    if ai < 24:
        return mt, ai, pos
    if ai <= 27:
        k = 1 << (ai - 24)
        if pos + k > len(data):
            raise ValueError('eof')
        return mt, int.from_bytes(data[pos:pos + k], 'big'), pos + k
    raise ValueError('ai %d' % ai)


def cb_parse(data, pos=0):
    ''' one definite-length well-formed item -> (tree, next pos); tree = (mt, arg, payload) with payload =
    octets (mt 2/3), list of trees (mt 4/5/6), None otherwise '''
    mt, arg, p = cb_read_head(data, pos)
    if mt in (0, 1, 7):
        return (mt, arg, data[pos:p]), p
    if mt in (2, 3):
        if p + arg > len(data):
            raise ValueError('eof')
        return (mt, arg, data[p:p + arg]), p + arg
    n = arg if mt == 4 else 2 * arg if mt == 5 else 1
    kids = []
    for _ in range(n):
        k, p = cb_parse(data, p)
        kids.append(k)
    return (mt, arg, kids), p


def cb_parse_seq(data):
    out, p = [], 0
    while p < len(data):
        t, p = cb_parse(data, p)
        out.append(t)
    return out


def cb_emit_foreign(tree, rng, rate=0.5):
    ''' re-serialise as another (non-deterministic but valid) encoder might: longer-than-needed heads
    for integers, lengths and counts, indefinite-length arrays '''
    mt, arg, pay = tree
    if mt in (1, 7):
        return pay
    if mt == 0:
        return cb_head_long(0, arg, rng.choice([1, 2, 3])) if rng.random() < rate else cb_head(0, arg)
    if mt in (2, 3):
        h = cb_head_long(mt, arg, rng.choice([1, 2])) if rng.random() < rate / 2 else cb_head(mt, arg)
        return h + pay
    body = b''.join(cb_emit_foreign(k, rng, rate) for k in pay)
    if mt == 4 and rng.random() < rate:
        return b'\x9f' + body + b'\xff'
    h = cb_head_long(mt, arg, 1) if rng.random() < rate / 2 else cb_head(mt, arg)
    return h + body


def cb_reserialise(rng, data):
    ''' another valid serialisation of the same CBOR sequence, different octets when at all possible '''
    trees = cb_parse_seq(data)
    for _ in range(20):
        out = b''.join(cb_emit_foreign(t, rng, 0.6) for t in trees)
        if out != data:
            return out
    return data


def split_blocks(data):
    ''' Independent RFC 9171 reading of a bundle: list of dicts per block
    {start, end, items:[(s,e)...], crc_type, crc_span or None, type (canonical)}.
    Raises ValueError when the octets are not "indefinite array of definite arrays + break". '''
    if not data or data[0] != 0x9f:
        raise ValueError('no indefinite array')
    pos = 1
    out = []
    while True:
        if pos >= len(data):
            raise ValueError('no break')
        if data[pos] == 0xff:
            pos += 1
            break
        start = pos
        mt, n, pos = cb_read_head(data, pos)
        if mt != 4:
            raise ValueError('block not an array')
        items = []
        for _ in range(n):
            e = cb_skip(data, pos)
            items.append((pos, e))
            pos = e
        out.append({'start': start, 'end': pos, 'items': items})
    if pos != len(data):
        raise ValueError('trailing octets')
    for i, blk in enumerate(out):
        n = len(blk['items'])
        ct_idx = 2 if i == 0 else 3
        if i == 0:
            if not 8 <= n <= 11:
                raise ValueError('primary arity')
        elif not 5 <= n <= 6:
            raise ValueError('canonical arity')
        s, e = blk['items'][ct_idx]
        mt, ct, e2 = cb_read_head(data, s)
        if mt != 0 or e2 != e:
            raise ValueError('crc type not uint')
        blk['crc_type'] = ct
        if i > 0:
            mt, ty, _ = cb_read_head(data, blk['items'][0][0])
            if mt != 0:
                raise ValueError('type not uint')
            blk['type'] = ty
        blk['crc_span'] = None
    return out


def bomb_screen(data, limit=1 << 17):
    ''' True when a byte-string slot of some block holds an unsigned integer >= limit: the repository's
    BstrField.m2i does bytes(n), i.e. allocates n zero octets (a 9-octet item can ask for 2^64).
    The harness does not run such inputs through the real decoder (counted, reported separately). '''
    try:
        pos = 0
        mt, n, pos = cb_read_head(data, 0) if data[0] != 0x9f else (4, None, 1)
        bi = 0
        while pos < len(data) and data[pos] != 0xff and (n is None or bi < n):
            mt, cnt, p = cb_read_head(data, pos)
            if mt != 4 or cnt > 64:
                return False
            ct = None
            for i in range(cnt):
                m2, v, _ = cb_read_head(data, p)
                if bi == 0 and i == 2 and m2 == 0:
                    ct = v
                slot = (i in (4, 5)) if bi else (i == cnt - 1 and i >= 8 and ct in (1, 2))
                if m2 == 0 and v >= limit and slot:
                    return True
                p = cb_skip(data, p)
            pos = p
            bi += 1
    except (ValueError, IndexError):
        return False
    return False


def limit_memory(gib=8):
    ''' giant allocations asked for by corrupted inputs fail fast instead of swapping '''
    import resource
    try:
        resource.setrlimit(resource.RLIMIT_AS, (gib << 30, gib << 30))
    except (ValueError, OSError):
        pass


def _is_uint_item(data, s, e):
    mt, _v, p = cb_read_head(data, s)
    return mt == 0 and p == e


def _is_eid_item(data, s, e):
    t, p = cb_parse(data, s)
    if p != e or t[0] != 4 or t[1] != 2:
        return False
    sch, ssp = t[2]
    if sch[0] != 0:
        return False
    if sch[1] == 1:
        if ssp[0] == 0:
            return ssp[1] == 0
        if ssp[0] != 3:
            return False
        try:
            ssp[2].decode('utf8')
        except UnicodeDecodeError:
            return False
        return True
    if sch[1] == 2:
        return ssp[0] == 4 and ssp[1] >= 1 and all(k[0] == 0 for k in ssp[2])
    return False


def rfc_strict_ok(data):
    ''' Independent strict RFC 9171 reading of the octets (block framing and the types of every field of
    the primary and canonical blocks; BTSD opaque). True = a well-formed bundle. '''
    try:
        blocks = split_blocks(data)
        for i, blk in enumerate(blocks):
            it = blk['items']
            ct = blk['crc_type']
            if ct > 2:
                return False
            if i == 0:
                if not all(_is_uint_item(data, *it[k]) for k in (0, 1, 2, 7)):
                    return False
                flags = cb_read_head(data, it[1][0])[1]
                n = 8 + (2 if flags & 1 else 0) + (1 if ct else 0)
                if len(it) != n or not all(_is_eid_item(data, *it[k]) for k in (3, 4, 5)):
                    return False
                t, p = cb_parse(data, it[6][0])
                if t[0] != 4 or t[1] != 2 or any(k[0] != 0 for k in t[2]):
                    return False
                if flags & 1 and not all(_is_uint_item(data, *it[k]) for k in (8, 9)):
                    return False
            else:
                if len(it) != 5 + (1 if ct else 0) or not all(_is_uint_item(data, *it[k]) for k in (0, 1, 2, 3)):
                    return False
                if cb_read_head(data, it[4][0])[0] != 2:
                    return False
            if ct:
                mt, ln, _p = cb_read_head(data, it[-1][0])
                if mt != 2 or ln != 2 * ct:
                    return False
        return True
    except (ValueError, IndexError):
        return False


def slot_text_audit(received, obs):
    ''' byte-string slots (BTSD, CRC value) of the received octets that hold a *text string* while the
    decoded field value is an octet string: [(block index, slot)]. A text string is not a byte string
    (RFC 8949 major types 3 and 2); the code decodes such a field to "no value". '''
    out = []
    try:
        blocks = split_blocks(received)
    except (ValueError, IndexError):
        return out
    vals = [obs['primary']] + list(obs['blocks'])
    if len(vals) != len(blocks):
        return out
    for i, (blk, v) in enumerate(zip(blocks, vals)):
        it = blk['items']
        slots = []
        if i == 0:
            if blk['crc_type'] in (1, 2) and len(it) in (9, 11):
                slots.append(('crc', it[-1]))
        else:
            slots.append(('btsd', it[4]))
            if len(it) == 6:
                slots.append(('crc', it[5]))
        for name, (s, _e) in slots:
            if received[s] >> 5 == 3 and v.get(name) is not None:
                out.append((i, name))
    return out


def surplus_items(data):
    ''' canonical blocks of the received octets that have more array items than 5 + (CRC type 1/2 ? 1 : 0):
    [(block index, type code, items, allowed)] — read independently and tolerantly (the items after
    the surplus ones may be anything) '''
    out = []
    try:
        if not data or data[0] != 0x9f:
            return out
        pos = 1
        idx = 0
        while pos < len(data) and data[pos] != 0xff:
            mt, n, p = cb_read_head(data, pos)
            if mt != 4:
                return out
            items = []
            for _ in range(n):
                e = cb_skip(data, p)
                items.append((p, e))
                p = e
            if idx > 0 and n >= 5:
                m0, ty, _ = cb_read_head(data, items[0][0])
                m3, ct, _ = cb_read_head(data, items[3][0])
                if m0 == 0 and m3 == 0:
                    allowed = 5 + (1 if ct in (1, 2) else 0)
                    if n > allowed:
                        out.append((idx, ty, n, allowed))
            pos = p
            idx += 1
    except (ValueError, IndexError):
        pass
    return out


def crc_bitwise(width, poly_reflected, data):
    ''' bit-at-a-time reflected CRC, init = xorout = all ones (independent of the crcmod stub) '''
    mask = (1 << width) - 1
    c = mask
    for b in data:
        for i in range(8):
            bit = (b >> i) & 1
            if (c & 1) != bit:
                c = (c >> 1) ^ poly_reflected
            else:
                c >>= 1
    return c ^ mask


def crc_octets(ct, data):
    if ct == 1:
        return crc_bitwise(16, 0x8408, data).to_bytes(2, 'big')
    if ct == 2:
        return crc_bitwise(32, 0x82F63B78, data).to_bytes(4, 'big')
    raise ValueError('crc type %r' % ct)


def octet_crc_verdict(data):
    ''' Independent verdict over the *received octets*: (all_valid, detail list per block).
    A block is valid when: crc type 0 and no CRC item (primary 8/10 items, canonical 5), or crc
    type 1/2, the last item is a bstr of width 2/4 and equals the bitwise CRC of the block octets
    with that field zeroed. Anything not RFC 9171 shaped is invalid. '''
    try:
        blocks = split_blocks(data)
    except (ValueError, IndexError) as err:
        return False, ['shape:%s' % err]
    ok = True
    detail = []
    for i, blk in enumerate(blocks):
        n = len(blk['items'])
        ct = blk['crc_type']
        if i == 0:
            s, e = blk['items'][1]
            mt, flags, _ = cb_read_head(data, s)
            if mt != 0:
                return False, ['shape:flags']
            base = 8 + (2 if flags & 1 else 0)
        else:
            base = 5
        if ct == 0:
            good = n == base
            detail.append('none' if good else 'arity')
        elif ct in (1, 2):
            if n != base + 1:
                good = False
                detail.append('arity')
            else:
                s, e = blk['items'][-1]
                try:
                    mt, ln, p = cb_read_head(data, s)
                except (ValueError, IndexError):
                    mt, ln, p = None, 0, s
                if mt != 2 or ln != 2 * ct or p + ln != e or e != blk['end']:
                    good = False
                    detail.append('crcfield')
                else:
                    z = data[blk['start']:p] + bytes(ln)
                    good = crc_octets(ct, z) == data[p:e]
                    detail.append('ok' if good else 'mismatch')
        else:
            good = False
            detail.append('crctype')
        ok = ok and good
    return ok, detail


def reencoded_crc_audit(reenc, obs):
    ''' Independent recomputation of what check_all_crc() has to say about a *decoded* bundle:
    reenc = the real re-encoding of the decoded object, obs = its decoded field values. For every block
    with CRC type 1/2 the decoded CRC value must be the bit-at-a-time CRC of the block's re-encoding
    with a zeroed CRC field of the right width; with CRC type 0 there must be no value.
    Returns the list of failing block indexes with a reason ([] = every block is fine or the
    re-encoding is not block-shaped, which other monitors deal with). '''
    if reenc is None:
        return []
    try:
        blocks = split_blocks(reenc)
    except (ValueError, IndexError):
        return []
    vals = [obs['primary']] + list(obs['blocks'])
    if len(vals) != len(blocks):
        return []
    bad = []
    for i, (blk, v) in enumerate(zip(blocks, vals)):
        ct, crc = v['crc_type'], v['crc']
        if ct == 0:
            if crc is not None:
                bad.append((i, 'crc type 0 with a value'))
            continue
        if ct not in (1, 2):
            continue
        if crc is None:
            bad.append((i, 'no CRC value'))
            continue
        if len(crc) != 4 * ct:
            bad.append((i, 'CRC value of %d octets' % (len(crc) // 2)))
            continue
        s, _e = blk['items'][-1]
        z = reenc[blk['start']:s] + cb_bstr(bytes(2 * ct))
        if crc_octets(ct, z).hex() != crc:
            bad.append((i, 'CRC value %s, CRC of the re-encoded block %s' % (crc, crc_octets(ct, z).hex())))
    return bad


# ---------------------------------------------------------------- EIDs

def eid_uri(e):
    if e[0] == 'none':
        return 'dtn:none'
    if e[0] == 'dtn':
        return 'dtn:' + e[1]
    return 'ipn:' + '.'.join(str(p) for p in e[1])


def eid_json(e):
    if e[0] == 'none':
        return {'none': True}
    if e[0] == 'dtn':
        return {'dtn': e[1].encode('utf8').hex()}
    return {'ipn': list(e[1])}


def eid_cbor(e):
    if e[0] == 'none':
        return cb_arr([cb_uint(1), cb_uint(0)])
    if e[0] == 'dtn':
        return cb_arr([cb_uint(1), cb_tstr(e[1])])
    return cb_arr([cb_uint(2), cb_arr([cb_uint(p) for p in e[1]])])


def eid_from_json(j):
    ''' Lean's answer -> URI text (bytes that are not UTF-8 come back as None) '''
    if 'none' in j:
        return 'dtn:none'
    if 'dtn' in j:
        try:
            return 'dtn:' + bytes.fromhex(j['dtn']).decode('utf8')
        except UnicodeDecodeError:
            return None
    return 'ipn:' + '.'.join(str(p) for p in j['ipn'])


NAME_CHARS = 'abcdefghijklmnopqrstuvwxyz0123456789-._~'
PATH_CHARS = NAME_CHARS + "!$&'()*+,;=:@%AZ"


def gen_int(rng, hi=U64):
    r = rng.random()
    if r < 0.55:
        v = rng.choice(BOUNDS)
    elif r < 0.8:
        v = rng.randrange(0, 1000)
    else:
        v = rng.randrange(0, hi + 1)
    return min(v, hi)


def gen_len(rng, big=False):
    r = rng.random()
    if r < 0.5:
        return rng.choice(LEN_BOUNDS)
    if big and r < 0.53:
        return rng.choice([65535, 65536, 65537])
    return rng.randrange(0, 64)


def gen_name(rng, n, chars=NAME_CHARS):
    return ''.join(rng.choice(chars) for _ in range(n))


def gen_eid(rng):
    r = rng.random()
    if r < 0.12:
        return ('none',)
    if r < 0.45:
        k = rng.random()
        if k < 0.08:
            parts = [gen_int(rng)]
        elif k < 0.8:
            parts = [gen_int(rng), gen_int(rng)]
        else:
            parts = [gen_int(rng), gen_int(rng), gen_int(rng)]
        return ('ipn', parts)
    # dtn: fixed points of the urlsplit round trip: //authority/path…, or a path-only ssp
    k = rng.random()
    if k < 0.1:
        ssp = '~' + gen_name(rng, rng.randrange(1, 12))
    elif k < 0.15:
        ssp = gen_name(rng, rng.randrange(1, 8), 'abcxyz') + '/' + gen_name(rng, rng.randrange(0, 8))
        if ssp == 'none':
            ssp = 'nonee'
    else:
        host = gen_name(rng, rng.randrange(1, 14))
        want = gen_len(rng)
        tail = ''
        if rng.random() < 0.7:
            room = max(0, want - len(host) - 3)
            segs = []
            while room > 0 and len(segs) < 4:
                n = rng.randrange(1, room + 1) if rng.random() < 0.5 else room
                segs.append(gen_name(rng, n, PATH_CHARS))
                room -= n + 1
            tail = '/'.join(segs)
            if rng.random() < 0.15:
                tail += 'é中'
            # RFC 9171 demux = *VCHAR: '?' and '#' are ordinary demux characters
            r2 = rng.random()
            if r2 < 0.12:
                tail += '?' + gen_name(rng, rng.randrange(0, 6), PATH_CHARS + '?#/')
            elif r2 < 0.2:
                tail += '#' + gen_name(rng, rng.randrange(0, 6), PATH_CHARS + '?#/')
        ssp = '//' + host + '/' + tail
    return ('dtn', ssp)


# ---------------------------------------------------------------- status reports (RFC 9171 §6.1.1)

def gen_status_report(rng, max_time=U64):
    infos = []
    for _ in range(4):
        st = rng.random() < 0.5
        at = None
        if st and rng.random() < 0.6:
            at = gen_int(rng, max_time)
        infos.append((st, at))
    rep = {'infos': infos, 'reason': rng.choice([0, 1, 2, 3, 4, 5, 6, 7, 8, 9, 10, 12, 13, 14, 15, 16]),
           'src': gen_eid(rng), 'time': gen_int(rng, max_time), 'seq': gen_int(rng), 'frag': None}
    if rng.random() < 0.35:
        rep['frag'] = (gen_int(rng), gen_int(rng))
    return rep


def status_report_cbor(rep):
    ''' admin record [1, [status-info*4, reason, source EID, [time, seq], (offset, length)]] '''
    infos = []
    for st, at in rep['infos']:
        it = [b'\xf5' if st else b'\xf4']
        if at is not None:
            it.append(cb_uint(at))
        infos.append(cb_arr(it))
    body = [cb_arr(infos), cb_uint(rep['reason']), eid_cbor(rep['src']),
            cb_arr([cb_uint(rep['time']), cb_uint(rep['seq'])])]
    if rep['frag'] is not None:
        body += [cb_uint(rep['frag'][0]), cb_uint(rep['frag'][1])]
    return cb_arr([cb_uint(1), cb_arr(body)])


# ---------------------------------------------------------------- bundle specs

# ---------------------------------------------------------------- BPSec abstract security block (RFC 9172 §3.6)

def gen_secval(rng):
    if rng.random() < 0.4:
        return ('u', gen_int(rng))
    return ('b', bytes(rng.randrange(256) for _ in range(gen_len(rng) % 40)))


def gen_pairs(rng, lo=0):
    n = rng.choice([lo, lo, 1, 1, 2, 3]) if lo == 0 else rng.choice([1, 1, 2, 3])
    return [(gen_int(rng, 255) if rng.random() < 0.8 else gen_int(rng), gen_secval(rng)) for _ in range(n)]


def gen_asb(rng, empty_results=None):
    ''' targets, context id, flags (bit 0 = parameters present), source EID, parameters, one result array per
    target — a target may have an empty result array (e.g. BCB-AES-GCM with the tag in the ciphertext) '''
    nt = rng.choice([1, 1, 1, 2, 3, 0, 24])
    flags = rng.choice([0, 1, 1])
    if rng.random() < 0.1:
        flags |= rng.choice([2, 4, 0x100])
    asb = {'targets': [gen_int(rng, 255) for _ in range(nt)], 'ctx': gen_int(rng), 'flags': flags,
           'source': gen_eid(rng), 'params': gen_pairs(rng, 0) if flags & 1 else [], 'results': []}
    for _ in range(nt):
        r = rng.random()
        if empty_results is True or (empty_results is None and r < 0.3):
            asb['results'].append([])
        else:
            asb['results'].append(gen_pairs(rng, 1))
    return asb


def secval_cbor(v):
    return cb_uint(v[1]) if v[0] == 'u' else cb_bstr(v[1])


def pairs_cbor(ps):
    return cb_arr([cb_arr([cb_uint(k), secval_cbor(v)]) for k, v in ps])


def asb_cbor(asb):
    ''' the CBOR sequence (no enclosing array) of RFC 9172 §3.6 '''
    out = [cb_arr([cb_uint(t) for t in asb['targets']]), cb_uint(asb['ctx']), cb_uint(asb['flags']),
           eid_cbor(asb['source'])]
    if asb['flags'] & 1:
        out.append(pairs_cbor(asb['params']))
    out.append(cb_arr([pairs_cbor(r) for r in asb['results']]))
    return b''.join(out)


def asb_json(asb):
    def pj(ps):
        return [{'id': k, 'v': ({'u': v[1]} if v[0] == 'u' else {'b': v[1].hex()})} for k, v in ps]
    return {'targets': asb['targets'], 'ctx': asb['ctx'], 'flags': asb['flags'], 'source': eid_json(asb['source']),
            'params': pj(asb['params']), 'results': [pj(r) for r in asb['results']]}


def asb_observable(asb):
    def po(ps):
        return [(k, v[1] if v[0] == 'u' else v[1].hex()) for k, v in ps]
    return {'targets': list(asb['targets']), 'ctx': asb['ctx'], 'flags': asb['flags'],
            'source': eid_uri(asb['source']), 'params': po(asb['params']) if asb['flags'] & 1 else None,
            'results': [po(r) for r in asb['results']]}


def lean_asb_observable(j):
    if j is None:
        return None

    def po(ps):
        return [(p['id'], p['v']['u'] if 'u' in p['v'] else p['v']['b']) for p in ps]
    return {'targets': j['targets'], 'ctx': j['ctx'], 'flags': j['flags'], 'source': eid_from_json(j['source']),
            'params': po(j['params']) if j['flags'] & 1 else None, 'results': [po(r) for r in j['results']]}


def real_asb(asb, ty):
    R = real()
    from bp.encoding.bpsec import TypeValuePair, TargetResultList, BlockIntegrityBlock, BlockConfidentialityBlock

    def pl(ps):
        return [TypeValuePair(type_code=k, value=v[1]) for k, v in ps]
    cls = BlockIntegrityBlock if ty == 11 else BlockConfidentialityBlock
    kw = dict(targets=list(asb['targets']), context_id=asb['ctx'], context_flags=asb['flags'],
              source=eid_uri(asb['source']), results=[TargetResultList(results=pl(r)) for r in asb['results']])
    if asb['flags'] & 1:
        kw['parameters'] = pl(asb['params'])
    return cls(**kw)


def real_asb_observable(pay):
    ''' parsed security block payload -> plain values; a result list that is not a packet shows as the
    Python value it is (None under a broken dissector) '''
    def po(lst):
        out = []
        for p in lst or []:
            v = p.getfieldval('value')
            out.append((p.getfieldval('type_code'), v.hex() if isinstance(v, bytes) else v))
        return out
    flags = int(pay.getfieldval('context_flags'))
    res = []
    for r in pay.getfieldval('results') or []:
        res.append(po(r.getfieldval('results')) if hasattr(r, 'getfieldval') else repr(r))
    return {'targets': list(pay.getfieldval('targets') or []), 'ctx': pay.getfieldval('context_id'), 'flags': flags,
            'source': pay.getfieldval('source'),
            'params': po(pay.getfieldval('parameters')) if flags & 1 else None, 'results': res}


def gen_nonrecord_payload(rng):
    ''' payloads a PAYLOAD_ADMIN bundle may legitimately carry that are not a dissectable administrative
    record: later fragments of a record, a status report with a reason code newer than the code's enum,
    unknown record types, ciphertext that happens to be valid CBOR, truncated records '''
    rep = gen_status_report(rng, 2 ** 40)
    full = status_report_cbor(rep)
    k = rng.randrange(9)
    if k == 0:
        rep['reason'] = rng.choice([11, 17, 24, 255, 256])
        return 'unknown-reason', status_report_cbor(rep)
    if k == 1:
        # a later fragment, cut at an item boundary of the record
        cuts = []
        p = 1
        while p < len(full):
            try:
                q = cb_skip(full, p)
            except (ValueError, IndexError):
                break
            cuts.append(p)
            if q >= len(full):
                break
            _mt, _n, p2 = cb_read_head(full, p)
            p = p2 if full[p] >> 5 == 4 else q
        c = rng.choice(cuts[1:] or [1])
        return 'later-fragment', full[c:]
    if k == 2:
        return 'first-fragment-truncated', full[:rng.randrange(1, len(full))]
    if k == 3:
        return 'other-record-type', cb_arr([cb_uint(rng.choice([2, 3, 24, 65536])), cb_arr([cb_uint(1), cb_bstr(b'xy')])])
    if k == 4:
        return 'scalar', rng.choice([b'\x05', b'\x18\x20', b'\x20', b'\xf4', b'\xf5', b'\xf6', b'\xf7', b'\x63abc', b'\x42hi',
                                     b'\xfb\x3f\xf0\x00\x00\x00\x00\x00\x00', b'\xa0', b'\xa1\x01\x02', b'\xc1\x00'])
    if k == 5:
        return 'short-array', rng.choice([b'\x80', b'\x81\x01', b'\x82\x01\x80', b'\x82\x01\x05', b'\x82\x01\x81\x80',
                                          b'\x82\x01\x82\x80\x00', b'\x82\x80\x80', b'\x82\xf6\xf6', b'\x9f\xff', b'\x82\x01\x9f\xff'])
    if k == 6:
        return 'foreign-serialisation', cb_reserialise(rng, full)
    if k == 7:
        return 'ciphertext', bytes(rng.randrange(256) for _ in range(rng.randrange(0, 40)))
    return 'extra-items', b'\x83' + full[1:] + b'\x07'


def foreign_btsd(rng, blk):
    ''' BTSD of a known block type as a different encoder could have produced it: (kind, octets) '''
    ex = blk.get('extra')
    if ex and ex['kind'] == 'prevnode' and rng.random() < 0.4:
        host = gen_name(rng, rng.randrange(1, 9))
        ssp = rng.choice(['//' + host, '//' + host + '?q', '///' + host, '//' + host + '\t/x', 'no\tne'])
        return 'eid-text-not-normal', cb_arr([cb_uint(1), cb_tstr(ssp)])
    return 'reserialised', cb_reserialise(rng, blk['btsd'])


def gen_btsd(rng, ty, big=False):
    ''' (btsd bytes, extra) for a block of type ty; extra describes known payload classes '''
    if ty == 6:
        e = gen_eid(rng)
        return eid_cbor(e), {'kind': 'prevnode', 'eid': e}
    if ty == 7:
        a = gen_int(rng)
        return cb_uint(a), {'kind': 'age', 'age': a}
    if ty == 10:
        l, c = gen_int(rng, 255), gen_int(rng)
        return cb_arr([cb_uint(l), cb_uint(c)]), {'kind': 'hopcount', 'limit': l, 'count': c}
    if ty in (11, 12):
        asb = gen_asb(rng)
        return asb_cbor(asb), {'kind': 'asb', 'asb': asb, 'type': ty}
    n = gen_len(rng, big)
    return bytes(rng.randrange(256) for _ in range(n)) if n < 4096 else bytes([rng.randrange(256)]) * n, None


def gen_crc_value(rng, ct):
    w = 2 * ct
    r = rng.random()
    if r < 0.8:
        return bytes(rng.randrange(256) for _ in range(w))
    if r < 0.9:
        return bytes(w)
    return bytes(rng.randrange(256) for _ in range(rng.choice([0, 1, 3, 5, 8])))


def gen_bundle(rng, index=0, big=False, crc_mode=None, force_crc=False, max_time=U64, nblocks=None, sec=True):
    ''' crc_mode: 'update' (CRC values computed by update_all_crc) or 'given' (arbitrary values) '''
    if crc_mode is None:
        crc_mode = 'update' if rng.random() < 0.6 else 'given'
    # all 512 combinations of the defined flags are enumerated by index; sometimes unknown bits too
    combo = index % 512
    flags = 0
    for i, bit in enumerate(PRIMARY_FLAG_BITS):
        if combo >> i & 1:
            flags |= bit
    if rng.random() < 0.1:
        flags |= rng.choice([0x8, 0x80, 0x100000, 1 << 40])
    frag = bool(flags & F_FRAG)
    admin = bool(flags & F_ADMIN)
    ct = rng.choice([0, 1, 2]) if not force_crc else rng.choice([1, 2])
    pri = {'version': 7 if rng.random() < 0.93 else gen_int(rng), 'flags': flags, 'crc_type': ct,
           'dest': gen_eid(rng), 'src': gen_eid(rng), 'rpt': gen_eid(rng),
           'time': gen_int(rng, max_time), 'seq': gen_int(rng), 'lifetime': gen_int(rng),
           'frag_off': gen_int(rng) if frag else 0, 'total_len': gen_int(rng) if frag else 0,
           'crc': None}
    if ct and crc_mode == 'given':
        pri['crc'] = gen_crc_value(rng, ct)
    blocks = []
    nums = list(range(2, 40 + (nblocks or 0))) + [255, 256, 65536, 2 ** 32]
    rng.shuffle(nums)
    n_ext = rng.choice([0, 0, 1, 1, 2, 3, 5])
    if nblocks is not None:
        n_ext = nblocks
    types = [6, 7, 10, 6, 7, 10, 192, 193, 23, 24, 255, 256, 65536, U64] + ([11, 12, 11, 12] if sec else [])
    for k in range(n_ext):
        ty = rng.choice(types)
        btsd, extra = gen_btsd(rng, ty, big)
        bct = rng.choice([0, 1, 2])
        combo_b = (index // 3 + k) % 16
        bflags = sum(bit for i, bit in enumerate(BLOCK_FLAG_BITS) if combo_b >> i & 1)
        blk = {'type': ty, 'num': nums.pop(), 'flags': bflags, 'crc_type': bct, 'btsd': btsd,
               'crc': gen_crc_value(rng, bct) if (bct and crc_mode == 'given') else None,
               'extra': extra}
        blocks.append(blk)
    pct = rng.choice([0, 1, 2]) if not (force_crc and ct == 0) else rng.choice([1, 2])
    pay = {'type': 1, 'num': 1, 'flags': rng.choice([0, 0, 1, 4]), 'crc_type': pct, 'extra': None,
           'crc': gen_crc_value(rng, pct) if (pct and crc_mode == 'given') else None}
    if admin:
        rep = gen_status_report(rng, max_time)
        pay['btsd'] = status_report_cbor(rep)
        pay['extra'] = {'kind': 'status', 'rep': rep}
    else:
        pay['btsd'], _ = gen_btsd(rng, 1, big)
    blocks.append(pay)
    return {'primary': pri, 'blocks': blocks, 'crc_mode': crc_mode}


def hx(d):
    return None if d is None else bytes(d).hex()


def spec_json(spec):
    ''' the JSON form the Lean driver takes '''
    p = spec['primary']
    return {
        'primary': {'version': p['version'], 'flags': p['flags'], 'crc_type': p['crc_type'],
                    'dest': eid_json(p['dest']), 'src': eid_json(p['src']), 'rpt': eid_json(p['rpt']),
                    'time': p['time'], 'seq': p['seq'], 'lifetime': p['lifetime'],
                    'frag_off': p['frag_off'], 'total_len': p['total_len'], 'crc': hx(p['crc'])},
        'blocks': [{'type': b['type'], 'num': b['num'], 'flags': b['flags'], 'crc_type': b['crc_type'],
                    'btsd': hx(b['btsd']), 'crc': hx(b['crc'])} for b in spec['blocks']],
    }


def spec_observable(spec):
    ''' field values as the decoded real object should show them '''
    p = spec['primary']
    return {
        'primary': {'version': p['version'], 'flags': p['flags'], 'crc_type': p['crc_type'],
                    'dest': eid_uri(p['dest']), 'src': eid_uri(p['src']), 'rpt': eid_uri(p['rpt']),
                    'time': p['time'], 'seq': p['seq'], 'lifetime': p['lifetime'],
                    'frag_off': p['frag_off'], 'total_len': p['total_len'], 'crc': hx(p['crc'])},
        'blocks': [{'type': b['type'], 'num': b['num'], 'flags': b['flags'], 'crc_type': b['crc_type'],
                    'btsd': hx(b['btsd']), 'crc': hx(b['crc'])} for b in spec['blocks']],
    }


def lean_observable(j):
    ''' Lean bundle JSON -> same shape as spec_observable '''
    if j is None:
        return None
    p = j['primary']
    q = dict(p)
    for k in ('dest', 'src', 'rpt'):
        q[k] = eid_from_json(p[k])
    return {'primary': q, 'blocks': [dict(b) for b in j['blocks']]}


def spec_rfc_bytes(spec):
    ''' third, Python-side encoder from RFC 9171 (used for the malformed stream and as a cross-check) '''
    p = spec['primary']
    items = [cb_uint(p['version']), cb_uint(p['flags']), cb_uint(p['crc_type']), eid_cbor(p['dest']),
             eid_cbor(p['src']), eid_cbor(p['rpt']), cb_arr([cb_uint(p['time']), cb_uint(p['seq'])]),
             cb_uint(p['lifetime'])]
    if p['flags'] & F_FRAG:
        items += [cb_uint(p['frag_off']), cb_uint(p['total_len'])]
    if p['crc_type']:
        items.append(cb_optbstr(p['crc']))
    out = [cb_arr(items)]
    for b in spec['blocks']:
        items = [cb_uint(b['type']), cb_uint(b['num']), cb_uint(b['flags']), cb_uint(b['crc_type']),
                 cb_optbstr(b['btsd'])]
        if b['crc_type']:
            items.append(cb_optbstr(b['crc']))
        out.append(cb_arr(items))
    return b'\x9f' + b''.join(out) + b'\xff'


# ---------------------------------------------------------------- real objects

_REAL = {}


def repo_root():
    import os
    return os.environ.get('VERIF_REPO', '/repo')


def real():
    ''' import the repository's classes once (after boot) '''
    if not _REAL:
        import boot
        boot.boot()
        from bp.encoding import Bundle, PrimaryBlock, CanonicalBlock
        from bp.encoding.blocks import Timestamp, PreviousNodeBlock, BundleAgeBlock, HopCountBlock
        from bp.encoding.admin import AdminRecord, StatusReport, StatusInfoArray, StatusInfo
        _REAL.update(locals())
    return _REAL


def real_status_report(rep):
    R = real()
    names = ['received', 'forwarded', 'delivered', 'deleted']
    infos = {}
    for name, (st, at) in zip(names, rep['infos']):
        kw = {'status': st}
        if at is not None:
            kw['at'] = at
        infos[name] = R['StatusInfo'](**kw)
    kw = dict(status=R['StatusInfoArray'](**infos), reason_code=rep['reason'],
              subj_source=eid_uri(rep['src']),
              subj_ts=R['Timestamp'](dtntime=rep['time'], seqno=rep['seq']))
    if rep['frag'] is not None:
        kw['fragment_offset'] = rep['frag'][0]
        kw['payload_len'] = rep['frag'][1]
    return R['AdminRecord'](type_code=1) / R['StatusReport'](**kw)


def real_bundle(spec, use_payload_classes=True, admin_as_object=True):
    ''' Build the real Bundle from a spec. Known block types are attached as payload objects
    (the BTSD is then produced by the repository's own classes); admin records likewise, in which case
    the PAYLOAD_ADMIN flag is removed from the constructor arguments — Bundle sets it itself. '''
    R = real()
    p = spec['primary']
    flags = p['flags']
    admin_obj = False
    blocks = []
    for b in spec['blocks']:
        kw = dict(type_code=b['type'], block_num=b['num'], block_flags=b['flags'], crc_type=b['crc_type'])
        if b['crc'] is not None:
            kw['crc_value'] = b['crc']
        ex = b.get('extra')
        pay = None
        if ex and use_payload_classes:
            if ex['kind'] == 'prevnode':
                pay = R['PreviousNodeBlock'](node=eid_uri(ex['eid']))
            elif ex['kind'] == 'age':
                pay = R['BundleAgeBlock'](age=ex['age'])
            elif ex['kind'] == 'hopcount':
                pay = R['HopCountBlock'](limit=ex['limit'], count=ex['count'])
            elif ex['kind'] == 'asb':
                pay = real_asb(ex['asb'], ex['type'])
            elif ex['kind'] == 'status' and admin_as_object:
                pay = real_status_report(ex['rep'])
                admin_obj = True
        if pay is None:
            kw['btsd'] = b['btsd']
            blocks.append(R['CanonicalBlock'](**kw))
        else:
            blocks.append(R['CanonicalBlock'](**kw) / pay)
    if admin_obj:
        flags &= ~F_ADMIN
    kw = dict(bp_version=p['version'], bundle_flags=flags, crc_type=p['crc_type'],
              destination=eid_uri(p['dest']), source=eid_uri(p['src']), report_to=eid_uri(p['rpt']),
              create_ts=R['Timestamp'](dtntime=p['time'], seqno=p['seq']), lifetime=p['lifetime'])
    if p['flags'] & F_FRAG:
        kw['fragment_offset'] = p['frag_off']
        kw['total_app_data_len'] = p['total_len']
    if p['crc'] is not None:
        kw['crc_value'] = p['crc']
    return R['Bundle'](primary=R['PrimaryBlock'](**kw), blocks=blocks)


def real_observable(bundle):
    ''' decoded real object -> same shape as spec_observable (observable field values only) '''
    pri = bundle.primary
    ts = pri.getfieldval('create_ts')
    out = {'primary': {
        'version': pri.getfieldval('bp_version'), 'flags': int(pri.getfieldval('bundle_flags')),
        'crc_type': int(pri.getfieldval('crc_type')),
        'dest': pri.getfieldval('destination'), 'src': pri.getfieldval('source'),
        'rpt': pri.getfieldval('report_to'),
        'time': ts.getfieldval('dtntime'), 'seq': ts.getfieldval('seqno'),
        'lifetime': pri.getfieldval('lifetime'),
        'frag_off': pri.getfieldval('fragment_offset'), 'total_len': pri.getfieldval('total_app_data_len'),
        'crc': hx(pri.fields.get('crc_value'))}, 'blocks': []}
    for blk in bundle.blocks:
        out['blocks'].append({
            'type': blk.getfieldval('type_code'), 'num': blk.getfieldval('block_num'),
            'flags': int(blk.getfieldval('block_flags')), 'crc_type': int(blk.getfieldval('crc_type')),
            'btsd': hx(blk.fields.get('btsd')), 'crc': hx(blk.fields.get('crc_value'))})
    return out


def real_status_observable(blk):
    ''' the decoded admin record of a payload block as plain values, or None '''
    R = real()
    adm = blk.payload
    if not isinstance(adm, R['AdminRecord']):
        return None
    rep = adm.payload
    if not isinstance(rep, R['StatusReport']):
        return {'type': adm.getfieldval('type_code'), 'other': True}
    arr = rep.getfieldval('status')
    infos = []
    for name in ['received', 'forwarded', 'delivered', 'deleted']:
        si = arr.getfieldval(name)
        infos.append((bool(si.getfieldval('status')), si.fields.get('at')))
    ts = rep.getfieldval('subj_ts')
    fo, pl = rep.fields.get('fragment_offset'), rep.fields.get('payload_len')
    return {'infos': infos, 'reason': int(rep.getfieldval('reason_code')),
            'src': rep.getfieldval('subj_source'), 'time': ts.getfieldval('dtntime'),
            'seq': ts.getfieldval('seqno'), 'frag': None if fo is None else (fo, pl)}


def spec_status_observable(rep):
    return {'infos': [(st, at) for st, at in rep['infos']], 'reason': rep['reason'],
            'src': eid_uri(rep['src']), 'time': rep['time'], 'seq': rep['seq'], 'frag': rep['frag']}


def in_subset(seen):
    ''' decoded real field values are of the kinds the model supports (uint < 2^64, text EIDs, octets) '''
    def u(v):
        return isinstance(v, int) and not isinstance(v, bool) and 0 <= v <= U64
    p = seen['primary']
    if not all(u(p[k]) for k in ('version', 'flags', 'crc_type', 'time', 'seq', 'lifetime', 'frag_off', 'total_len')):
        return False
    for k in ('dest', 'src', 'rpt'):
        if not isinstance(p[k], str):
            return False
        if p[k].startswith('ipn:') and not re.match(r'^ipn:[0-9]+([.][0-9]+)*$', p[k]):
            return False
    for b in seen['blocks']:
        if not all(u(b[k]) for k in ('type', 'num', 'flags', 'crc_type')):
            return False
    return True


# ---------------------------------------------------------------- a real agent

class _FakeObj(object):
    def connect_to_signal(self, *a, **k):
        pass

    def NameHasOwner(self, name):
        return False


class _FakeBus(object):
    def get_object(self, *a, **k):
        return _FakeObj()


def boot_agent(node_id='dtn://node/', path='/a'):
    ''' A real bp.agent.Agent with the admin and fragment applications, one catch-all rx route. '''
    real()
    import bp.config
    import bp.app.base  # noqa
    import bp.app.admin  # noqa
    import bp.app.fragment  # noqa
    import bp.agent
    config = bp.config.Config(node_id=node_id)
    config._bus_conn = _FakeBus()
    agent = bp.agent.Agent(config, bus_kwargs=dict(conn=None, object_path=path))
    config.rx_route_table.append(bp.config.RxRouteItem(eid_pattern=re.compile('.*'), action='deliver'))
    return agent


class FakeCl(object):
    ''' stands for a bound convergence layer adaptor: records what the agent hands over '''

    def __init__(self):
        self.sent = []

    def send_bundle_func(self, _raw_config):
        return lambda data: self.sent.append(bytes(data))


def agent_tx_route(agent, mtu, cl_type='verif'):
    ''' one catch-all TX route with the given MTU over a recording CL; returns the recorder '''
    import bp.config
    cl = FakeCl()
    agent._cl_agent[cl_type] = cl
    del agent._config.tx_route_table[:]
    agent._config.tx_route_table.append(bp.config.TxRouteItem(
        eid_pattern=re.compile('.*'), next_nodeid='dtn://next/', cl_type=cl_type, mtu=mtu))
    return cl


def agent_run_idle(agent, limit=200):
    ''' fire pending idle sources (fragments and reports are sent from idle callbacks) '''
    from gi.repository import GLib
    n = 0
    while n < limit:
        pend = GLib.LOOP.pending('idle')
        if not pend:
            break
        GLib.LOOP.fire(pend[0])
        n += 1
    return n


def agent_snapshot(agent):
    ''' everything a received bundle could touch, as comparable plain data '''
    from gi.repository import GLib
    import dbus.service
    apps = {}
    for name, app in sorted(agent._app.items()):
        st = {}
        for k, v in sorted(vars(app).items()):
            if k.startswith('_verif') or k in ('_logger', '_agent', '_config', '_app_name', '_bus_kwargs'):
                continue
            if isinstance(v, (dict, list, set)):
                st[k] = len(v)
        apps[name] = st
    return {
        'seen': sorted(repr(i) for i in agent._seen_bundle_ident),
        'sources': sorted(GLib.LOOP.sources.keys()),
        'fwd': len(agent._fwd_queue), 'tx': len(agent._tx_queue),
        'dbus': len(dbus.service.LOG),
        'signals': len(getattr(agent, '_verif_signals', [])),
        'apps': apps,
    }


def agent_reset(agent):
    from gi.repository import GLib
    agent._seen_bundle_ident.clear()
    del agent._fwd_queue[:]
    del agent._tx_queue[:]
    GLib.LOOP.sources.clear()
