''' C01 — TCPCL delivers every queued bundle exactly once, intact and in order. '''
import json

import tcpcl_scen as sc
import tcpcl_monitors as tm

MODULE = 'DtnVerif.Props.C01'


def run(chk):
    chk.prove(MODULE)
    rng, tier = chk.rng, chk.tier
    n = 60 if tier == 'quick' else 1200
    chk.cov['rule'] = ('two real ContactHandler endpoints joined by simulated sockets; a case = one seeded schedule: random segment sizes/MRUs, '
                       '0-12 bundles per run (lengths biased to 0, 1, seg±1, k·seg, 10240±1), user sends/pops/queries interleaved with '
                       'process-queue, TX-pump (partial sends 1..CHUNK) and RX (chunks 1..CHUNK) events in random order until quiescent; '
                       'non-trivial = at least one bundle queued; distinct by event lists')
    sims = []
    for i in range(n):
        sim, sent, meta = sc.run_scenario(rng, 'transfer', tier)
        nontriv = bool(sent['a'] or sent['b'])
        chk.case({'cfg': [meta['cfg_a'], meta['cfg_b']], 'lens': [[len(d) for d in sent['a']], [len(d) for d in sent['b']]],
                  'events': len(sim.log), 'h': hash(json.dumps(sim.a.events) + json.dumps(sim.b.events))}, nontrivial=nontriv, sample=(i < 3))
        for d in sent['a'] + sent['b']:
            chk.count('len:%s' % ('0' if len(d) == 0 else '1' if len(d) == 1 else '<=300' if len(d) <= 300 else 'big'))
        chk.count('quiescent' if meta['quiescent'] else 'budget-exhausted')
        bad = tm.mon_c01(sim, sent, expect_complete=meta['quiescent'])
        for (i2, who, ev, cls) in tm.escapes(sim):
            bad.append(('C01:escape-%s-%s' % (cls, ev['e']), 'exception %s escapes the %s callback of %s' % (cls, ev['e'], who)))
        sc.report(chk, 'C01', bad, sim, sent, meta)
        sims.append((sim, 'transfer %d' % i))
        if len(sims) >= 40:
            sc.compare_with_model(chk, sims)
            sims = []
    sc.compare_with_model(chk, sims)
    chk.assumptions += ['TLS disabled (policy part is C15); GLib priorities not imposed: any order of enabled sources is explored',
                        'timers disabled in C01 runs (keepalive = idle = 0); C14 covers them']


def replay(chk, path):
    print('replay: re-run ./check C01 with VERIF_SEED from the replay file; event lists are in', path)
    return 0
