''' C01 — TCPCL delivers every queued bundle exactly once, intact and in order. '''
import json

import tcpcl_scen as sc
import tcpcl_monitors as tm

MODULE = ['DtnVerif.Props.C01', 'DtnVerif.Props.C01Bound']


def run(chk):
    chk.prove(MODULE)
    rng, tier = chk.rng, chk.tier
    n = 60 if tier == 'quick' else 1200
    chk.cov['rule'] = ('two real ContactHandler endpoints joined by simulated sockets; a case = one seeded schedule: random segment sizes/MRUs, '
                       '0-12 bundles per run (lengths biased to 0, 1, seg±1, k·seg, 10240±1), user sends/pops/queries interleaved with '
                       'process-queue, TX-pump (partial sends 1..CHUNK) and RX (chunks 1..CHUNK) events in random order until quiescent; '
                       'non-trivial = at least one bundle queued; distinct by event lists')
    sims = []
    for i in range(n):
        # the first few schedules of every run use the protocol's largest segment sizes on both sides
        # (negotiated TX segment size at and beyond 2^63), the rest draw their configuration at random
        ext = None
        if i < 4:
            ext = [{'seg_init': [2 ** 63 - 1, 2 ** 63, 2 ** 64 - 1, 2 ** 64 - 1][(i + k) % 4], 'seg_mru': [2 ** 63, 2 ** 64 - 1][(i + k) % 2]} for k in (0, 1)]
        sim, sent, meta = sc.run_scenario(rng, 'transfer', tier, cfg_a=ext and ext[0], cfg_b=ext and ext[1],
                                          nqueries=rng.choice([0, 2, 6]), npops=rng.choice([0, 1, 2, 6]))
        nontriv = bool(sent['a'] or sent['b'])
        chk.case({'cfg': [meta['cfg_a'], meta['cfg_b']], 'lens': [[len(d) for d in sent['a']], [len(d) for d in sent['b']]],
                  'events': len(sim.log), 'h': hash(json.dumps(sim.a.events) + json.dumps(sim.b.events))}, nontrivial=nontriv, sample=(i < 3))
        for d in sent['a'] + sent['b']:
            chk.count('len:%s' % ('0' if len(d) == 0 else '1' if len(d) == 1 else '<=300' if len(d) <= 300 else 'big'))
        chk.count('quiescent' if meta['quiescent'] else 'budget-exhausted')
        bad = tm.mon_c01(sim, sent, expect_complete=meta['quiescent'])
        for (i2, who, ev, cls) in tm.escapes(sim):
            bad.append(('C01:escape-%s-%s' % (cls, ev['e']), 'exception %s escapes the %s callback of %s' % (cls, ev['e'], who)))
        # what the user can see and take between the segments of a transfer: only completed bundles
        for (sig, what) in tm.mon_c18_queues(sim):
            if sig in ('C18:rx-queue-mismatch', 'C18:pop-twice'):
                bad.append((sig.replace('C18:', 'C01:'), what))
        for ep in sim.eps():
            peer = 'b' if ep.name == 'a' else 'a'
            for tid, d in ep.popped.items():
                if 1 <= tid <= len(sent[peer]) and d != sent[peer][tid - 1]:
                    bad.append(('C01:popped-incomplete-or-wrong-data', '%s popped transfer %d and got %d octets, the bundle has %d'
                                % (ep.name, tid, len(d), len(sent[peer][tid - 1]))))
        sc.report(chk, 'C01', bad, sim, sent, meta)
        sims.append((sim, 'transfer %d' % i))
        if len(sims) >= 40:
            sc.compare_with_model(chk, sims)
            sims = []
    sc.compare_with_model(chk, sims)
    # many waiting bundles: the receive queue must list them in arrival order (ids of differing digit counts)
    sims = []
    for i in range(4 if tier == 'quick' else 40):
        sim = sc.ts.Sim(sc.gen_cfg(rng), sc.gen_cfg(rng))
        for ep in sim.eps():
            ep.popped = {}
        sim.establish(rng)
        sent = {'a': [], 'b': []}
        meta = {'cfg_a': sim.a.cfg, 'cfg_b': sim.b.cfg, 'flavour': 'many-waiting', 'term': [], 'hard': False, 'quiescent': False}
        k = rng.choice([11, 12, 15, 23]) if tier == 'quick' else rng.choice([11, 21, 101, 120])
        for who in ('a', 'b') if rng.random() < 0.5 else ('a',):
            ep = sim.a if who == 'a' else sim.b
            for j in range(k):
                d = bytes([j % 251]) * rng.choice([0, 1, 2, 3])
                sim.send(ep, d)
                sent[who].append(d)
                if rng.random() < 0.3:
                    sim.step_random(rng)
        meta['quiescent'] = sim.run_quiescent(rng, limit=60000)
        bad = []
        for ep in sim.eps():
            if ep.closed():
                continue
            sim.query(ep, 'rxq')
            order = [tm.arg(a[0]) for (_i, _n, a) in tm.signals(sim, ep.name, 'recv_bundle_finished')]
            got = ep.obs[-1]['ret'].get('ss') if ep.obs[-1].get('ret') else None
            if got != order:
                bad.append(('C01:receive-queue-not-in-arrival-order', '%s lists its receive queue as %s; the bundles finished in the order %s'
                            % (ep.name, str(got)[:120], str(order)[:120])))
            # drain in listed order: the data must come out in the order it was queued by the peer
            peer = 'b' if ep.name == 'a' else 'a'
            out = []
            for tid in (got or []):
                sim.pop(ep, int(tid))
                r = ep.obs[-1].get('ret')
                out.append(bytes.fromhex(r['b']) if r and 'b' in r else None)
                if out[-1] is not None:
                    ep.popped[int(tid)] = out[-1]
            if out != sent[peer] and got == order:
                bad.append(('C01:reordered-or-corrupted', 'popping %s\'s queue in listed order gives other data than was queued' % ep.name))
        bad += tm.mon_c01(sim, sent, expect_complete=meta['quiescent'])
        chk.case({'many_waiting': k, 'lens': [len(sent['a']), len(sent['b'])], 'events': len(sim.log)})
        chk.count('many-waiting')
        sc.report(chk, 'C01', bad, sim, sent, meta)
        sims.append((sim, 'many-waiting %d' % i))
    sc.compare_with_model(chk, sims)
    chk.assumptions += ['TLS disabled (policy part is C15); GLib priorities not imposed: any order of enabled sources is explored',
                        'timers disabled in C01 runs (keepalive = idle = 0); C14 covers them']


def replay(chk, path):
    print('replay: re-run ./check C01 with VERIF_SEED from the replay file; event lists are in', path)
    return 0
