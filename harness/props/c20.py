''' C20 — BTP-U messages round-trip and segmented transfers reassemble.

Proof: DtnVerif.Props.C20 (model DtnVerif.Model.Btpu).
Correspondence (real `btpu.agent.Agent` and `btpu.messages`, in-process, no sockets, no D-Bus):
  * `_send_transfer(item)` frame lists vs `btpu.send` (an endless generator included);
  * `MessageSet(data)` dissection (types, flags, lengths, hint chains, payloads, rest) and
    `bytes(MessageSet(data))` vs `btpu.decode`;
  * `_recv_msg(None, data, conv)` sequences vs `btpu.recv`: exception escaped / not per frame,
    `recv_bundle_get_queue`, `recv_bundle_pop_data`, `recv_bundle_finished` signals.
Monitors (pure Python, own BTP-U reader/writer, nothing from the repository): every frame ≤ MTU;
segment data by index = bundle, indices 0..n-1, only the last is a TransferEnd, declared lengths =
actual; every frame the agent builds decodes to the same messages and re-encodes to itself;
exactly one queued copy once every segment has arrived, nothing before.
An MTU too small to segment must fail with nothing sent. An endless generator would be reported as
`C20:mtu-too-small-nonterminating`, a one-segment transfer that is not queued as
`C20:end-index-zero-never-completes`; a step bound keeps the check from hanging.
'''
import itertools
import json
import signal
import socket
import sys
from io import BytesIO

import boot

CHANS = [('eth0', '02-00-00-00-00-02', '02-00-00-00-00-01'), ('eth0', '02-00-00-00-00-03', '02-00-00-00-00-01'),
         ('eth1', '02-00-00-00-00-02', '02-00-00-00-00-01')]

# ---------------------------------------------------------------- independent BTP-U (monitors)
def mk_frame(mtype, hints, payload, flags=None, length=None, hflags=None):
    hb = b''
    for i, (t, d) in enumerate(hints):
        h = (1 if i < len(hints) - 1 else 0) if hflags is None else hflags[i]
        hb += bytes([(t << 1) | h, len(d) & 0xff]) + d
    if flags is None:
        flags = 8 if hints else 0
    if length is None:
        length = len(hb) + len(payload)
    return bytes([mtype, (flags << 4) | ((length >> 16) & 0xf), (length >> 8) & 0xff, length & 0xff]) + hb + payload


def seg_frame(total, xfer, idx, is_end, chunk):
    return mk_frame(4 if is_end else 3, [(0, total.to_bytes(4, 'big'))],
                    xfer.to_bytes(4, 'big') + idx.to_bytes(4, 'big') + chunk)


def rd_frames(buf):
    ''' strict reader: [(type, flags, [(htype, data)], payload)], padding; None if not exact '''
    out, p = [], 0
    while p < len(buf) and buf[p] != 0:
        if p + 4 > len(buf):
            return None
        mtype, flags = buf[p], buf[p + 1] >> 4
        length = ((buf[p + 1] & 0xf) << 16) | (buf[p + 2] << 8) | buf[p + 3]
        p += 4
        end = p + length
        if end > len(buf):
            return None
        hints = []
        if flags & 8:
            while True:
                if p + 2 > end:
                    return None
                t, hl = buf[p], buf[p + 1]
                if p + 2 + hl > end:
                    return None
                hints.append((t >> 1, bytes(buf[p + 2:p + 2 + hl])))
                p += 2 + hl
                if not t & 1:
                    break
        out.append((mtype, flags, hints, bytes(buf[p:end])))
        p = end
    return out, bytes(buf[p:])


# ---------------------------------------------------------------- the implementation under test
class Hang(Exception):
    pass


def _on_vtalrm(_sig, _frm):
    raise Hang()


def guarded(fn, secs):
    old = signal.signal(signal.SIGVTALRM, _on_vtalrm)
    oldhook = sys.unraisablehook
    sys.unraisablehook = lambda _u: None
    signal.setitimer(signal.ITIMER_VIRTUAL, secs, 0.01)
    try:
        return fn()
    finally:
        signal.setitimer(signal.ITIMER_VIRTUAL, 0)
        signal.signal(signal.SIGVTALRM, old)
        sys.unraisablehook = oldhook


def chan_str(c):
    return '%s|%s|%s' % tuple(c)


class FakeEthSock(object):
    ''' stands in for the AF_PACKET socket: recvfrom returns the prepared Ethernet frame; send records '''

    def __init__(self, ifname='eth0', mac='02-00-00-00-00-01', sink=None):
        self.ifname, self.mac = ifname, mac
        self.next = None
        self.sent = sink if sink is not None else []

    def recvfrom(self, datalen):
        frame, src = self.next
        return frame[:datalen], (self.ifname, 0x88b5, socket.PACKET_HOST, 1, src)

    def getsockname(self):
        return (self.ifname, 0x88b5, 0, 1, bytes(int(x, 16) for x in self.mac.split('-')))

    def send(self, frame):
        self.sent.append(bytes(frame)[14:])

    def setsockopt(self, *a, **k):
        pass

    def fileno(self):
        return -1

    def close(self):
        pass


class Rig(object):
    def __init__(self):
        boot.boot()
        import btpu.agent as ba
        import btpu.config as bc
        import btpu.messages as bm
        import macaddress
        from gi.repository import GLib
        self.ba, self.bc, self.bm, self.mac, self.glib = ba, bc, bm, macaddress, GLib

    def agent(self, mtu=None):
        self.glib.LOOP.reset()
        cfg = self.bc.Config()
        cfg._bus_conn = object()
        cfg.mtu_default = mtu
        return self.ba.Agent(cfg, bus_kwargs=dict(conn=None, object_path='/y'))

    def send(self, xfer, data, mtu, bound):
        ''' iterate _send_transfer(item), at most `bound` frames →
        ('ok', frames) | ('failed', exception class, frames before it) | ('endless', frames) | ('cpu', None) '''
        ag = self.agent(mtu)
        item = self.ba.BundleItem(address='02-00-00-00-00-09', file=BytesIO(data), transfer_id=xfer, total_length=len(data))
        out = []

        def take():
            gen = ag._send_transfer(item)
            for f in itertools.islice(gen, bound):
                out.append(bytes(f))
            return next(gen, None) is not None
        try:
            more = guarded(take, 60.0)
        except Hang:
            return ('cpu', None)       # inconclusive: CPU bound hit before the step bound
        except Exception as err:   # noqa: escaped exception class is the observable
            return ('failed', type(err).__name__, out)
        return ('endless', out) if more else ('ok', out)

    def process_tx(self, xfer, data, mtu, bound):
        ''' the transfer through send_bundle_data and the idle source it registers, with a recording socket →
        (payloads of the Ethernet frames sent, escaped exception class or None, endless?) '''
        ag = self.agent(mtu)
        sent = []

        class Stop(Exception):
            pass

        class FakeSock(object):
            def send(self, frame):
                sent.append(bytes(frame)[14:])
                if len(sent) > bound:
                    raise Stop()

            def fileno(self):
                return -1

            def close(self):
                pass

        orig = self.ba.EthernetChannel.make_local_socket
        self.ba.EthernetChannel.make_local_socket = lambda _self: FakeSock()
        try:
            ag._tx_id = xfer         # the next transfer number (input set-up); everything else is the agent's own path
            got_id = []

            def go():
                got_id.append(ag.send_bundle_data(list(data), {'address': '02-00-00-00-00-09', 'local_if': 'veth0'}))
                n = 0
                while self.glib.LOOP.pending('idle') and n < 50:
                    for src in self.glib.LOOP.pending('idle'):
                        self.glib.LOOP.fire(src)
                        n += 1
            try:
                guarded(go, 60.0)
            except Stop:
                return sent, None, True
            except Hang:
                return sent, 'cpu', False
            except Exception as err:   # noqa
                return sent, type(err).__name__, False
            esc = [type(e).__name__ for (_s, e) in self.glib.LOOP.escaped]
            if any(e == 'Stop' for e in esc):
                return sent, None, True
            if esc:
                return sent, esc[0], False
            if got_id != [str(xfer)]:
                return sent, 'id:%s' % got_id, False
            return sent, None, False
        finally:
            self.ba.EthernetChannel.make_local_socket = orig

    def send_several(self, n, size, mtu):
        ''' n bundles through send_bundle_data on ONE agent, idle sources fired → (ids returned, transfer numbers
        seen in the frames of each, escaped) '''
        ag = self.agent(mtu)
        sent = []

        class FakeSock(object):
            def send(self, frame):
                sent.append(bytes(frame)[14:])

            def fileno(self):
                return -1

            def close(self):
                pass

        orig = self.ba.EthernetChannel.make_local_socket
        self.ba.EthernetChannel.make_local_socket = lambda _self: FakeSock()
        try:
            ids, nums = [], []
            for k in range(n):
                del sent[:]
                try:
                    ids.append(str(ag.send_bundle_data(list(payload(size, k)), {'address': '02-00-00-00-00-09', 'local_if': 'veth0'})))
                    c = 0
                    while self.glib.LOOP.pending('idle') and c < 50:
                        for src in self.glib.LOOP.pending('idle'):
                            self.glib.LOOP.fire(src)
                            c += 1
                except Exception as err:   # noqa
                    return ids, nums, type(err).__name__
                nums.append(sorted(set(int.from_bytes(f[10:14], 'big') for f in sent if len(f) >= 18 and f[0] in (3, 4))))
            esc = [type(e).__name__ for (_s, e) in self.glib.LOOP.escaped]
            return ids, nums, (esc[0] if esc else None)
        finally:
            self.ba.EthernetChannel.make_local_socket = orig

    def build(self, specs, as_set):
        ''' build messages with the scapy classes the agent uses: specs = [(kind, hints, fields, data)] with
        kind in bundle|seg|end|pad, hints = [(type, data)] → octets (or {'raised': class}) '''
        bm = self.bm
        from scapy.packet import Raw
        try:
            msgs = []
            for (kind, hints, fields, data) in specs:
                hs = [(bm.HintHead(hint_type=t) / Raw(d)) if d else bm.HintHead(hint_type=t) for (t, d) in hints]
                head = bm.MessageHead(hints=hs) if hs else bm.MessageHead()
                if kind == 'bundle':
                    msgs.append(head / bm.BundlePdu(data))
                elif kind == 'pad':
                    msgs.append(head / bm.DefinitePadding(data))
                else:
                    cls = bm.TransferEnd if kind == 'end' else bm.TransferSeg
                    msgs.append(head / cls(xfer_num=fields[0], seg_idx=fields[1]) / Raw(data))
            if as_set:
                return bytes(bm.MessageSet(msgs=msgs))
            return b''.join(bytes(m) for m in msgs)
        except Exception as err:   # noqa
            return {'raised': type(err).__name__}

    def decode(self, data):
        ''' MessageSet(data) → canonical dict, or {'outside': True} when scapy fell back to Raw '''
        bm = self.bm
        try:
            pkt = bm.MessageSet(data)
        except Exception as err:   # noqa
            return {'raised': type(err).__name__}
        msgs = []
        for m in pkt.msgs:
            if not isinstance(m, bm.MessageHead):
                return {'outside': True}
            hints = []
            for h in m.hints:
                if not isinstance(h, bm.HintHead):
                    return {'outside': True}
                hints.append({'type': int(h.hint_type), 'h': bool(h.h_flag), 'length': int(h.length), 'hex': bytes(h.payload).hex()})
            pl = m.payload
            if isinstance(pl, (bm.TransferSeg, bm.TransferEnd)):
                body = {'kind': 'end' if isinstance(pl, bm.TransferEnd) else 'seg', 'xfer': int(pl.xfer_num),
                        'idx': int(pl.seg_idx), 'hex': bytes(pl.payload).hex()}
            elif isinstance(pl, bm.BundlePdu):
                body = {'kind': 'bundle', 'hex': bytes(pl.load).hex()}
            elif not bytes(pl):
                body = {'kind': 'nothing'}
            else:
                body = {'kind': 'other'}
            msgs.append({'type': int(m.msg_type), 'flags': int(m.flags), 'length': int(m.length), 'hints': hints,
                         'payload': bytes(pl).hex(), 'body': body})
        return {'msgs': msgs, 'rest': bytes(pkt.payload).hex(), 'reenc': bytes(pkt).hex()}

    def deliver(self, ag, via, chan, data):
        ''' hand one frame payload to the agent: directly to `_recv_msg`, or as an Ethernet frame through the socket
        callback `_sock_recvfrom` → 'done' | 'raised:<class>' | 'hang' | 'stopped-listening' '''
        ifn, peer, local = chan

        def mac(x):
            return bytes(int(b, 16) for b in x.split('-'))

        def go():
            if via == 'sock':
                sock = FakeEthSock(ifn, local)
                sock.next = (mac(local) + mac(peer) + b'\x88\xb5' + data, mac(peer))
                return ag._sock_recvfrom(sock)
            conv = self.ba.EthernetChannel(local_if=ifn, peer_address=self.mac.EUI48(peer), local_address=self.mac.EUI48(local))
            ag._recv_msg(None, data, conv)
            return True
        try:
            keep = guarded(go, 5.0)
        except Hang:
            return 'hang'
        except Exception as err:   # noqa
            return 'raised:' + type(err).__name__
        return 'done' if keep else 'stopped-listening'

    def recv(self, frames, fire_timers=False, via='direct'):
        ag = self.agent(None)
        outs, snaps = [], []
        for f in frames:
            if f.get('fire'):   # fire the oldest pending timeout first (timing scenario)
                pend = self.glib.LOOP.pending('timeout')
                if pend:
                    self.glib.LOOP.fire(pend[0])
            outs.append(self.deliver(ag, via, f['chan'], bytes.fromhex(f['hex'])))
            snaps.append(len(ag.recv_bundle_get_queue()))
        sigs = {}
        for (_p, name, _sig, args) in ag._verif_signals:
            if name == 'recv_bundle_finished':
                sigs[str(args[0])] = (int(args[1]), dict(args[2]))
        queue = []
        for bid in list(ag.recv_bundle_get_queue()):
            data = bytes(ag.recv_bundle_pop_data(bid))
            ln, meta = sigs.get(str(bid), (None, {}))
            queue.append({'id': int(bid), 'addr': meta.get('address'), 'len': ln, 'hex': data.hex()})
        stale = 0
        pending = len(ag._rx_progres)
        if fire_timers:
            for src in list(self.glib.LOOP.pending('timeout')):
                _ran, exc = self.glib.LOOP.fire(src)
                if isinstance(exc, KeyError):
                    stale += 1
        return outs, snaps, queue, pending, stale


# ---------------------------------------------------------------- send side
def payload(n, salt=0):
    body = bytes(((i * 13 + salt) % 251) + 1 for i in range(n))
    return (b'\x9f' + body[1:]) if n else b''


def send_monitors(xfer, data, mtu, frames):
    out = []
    if mtu is not None:
        big = [len(f) for f in frames if len(f) > mtu]
        if big:
            out.append(('C20:frame-over-mtu', 'frame of %d octets for MTU %d' % (big[0], mtu)))
    parsed = []
    for f in frames:
        r = rd_frames(f)
        if r is None or len(r[0]) != 1 or r[1]:
            if len(f) - 4 >= 2 ** 20:
                out.append(('C20:length-field-wraps', 'frame of %d octets: the 20-bit length field says %d, the frame does not '
                            'decode to its message' % (len(f), (len(f) - 4) % 2 ** 20)))
            else:
                out.append(('C20:frame-declared-length-wrong', f[:24].hex()))
            return out
        parsed.append(r[0][0])
    if mtu is None or len(data) + 4 < mtu:
        if len(parsed) != 1 or parsed[0][0] != 2 or parsed[0][2] or parsed[0][3] != data:
            out.append(('C20:single-frame-altered', 'bundle fits but is not one Bundle PDU'))
        return out
    got = b''
    for i, (mtype, _flags, hints, pl) in enumerate(parsed):
        last = i == len(parsed) - 1
        if mtype != (4 if last else 3):
            out.append(('C20:segment-type-wrong', 'segment %d of %d has type %d' % (i, len(parsed), mtype)))
        if hints != [(0, len(data).to_bytes(4, 'big'))]:
            out.append(('C20:segment-hint-wrong', repr(hints)))
        if len(pl) < 9 or int.from_bytes(pl[:4], 'big') != xfer or int.from_bytes(pl[4:8], 'big') != i:
            out.append(('C20:segment-index-wrong', 'segment %d: %s' % (i, pl[:8].hex())))
            return out
        got += pl[8:]
    if got != data:
        out.append(('C20:segments-do-not-concatenate', '%d octets for a bundle of %d' % (len(got), len(data))))
    return out


def send_cases(chk):
    rng = chk.rng
    thorough = chk.tier == 'thorough'
    cases = []
    lens = {0, 1, 2, 13, 14, 15, 16, 17, 18, 19, 20, 40, 100, 255, 256, 257, 1000, 1500, 4000, 65535, 65536, 65537}
    for L in sorted(lens):
        mtus = {L + 2, L + 3, L + 4, L + 5, L + 6, 0, 4, 5, 17, 18, 19, 20, 21, 22, 40, 100, 1500}
        for k in (2, 3, 7):        # the last segment exactly full / one octet short / one over
            if L >= k:
                mtus |= {18 + L // k, 18 + L // k + 1, 18 + (L + k - 1) // k}
        for m in sorted(mtus):
            nseg = 1 if L + 4 < m else (L // (m - 18) + 1 if m > 18 else 0)
            if nseg > (20000 if thorough else 1500):
                continue
            if nseg > 300 and rng.random() > (0.3 if thorough else 0.1):
                continue
            for xfer in ([0, 1, 2 ** 32 - 1] if L in (20, 100, 256) else [rng.choice([0, 7, 300, 2 ** 32 - 1])]):
                cases.append((xfer, L, m))
    for L in ((2 ** 20 - 5, 2 ** 20 - 4, 2 ** 20 - 1, 2 ** 20) if thorough else (2 ** 20 - 1, 2 ** 20)):
        cases.append((1, L, None))
        cases.append((1, L, 2 ** 20 + 8))
        cases.append((1, L, 9000))
    cases.append((1, 2 ** 20 + 4, 2 ** 20 + 8))       # segmented with mtu - 4 >= 2^20
    cases.append((1, 2 ** 20 + 9, 2 ** 20 + 3))       # segmented, largest MTU whose frames still fit the length field
    cases.append((5, 200, None))
    for _ in range(600 if thorough else 80):
        L = rng.choice([rng.randrange(0, 300), rng.randrange(0, 5000)])
        m = rng.choice([None, rng.randrange(0, 60), rng.randrange(19, 1600), L + rng.randrange(0, 8)])
        cases.append((rng.randrange(0, 2 ** 32), L, m))
    return cases


def run_send(chk, rig, cases):
    reqs, obs = [], []
    for (xfer, L, m) in cases:
        data = payload(L, xfer % 7)
        small = m is not None and L + 4 >= m and m <= 18          # independent arithmetic
        toolong = (m is None or L + 4 < m) and L >= 2 ** 20       # one PDU that the 20-bit length cannot declare
        rem = min(m - 18, 2 ** 20 - 15) if m is not None else 0
        expect = 1 if (m is None or L + 4 < m) else ((L + rem - 1) // rem if m > 18 else 0)
        res = rig.send(xfer, data, m, expect + 5 if not small else 50)
        ptx = rig.process_tx(xfer, data, m, expect + 5 if not small else 50) if (small or toolong or (expect <= 300 and L < 2 ** 19)) else None
        reqs.append({'op': 'btpu.send', 'xfer': xfer, 'data': data.hex(), **({} if m is None else {'mtu': m})})
        obs.append((xfer, data, m, res, small or toolong, ptx))
    answers = chk.driver(reqs) if reqs else []
    for (xfer, data, m, res, small, ptx), ans in zip(obs, answers):
        rep = {'kind': 'send', 'xfer': xfer, 'data': data.hex() if len(data) <= 64 else None, 'len': len(data),
               'salt': xfer % 7, 'mtu': m}
        chk.case({'xfer': xfer, 'len': len(data), 'mtu': m}, nontrivial=True,
                 sample=(m is not None and 30 < len(data) < 300 and len(data) + 4 >= m > 18))
        chk.cov['traces_validated_against_impl'] += 1
        if res[0] == 'cpu':
            chk.count('send:cpu-bound-hit-inconclusive')
            continue
        if res[0] == 'endless':
            chk.count('send:endless')
            chk.corr_break('the _send_transfer generator does not end (the model always does)', rep)
            chk.violation('C20:mtu-too-small-nonterminating',
                          '_send_transfer(xfer=%d, %d octets) with mtu_default=%s: remain_size=%s, the generator yields '
                          'frames without end (stopped after %d frames; first frames carry %s data octets)'
                          % (xfer, len(data), m, ans.get('remain'), len(res[1]), [len(f) - 18 for f in res[1][:3]]), rep)
            continue
        if res[0] == 'failed':
            chk.count('send:failed-%s' % res[1])
            if not ans.get('failed'):
                chk.corr_break('_send_transfer raised %s where the model produces frames' % res[1], rep)
            if res[2]:
                chk.violation('C20:frames-before-failure', '%d frames were yielded before %s' % (len(res[2]), res[1]), rep)
            if not small:
                chk.violation('C20:send-fails-although-mtu-suffices',
                              '_send_transfer(xfer=%d, %d octets, mtu_default=%s) raised %s although mtu > 18 or the bundle fits one PDU < 2^20'
                              % (xfer, len(data), m, res[1]), rep)
            frames = None
        else:
            frames = res[1]
            chk.count('send:single' if (m is None or len(data) + 4 < m) else
                      'send:segments-%s' % ('0-1' if len(frames) <= 1 else '2-6' if len(frames) <= 6 else '7-99' if len(frames) < 100 else '100+'))
            if small and len(data) >= 2 ** 20 and (m is None or len(data) + 4 < m):
                chk.violation('C20:length-field-wraps',
                              'a bundle of %d octets (>= 2^20) with mtu_default=%s is sent as one Bundle PDU whose 20-bit length field '
                              'says %d: the frame does not decode to the bundle' % (len(data), m, len(data) % 2 ** 20), rep)
            elif small:
                chk.violation('C20:mtu-too-small-not-failed', 'mtu_default=%s leaves no room for data but %d frames were produced'
                              % (m, len(frames)), rep)
            if ans.get('failed'):
                chk.corr_break('model fails where _send_transfer produces %d frames' % len(frames), rep)
            elif [f.hex() for f in frames] != ans.get('frames'):
                chk.corr_break('frame lists differ (impl %d, model %d frames)' % (len(frames), len(ans.get('frames', []))), rep)
        if ptx is not None:
            sent, esc, endless = ptx
            chk.count('tx-queue:cases')
            if endless:
                chk.violation('C20:mtu-too-small-nonterminating', '_process_tx_queue keeps sending frames for xfer=%d, %d octets, mtu_default=%s'
                              % (xfer, len(data), m), rep)
            elif esc != 'cpu' and (esc is not None or [f.hex() for f in sent] != ans.get('sent')):
                chk.corr_break('_process_tx_queue differs: escaped %s, %d frames sent (model %d)' % (esc, len(sent), len(ans.get('sent', []))), rep)
            if esc == 'cpu':
                chk.count('tx-queue:cpu-bound-hit-inconclusive')
            elif esc is not None and not endless:
                chk.violation('C20:send-path-raises', 'send_bundle_data / the idle callback ended with %s for xfer=%d, %d octets, mtu_default=%s'
                              % (esc, xfer, len(data), m), rep)
            if small and sent and not endless:
                chk.violation('C20:length-field-wraps' if len(data) >= 2 ** 20 and m != 0 and (m is None or m > 18) else 'C20:mtu-too-small-not-failed',
                              'mtu_default=%s: nothing may be sent but _process_tx_queue sent %d frames' % (m, len(sent)), rep)
            if not small and not sent and esc is None and not endless and frames:
                chk.violation('C20:queued-transfer-never-sent', 'send_bundle_data returned but no frame went out for xfer=%d, %d octets, mtu_default=%s '
                              '(nothing pending in the loop)' % (xfer, len(data), m), rep)
        if frames is None:
            continue
        for sig, what in send_monitors(xfer, data, m, frames):
            chk.violation(sig, what, rep)
        # what the agent built must decode to the same messages and re-encode to itself
        for f in frames[:3] + frames[-2:]:
            if len(f) - 4 >= 2 ** 20:
                continue            # already reported as C20:length-field-wraps
            d = rig.decode(f)
            r = rd_frames(f)
            if d.get('reenc') != f.hex() or r is None or 'msgs' not in d or len(d['msgs']) != 1 or \
                    d['msgs'][0]['length'] != len(f) - 4 or \
                    [(h['type'], h['hex']) for h in d['msgs'][0]['hints']] != [(t, x.hex()) for (t, x) in r[0][0][2]] or \
                    d['msgs'][0]['payload'] != r[0][0][3].hex():
                chk.violation('C20:built-frame-does-not-roundtrip', f[:40].hex(), rep)
                break


def run_send_ids(chk, rig):
    ''' transfers of one agent must not share a transfer number: a receiver keys its reassembly on it '''
    for (n, size, mtu) in ((3, 60, 40), (5, 100, 30)):
        ids, nums, esc = rig.send_several(n, size, mtu)
        rep = {'kind': 'send-ids', 'n': n, 'size': size, 'mtu': mtu}
        chk.case(rep, nontrivial=True)
        chk.count('send:series')
        if esc is not None:
            chk.violation('C20:send-path-raises', 'send_bundle_data / the idle callback raised %s' % esc, rep)
        elif any(len(x) == 0 for x in nums):
            chk.violation('C20:queued-transfer-never-sent', 'send_bundle_data returned ids %s but no segment frame went out for some of them' % ids, rep)
        elif len(set(ids)) != len(ids) or any(len(x) != 1 for x in nums) or [str(x[0]) for x in nums] != ids:
            chk.violation('C20:tx-id-reused', 'send_bundle_data returned ids %s; transfer numbers in the frames: %s — segments of different '
                          'bundles would be reassembled into one transfer' % (ids, nums), rep)


# ---------------------------------------------------------------- codec
def codec_frames(chk):
    rng = chk.rng
    out = []
    n = 3000 if chk.tier == 'thorough' else 500
    for _ in range(n):
        msgs = b''
        for _m in range(rng.randrange(1, 4)):
            hints = [(rng.randrange(0, 128), bytes(rng.randrange(1, 256) for _x in range(rng.choice([0, 1, 4, 30]))))
                     for _h in range(rng.choice([0, 0, 1, 2, 3]))]
            mtype = rng.choice([1, 2, 2, 3, 4, 5, 9, 255])
            pl = bytes(rng.randrange(0, 256) for _x in range(rng.choice([0, 1, 7, 8, 9, 20, 300])))
            kw = {}
            r = rng.random()
            if r < 0.08:
                kw['flags'] = rng.randrange(0, 16)
            elif r < 0.16:
                kw['length'] = rng.randrange(0, 400)
            elif r < 0.20 and hints:
                kw['hflags'] = [rng.randrange(0, 2) for _h in hints]
            msgs += mk_frame(mtype, hints, pl, **kw)
        msgs += rng.choice([b'', b'', b'\x00', b'\x00\x00\x02\x00\x00\x01\x61', b'\x00' * 7])
        if rng.random() < 0.1:
            msgs = msgs[:rng.randrange(0, len(msgs) + 1)]
        out.append(msgs)
    # head-size corner: declared length at the 16-bit carry
    out.append(mk_frame(2, [], bytes([7]) * 65536))
    out.append(mk_frame(2, [], bytes([7]) * 65535))
    return out


def run_codec(chk, rig, frames):
    reqs = [{'op': 'btpu.decode', 'hex': f.hex()} for f in frames]
    answers = chk.driver(reqs)
    for f, ans in zip(frames, answers):
        d = rig.decode(f)
        chk.case({'hex': f[:60].hex(), 'n': len(f)}, nontrivial=len(f) > 4)
        chk.cov['traces_validated_against_impl'] += 1
        rep = {'kind': 'codec', 'hex': f.hex() if len(f) < 600 else f[:600].hex()}
        if d.get('outside') or ans.get('outside'):
            chk.count('codec:outside-model')
            if bool(d.get('outside')) != bool(ans.get('outside')):
                chk.corr_break('scapy fell back to Raw: %s, model outside: %s' % (bool(d.get('outside')), bool(ans.get('outside'))), rep)
            continue
        if 'raised' in d:
            chk.corr_break('MessageSet raised %s' % d['raised'], rep)
            continue
        strict = rd_frames(f)
        chk.count('codec:exact' if strict is not None else 'codec:inexact-lengths')
        am = [{k: v for k, v in m.items() if k != 'exact'} for m in ans.get('msgs', [])]
        if am != d['msgs'] or ans.get('rest') != d['rest']:
            chk.corr_break('dissection differs: impl %s | model %s' % (json.dumps(d)[:300], json.dumps(ans)[:300]), rep)
        elif strict is not None:
            if not all(m['exact'] for m in ans['msgs']):
                chk.corr_break('model calls an exact frame inexact', rep)
            if ans.get('reenc') != f.hex():
                chk.corr_break('model re-encoding differs from the frame', rep)
            # independent monitors on the implementation: same messages, declared = actual, re-encode = frame
            if [(m['type'], m['flags'], [(h['type'], h['hex']) for h in m['hints']], m['payload']) for m in d['msgs']] != \
                    [(t, fl, [(ht, hd.hex()) for (ht, hd) in hs], pl.hex()) for (t, fl, hs, pl) in strict[0]] or d['rest'] != strict[1].hex():
                chk.violation('C20:valid-frame-decoded-differently', 'MessageSet disagrees with the independent reader', rep)
            if d['reenc'] != f.hex():
                chk.violation('C20:reencode-differs', 'bytes(MessageSet(frame)) != frame', rep)


def run_build(chk, rig):
    ''' encode direction: message sets built with the real classes (any hint list) vs the model's encoder
    and vs the independent writer/reader; then decoded again by the implementation. '''
    rng = chk.rng
    n = 2500 if chk.tier == 'thorough' else 400
    specs_all = []
    hint_shapes = [[], [4], [0], [4, 1], [0, 0], [1, 30, 2], [4, 4, 4], [255], [3, 0, 7, 1]]
    for i in range(n):
        specs = []
        for _m in range(rng.choice([1, 1, 2, 3])):
            shape = hint_shapes[i % len(hint_shapes)] if _m == 0 else rng.choice(hint_shapes)
            hints = [(rng.randrange(0, 128), bytes(rng.randrange(0, 256) for _x in range(k))) for k in shape]
            kind = rng.choice(['bundle', 'bundle', 'seg', 'end', 'pad'])
            data = bytes(rng.randrange(0, 256) for _x in range(rng.choice([1, 2, 9, 40, 300])))
            fields = (rng.choice([0, 1, 2 ** 32 - 1, rng.randrange(2 ** 32)]), rng.choice([0, 1, 255, 256, rng.randrange(2 ** 32)]))
            specs.append((kind, hints, fields, data))
        specs_all.append((specs, rng.random() < 0.5))
    reqs = []
    for specs, _as_set in specs_all:
        ms = []
        for (kind, hints, fields, data) in specs:
            pl = data if kind in ('bundle', 'pad') else fields[0].to_bytes(4, 'big') + fields[1].to_bytes(4, 'big') + data
            ms.append({'type': {'pad': 1, 'bundle': 2, 'seg': 3, 'end': 4}[kind], 'hints': [[t, d.hex()] for (t, d) in hints], 'payload': pl.hex()})
        reqs.append({'op': 'btpu.build', 'msgs': ms})
    answers = chk.driver(reqs)
    for (specs, as_set), req, ans in zip(specs_all, reqs, answers):
        out = rig.build(specs, as_set)
        rep = {'kind': 'build', 'msgs': req['msgs'], 'as_set': as_set}
        chk.case({'m': [(m['type'], [h[0] for h in m['hints']], len(m['payload']) // 2) for m in req['msgs']]}, nontrivial=True,
                 sample=any(len(m['hints']) >= 2 for m in req['msgs']))
        chk.cov['traces_validated_against_impl'] += 1
        chk.count('build:hints-%d' % max(len(m['hints']) for m in req['msgs']))
        if isinstance(out, dict):
            chk.corr_break('building raised %s' % out['raised'], rep)
            chk.violation('C20:build-raises', 'building a message set with the agent\'s message classes raised %s' % out['raised'], rep)
            continue
        if out.hex() != ans.get('hex'):
            chk.corr_break('built octets differ: impl %s model %s' % (out[:48].hex(), str(ans.get('hex'))[:96]), rep)
        want = [(m['type'], [(h[0], h[1]) for h in m['hints']], m['payload']) for m in req['msgs']]
        indep = b''.join(mk_frame(m['type'], [(h[0], bytes.fromhex(h[1])) for h in m['hints']], bytes.fromhex(m['payload'])) for m in req['msgs'])
        r = rd_frames(out)
        got = None if r is None else [(t, [(ht, hd.hex()) for (ht, hd) in hs], pl.hex()) for (t, _fl, hs, pl) in r[0]]
        if out != indep or got != want:
            chk.violation('C20:built-message-set-wrong',
                          'the octets built for %s do not read back (independent reader) as the same messages with declared = actual '
                          'lengths: got %s' % (str(want)[:200], str(got)[:200]), rep)
            continue
        d = rig.decode(out)
        dm = [(m['type'], [(h['type'], h['hex']) for h in m['hints']], m['payload']) for m in d.get('msgs', [])] if 'msgs' in d else None
        if dm != want or d.get('rest') != '':
            chk.violation('C20:built-frame-does-not-roundtrip', 'MessageSet(built octets) gives %s for %s' % (str(dm)[:200], str(want)[:200]), rep)


# ---------------------------------------------------------------- receive side
class Ref(object):
    ''' independent reference receiver: complete = end seen and every index 0..end present '''

    def __init__(self):
        self.part = {}
        self.queue = []

    def seg(self, chan, xfer, idx, is_end, chunk):
        st = self.part.setdefault((chan, xfer), {'end': None, 'segs': {}})
        if idx in st['segs']:
            return
        st['segs'][idx] = chunk
        if is_end:
            st['end'] = idx
        if st['end'] is not None and set(st['segs']) == set(range(st['end'] + 1)):
            del self.part[(chan, xfer)]
            self.queue.append((chan, b''.join(st['segs'][i] for i in range(st['end'] + 1))))

    def bundle(self, chan, data):
        self.queue.append((chan, data))


def split_chunks(rng, data, n):
    cuts = sorted(rng.sample(range(1, len(data)), n - 1)) if n > 1 else []
    cuts = [0] + cuts + [len(data)]
    return [data[cuts[i]:cuts[i + 1]] for i in range(n)]


def mk_scenario(rng, transfers, order, dup=0, compose=0.0, pad=0.0, extras=0):
    ''' transfers: [(chan, xfer, data, chunks)], order: [(ti, idx)] '''
    msgs = [('seg', transfers[ti][0], transfers[ti][1], len(transfers[ti][2]), si, si == len(transfers[ti][3]) - 1,
             transfers[ti][3][si]) for (ti, si) in order]
    for _ in range(dup):
        msgs.insert(rng.randrange(len(msgs) + 1), rng.choice(msgs))
    for i in range(extras):
        msgs.insert(rng.randrange(len(msgs) + 1), ('bundle', rng.choice(CHANS), payload(rng.randrange(1, 40), i)))
    frames, meta = [], []
    i = 0
    while i < len(msgs):
        grp = [msgs[i]]
        while i + len(grp) < len(msgs) and msgs[i + len(grp)][1] == grp[0][1] and rng.random() < compose:
            grp.append(msgs[i + len(grp)])
        i += len(grp)
        raw = b''
        for m in grp:
            raw += seg_frame(m[3], m[2], m[4], m[5], m[6]) if m[0] == 'seg' else mk_frame(2, [], m[2])
        if rng.random() < pad:
            raw += b'\x00' * rng.randrange(1, 5) + rng.choice([b'', b'\x02\x00\x00\x01\x61'])
        frames.append({'chan': list(grp[0][1]), 'hex': raw.hex()})
        meta.append([[m[0], list(m[1])] + ([m[2], m[4], m[5], m[6].hex()] if m[0] == 'seg' else [m[2].hex()]) for m in grp])
    return {'kind': 'recv', 'frames': frames, 'meta': meta, 'nodup': dup == 0,
            'bundles': [[list(t[0]), t[1], t[2].hex()] for t in transfers],
            'end0': any(len(t[3]) == 1 for t in transfers)}


def recv_monitors(sc, outs, snaps, queue):
    out = []
    meta = sc.get('meta')
    if meta is None:
        return out
    ref = Ref()
    refsnaps = []
    for grp in meta:
        for m in grp:
            if m[0] == 'seg':
                ref.seg(tuple(m[1]), m[2], m[3], m[4], bytes.fromhex(m[5]))
            else:
                ref.bundle(tuple(m[1]), bytes.fromhex(m[2]))
        refsnaps.append(len(ref.queue))
    sent = set(b[2] for b in sc.get('bundles', [])) | set(m[2] for g in meta for m in g if m[0] == 'bundle')
    for q in queue:
        if q['hex'] not in sent:
            out.append(('C20:queued-bundle-corrupt-or-partial', 'queued %d octets that are no bundle that was sent' % (len(q['hex']) // 2)))
            break
    if any(o != 'done' for o in outs):
        out.append(('C20:exception-on-wellformed-frame', repr([o for o in outs if o != 'done'][:2])))
    for i, (a, b) in enumerate(zip(snaps, refsnaps)):
        if a > b:
            out.append(('C20:queued-while-segments-missing', 'after frame %d: %d queued, %d complete' % (i, a, b)))
            break
        if a < b:
            sig = 'C20:end-index-zero-never-completes' if sc.get('end0') else 'C20:complete-transfer-not-queued'
            out.append((sig, 'after frame %d: %d queued, %d transfers complete (every segment 0..end received once)' % (i, a, b)))
            break
    if not out and [q['hex'] for q in queue] != [d.hex() for (_c, d) in ref.queue]:
        out.append(('C20:queue-order-or-content', 'queue differs from the reference receiver'))
    for q in queue:
        if q['len'] != len(q['hex']) // 2:
            out.append(('C20:signal-length-wrong', 'recv_bundle_finished length %s for %d octets' % (q['len'], len(q['hex']) // 2)))
            break
    return out


def recv_scenarios(chk, rig):
    rng = chk.rng
    thorough = chk.tier == 'thorough'
    scs = []
    for n in range(2, 7):
        data = payload(rng.choice([n, n + 3, 40, 300]), n)
        chunks = split_chunks(rng, data, n)
        tr = [(CHANS[0], 7, data, chunks)]
        perms = list(itertools.permutations(range(n)))
        if not thorough and len(perms) > 30:
            perms = rng.sample(perms, 30)
        for perm in perms:
            scs.append(mk_scenario(rng, tr, [(0, p) for p in perm]))
        for perm in (perms if thorough and n <= 5 else rng.sample(perms, min(len(perms), 12))):
            scs.append(mk_scenario(rng, tr, [(0, p) for p in perm], dup=rng.randrange(1, 4)))
    # the sender's own frames, shuffled
    for (L, m) in [(40, 30), (100, 19), (300, 100), (1500, 300), (5000, 1500), (70000, 9000)][:6 if thorough else 5]:
        data = payload(L, 3)
        res = rig.send(9, data, m, L + 5)
        if res[0] != 'ok' or len(res[1]) < 2:
            continue
        frames = res[1]
        chunks = [f[18:] for f in frames]
        for _ in range(6 if thorough else 2):
            order = list(range(len(chunks)))
            rng.shuffle(order)
            scs.append(mk_scenario(rng, [(CHANS[1], 9, data, chunks)], [(0, p) for p in order]))
    # 2-3 interleaved transfers / channels
    for _ in range(300 if thorough else 60):
        trs = []
        for t in range(rng.choice([2, 3])):
            chan = rng.choice(CHANS)
            xfer = rng.choice([1, 1, 2, 300, 2 ** 32 - 1])
            if any(x[0] == chan and x[1] == xfer for x in trs):
                continue
            n = rng.randrange(2, 6)
            data = payload(rng.randrange(n, 200), t * 5 + 1)
            trs.append((chan, xfer, data, split_chunks(rng, data, n)))
        order = [(ti, si) for ti, t in enumerate(trs) for si in range(len(t[3]))]
        rng.shuffle(order)
        scs.append(mk_scenario(rng, trs, order, dup=rng.choice([0, 0, 1, 3]), compose=rng.choice([0, 0.5, 0.9]),
                               pad=rng.choice([0, 0.5]), extras=rng.choice([0, 1, 2])))
    # data rich in zero octets (segments and frames end in 0x00; a zero octet only starts padding where a message would start)
    for n in (2, 3, 5):
        for data in (bytes(40), b'\x9f' + bytes(60) + b'\xff', bytes(0 if i % 3 == 2 else i % 250 + 1 for i in range(90))):
            chunks = split_chunks(rng, data, n)
            order = list(range(n))
            rng.shuffle(order)
            scs.append(mk_scenario(rng, [(CHANS[0], 12, data, chunks)], [(0, p) for p in order], compose=rng.choice([0, 0.7])))
    # a peer that sends a transfer of one segment (TransferEnd with index 0)
    for L in (1, 5):
        data = payload(L, 1)
        scs.append(mk_scenario(rng, [(CHANS[0], 3, data, [data])], [(0, 0)]))
    return scs


def malformed_scenarios(chk):
    ''' no reference monitor: escaped exceptions and queue must agree with the model '''
    ok1 = seg_frame(6, 4, 0, False, b'\x9f\x01\x02')
    ok2 = seg_frame(6, 4, 1, True, b'\x03\x04\xff')
    c = list(CHANS[0])
    scs = []
    for mid in (mk_frame(3, [], b'\x00\x00\x00\x04\x00\x00\x00\x05'),        # Transfer without data octets
                mk_frame(4, [(0, b'\x00\x00\x00\x06')], b'\x00\x00\x00\x04\x00\x00\x00\x01'),
                mk_frame(3, [], b'\x00\x00\x00\x04\x00'),                      # shorter than the Transfer header
                mk_frame(2, [], b''), mk_frame(1, [], b'\x00\x00'), mk_frame(5, [], b'\x00\x00\x00\x04'),
                mk_frame(9, [], b'abc'), mk_frame(2, [], b'abc', length=9), mk_frame(2, [(1, b'zz')], b'abc', length=1),
                mk_frame(4, [], b'\x00\x00\x00\x04\x00\x00\x00\x07' + b'q'),   # second, different end index
                mk_frame(3, [], b'\x00\x00\x00\x04\x00\x00\x00\x09' + b'q')):  # index beyond the end
        scs.append({'kind': 'recv', 'frames': [{'chan': c, 'hex': (ok1 + mid + ok2).hex()}, {'chan': c, 'hex': ok2.hex()},
                                               {'chan': c, 'hex': ok1.hex()}]})
        scs.append({'kind': 'recv', 'frames': [{'chan': c, 'hex': ok1.hex()}, {'chan': c, 'hex': mid.hex()}, {'chan': c, 'hex': ok2.hex()}]})
    for cut in range(1, len(ok2)):
        scs.append({'kind': 'recv', 'frames': [{'chan': c, 'hex': ok1.hex()}, {'chan': c, 'hex': ok2[:cut].hex()}, {'chan': c, 'hex': ok2.hex()}]})
    return scs


def run_recv(chk, rig, scs, label):
    reqs, obs = [], []
    for sc in scs:
        sc['via'] = sc.get('via') or ('sock' if (label == 'reasm' and len(reqs) % 2 == 1) else 'direct')
        outs, snaps, queue, pending, stale = rig.recv(sc['frames'], fire_timers=(label == 'reasm'), via=sc['via'])
        reqs.append({'op': 'btpu.recv', 'frames': [{'chan': chan_str(f['chan']), 'addr': f['chan'][1], 'hex': f['hex']} for f in sc['frames']]})
        obs.append((outs, snaps, queue, pending, stale))
    answers = chk.driver(reqs) if reqs else []
    for sc, (outs, snaps, queue, pending, stale), ans in zip(scs, obs, answers):
        nmsg = sum(len(g) for g in sc['meta']) if 'meta' in sc else len(sc['frames'])
        chk.case({'f': [f['hex'][:80] for f in sc['frames']][:12], 'n': len(sc['frames'])}, nontrivial=nmsg > 1,
                 sample=(label == 'reasm' and 3 <= nmsg <= 5))
        chk.cov['traces_validated_against_impl'] += 1
        chk.count('recv:%s' % label)
        chk.count('recv:queued-%d' % min(len(queue), 4))
        if stale:
            chk.count('timer:stale-timeout-KeyError-after-completion', stale)
        for o in outs:
            chk.count('recv:outcome-' + o)
        mo = ans.get('outcomes', [])
        if 'outside' in mo:
            chk.count('recv:outside-model')
        else:
            want = ['done' if o == 'done' else 'raised' for o in mo]
            got = ['done' if o == 'done' else 'raised' for o in outs]
            if want != got:
                chk.corr_break('escaped-exception pattern differs: impl %s model %s' % (outs, mo), sc)
            elif ans.get('queue') != queue:
                chk.corr_break('queues differ: impl %s model %s' % (
                    [(q['id'], q['addr'], q['len'], q['hex'][:40]) for q in queue],
                    [(q['id'], q['addr'], q['len'], q['hex'][:40]) for q in ans.get('queue', [])]), sc)
            elif ans.get('pending') != pending:
                chk.corr_break('number of partial transfers differs: impl %d model %s' % (pending, ans.get('pending')), sc)
        for sig, what in recv_monitors(sc, outs, snaps, queue):
            chk.violation(sig, what, sc)


# ---------------------------------------------------------------- receive-queue ids
def _rxq_phase(rng, first_idx, n, chans, pack, with_xfers, pop, order):
    seq = []
    for i in range(n):
        idx = first_idx + i
        chan = chans[i % len(chans)]
        data = bytes([0x9f]) + bytes(((idx * 31 + k * 7) % 251) + 1 for k in range(2 + (idx * 5) % 40)) + bytes([idx % 251 + 1, 0xff])
        if with_xfers and i % 2 == 1:
            # the peer's transfer number coincides with a receive id that is queued, is allocated now, or next
            xnum = [idx - 1, idx + 1, idx][(i // 2) % 3]
            chunks = split_chunks(rng, data, rng.choice([1, 2, 3]))
            msgs = [['seg', xnum, len(data), si, si == len(chunks) - 1, ch.hex()] for si, ch in enumerate(chunks)]
        else:
            msgs = [['bundle', data.hex()]]
        seq += [(chan, m) for m in msgs]
    if pack == 'each':
        groups = [[x] for x in seq]
    elif pack == 'one':
        groups = [[x for x in seq if x[0] == c] for c in chans]
    else:
        groups, i = [], 0
        while i < len(seq):
            g = [seq[i]]
            k = rng.randrange(1, 4)
            while len(g) < k and i + len(g) < len(seq) and seq[i + len(g)][0] == g[0][0]:
                g.append(seq[i + len(g)])
            groups.append(g)
            i += len(g)
    frames = []
    for g in groups:
        if not g:
            continue
        raw = b''
        for (_c, m) in g:
            raw += mk_frame(2, [], bytes.fromhex(m[1])) if m[0] == 'bundle' else seg_frame(m[2], m[1], m[3], m[4], bytes.fromhex(m[5]))
        frames.append({'chan': list(g[0][0]), 'hex': raw.hex(), 'msgs': [m for (_c, m) in g]})
    return {'frames': frames, 'pop': pop, 'order': order}


def rx_queue_histories(rng, tier):
    hs = []
    for n in (2, 3, 11):
        for chans in ([CHANS[0]], [CHANS[0], CHANS[1]]):
            for pack in ('one', 'each'):
                hs.append({'kind': 'rxq', 'phases': [_rxq_phase(rng, 0, n, chans, pack, n != 2 or pack == 'each', 'all', 'listed')]})
    for chans in ([CHANS[0]], [CHANS[0], CHANS[2]]):
        hs.append({'kind': 'rxq', 'phases': [
            _rxq_phase(rng, 0, 3, chans, 'one', False, 'half', 'listed'),
            _rxq_phase(rng, 3, 3, chans, 'each', True, 'all', 'reversed'),
            _rxq_phase(rng, 6, 2, chans, 'one', False, 'all', 'listed')]})
    for _ in range(150 if tier == 'thorough' else 12):
        phases, idx = [], 0
        for _ph in range(rng.randrange(1, 4)):
            n = rng.choice([2, 2, 3, 5, 11])
            phases.append(_rxq_phase(rng, idx, n, rng.choice([[CHANS[0]], [CHANS[0], CHANS[1]], list(CHANS)]),
                                     rng.choice(['one', 'each', 'mixed']), rng.random() < 0.5,
                                     rng.choice(['none', 'half', 'all']), rng.choice(['listed', 'reversed', 'shuffled'])))
            idx += n
        phases[-1]['pop'] = 'all'
        hs.append({'kind': 'rxq', 'phases': phases})
    for k, h in enumerate(hs):
        h['via'] = ['direct', 'sock'][k % 2]      # how a frame enters the agent
        h['pop_file'] = k % 3 != 0                # every second pop through recv_bundle_pop_file
    return hs


def run_rx_queue_history(rig, hist, rng):
    ''' several received bundles left unpopped, then the queue is read and every listed id popped, twice '''
    ag = rig.agent(None)
    ref = Ref()
    bad, trace, announced, popped = [], [], [], []
    nsig = 0

    def note(sig, what):
        if not any(b[0] == sig for b in bad):
            bad.append((sig, what))

    for phase in hist['phases']:
        for f in phase['frames']:
            oc = rig.deliver(ag, hist.get('via', 'direct'), f['chan'], bytes.fromhex(f['hex']))
            if oc == 'hang':
                note('rx-hang', 'the %s receive callback does not return' % hist.get('via', 'direct'))
            elif oc == 'stopped-listening':
                note('rx-callback-stops-listening', 'the socket receive callback returned a false value')
            elif oc != 'done':
                note('rx-exception', 'the %s receive path raised %s on a well-formed frame' % (hist.get('via', 'direct'), oc[7:]))
            for m in f['msgs']:
                if m[0] == 'bundle':
                    ref.bundle(tuple(f['chan']), bytes.fromhex(m[1]))
                else:
                    ref.seg(tuple(f['chan']), m[1], m[3], m[4], bytes.fromhex(m[5]))
            sg = [args for (_p, name, _s, args) in ag._verif_signals if name == 'recv_bundle_finished']
            if len(sg) != len(ref.queue):
                note('rx-queue-mismatch', '%d recv_bundle_finished signals for %d complete bundles' % (len(sg), len(ref.queue)))
            for k in range(nsig, min(len(sg), len(ref.queue))):
                bid, length, meta = str(sg[k][0]), int(sg[k][1]), dict(sg[k][2])
                chan, data = ref.queue[k]
                if length != len(data) or meta.get('address') != chan[1]:
                    note('rx-signal-wrong', 'bundle %d announced as (%s, %d, %s), expected length %d from %s' % (k, bid, length, meta, len(data), chan[1]))
                if bid in [a[0] for a in announced]:
                    note('rx-id-reused', 'recv_bundle_finished announced id %r for bundle %d; the same id was announced for bundle %d'
                         % (bid, k, [a[0] for a in announced].index(bid)))
                announced.append((bid, chan, data))
            nsig = len(sg)
            listed = [str(x) for x in ag.recv_bundle_get_queue()]
            trace.append({'frame': f['hex'][:60], 'queue': listed})
            want = [a[0] for a in announced if a[0] not in popped]
            if listed != want:
                note('rx-queue-mismatch', 'recv_bundle_get_queue() = %s, announced and not yet popped = %s' % (listed, want))
        if phase['pop'] == 'none':
            continue
        todo = [str(x) for x in ag.recv_bundle_get_queue()]
        if phase['order'] == 'reversed':
            todo.reverse()
        elif phase['order'] == 'shuffled':
            rng.shuffle(todo)
        if phase['pop'] == 'half':
            todo = todo[::2]
        for bid in todo:
            exp = [a for a in announced if a[0] == bid]
            try:
                if hist.get('pop_file') and len(popped) % 2 == 1:
                    import os
                    import tempfile
                    fd, path = tempfile.mkstemp(prefix='verif_pop_')
                    os.close(fd)
                    try:
                        ag.recv_bundle_pop_file(bid, path)
                        import gc
                        gc.collect()
                        got = open(path, 'rb').read()
                    finally:
                        os.unlink(path)
                else:
                    got = bytes(ag.recv_bundle_pop_data(bid))
                trace.append({'pop': bid, 'result': got.hex()[:60]})
                if not exp:
                    note('rx-queue-mismatch', 'the queue listed id %r that was never announced' % bid)
                elif got != exp[0][2]:
                    note('pop-returns-other-transfer', 'recv_bundle_pop_data(%r) returned %d octets that are not the bundle first announced under that id'
                         % (bid, len(got)))
            except Exception as err:   # noqa
                trace.append({'pop': bid, 'result': 'raised:' + type(err).__name__})
                note('rx-pop-fails', 'recv_bundle_pop_data(%r) raised %s although the queue listed that id' % (bid, type(err).__name__))
            popped.append(bid)
        for bid in todo:
            try:
                got = bytes(ag.recv_bundle_pop_data(bid))
                note('rx-second-pop-succeeds', 'a second recv_bundle_pop_data(%r) returned %d octets' % (bid, len(got)))
            except KeyError:
                pass
            except Exception as err:   # noqa
                trace.append({'pop': bid, 'result': 'raised:' + type(err).__name__})
        listed = [str(x) for x in ag.recv_bundle_get_queue()]
        want = [a[0] for a in announced if a[0] not in popped]
        if listed != want:
            note('rx-queue-mismatch', 'after popping: recv_bundle_get_queue() = %s, announced and not yet popped = %s' % (listed, want))
    lost = [k for k, a in enumerate(announced) if a[0] not in popped]
    if lost and hist['phases'][-1]['pop'] == 'all':
        note('rx-queue-mismatch', 'announced bundles %s were never offered for popping' % lost[:5])
    return trace, bad


def rx_queue_cases(chk, rng, tier, prefix):
    ''' → [(signature, what, replay)]; the BTP-U twin of props.c13.rx_queue_cases '''
    rig = Rig()
    out = []
    for hist in rx_queue_histories(rng, tier):
        trace, bad = run_rx_queue_history(rig, hist, rng)
        chk.case({'rxq': [[len(ph['frames']), ph['pop'], ph['order']] for ph in hist['phases']]}, nontrivial=True,
                 sample=len(hist['phases']) > 1)
        chk.cov['traces_validated_against_impl'] += 1
        chk.count('rxq:histories')
        chk.count('rxq:pops', sum(1 for t in trace if 'pop' in t))
        for (sig, what) in bad:
            out.append(('%s:%s' % (prefix, sig), what, hist))
    return out


def timing_probe(chk, rig):
    ''' DESIGN §7 C20 "finding, timing": the per-segment timeouts are never cancelled. A transfer that
    reuses (channel, xfer_num) within RX_XFER_TIMEOUT_MS of an earlier, completed one loses what it has
    received when the old timeout fires. Outside the statement of C20 (no timing in it): counted and
    noted, not reported as a violation. '''
    c = list(CHANS[0])
    a = payload(10, 1)
    b = payload(12, 2)
    frames = [{'chan': c, 'hex': seg_frame(10, 1, 0, False, a[:5]).hex()},
              {'chan': c, 'hex': seg_frame(10, 1, 1, True, a[5:]).hex()},
              {'chan': c, 'hex': seg_frame(12, 1, 0, False, b[:6]).hex()},
              {'chan': c, 'hex': seg_frame(12, 1, 1, True, b[6:]).hex(), 'fire': True}]
    outs, snaps, queue, pending, _stale = rig.recv(frames)
    if [q['hex'] for q in queue] != [a.hex(), b.hex()]:
        chk.count('timer:stale-timeout-dropped-newer-transfer')
        chk.notes.append('timing (outside C20): a timeout left over from a completed transfer with the same (channel, '
                         'xfer_num) fired between the two segments of a new transfer and deleted its entry; queued %s '
                         'instead of both bundles' % [q['hex'] for q in queue])


# ---------------------------------------------------------------- entry points
def run(chk):
    chk.prove('DtnVerif.Props.C20')
    rig = Rig()
    chk.cov['rule'] = ('send: (length, MTU) windows around total+4==mtu, mtu 17..22 (remain_size -1..4), exact/short/over last '
                       'segments, 2^20 length-field wrap, random; codec: random message sets with 0-3 hints, all payload kinds, '
                       'built with the scapy classes (0-4 hints) and dissected, '
                       'padding, altered flags/length/H bits, truncation; recv: all permutations (thorough) or random orders '
                       '(quick) of 2..6 segments with/without duplicates, the sender\'s own frames shuffled, 2-3 interleaved '
                       'transfers/channels composed into frames with padding and Bundle PDUs, one-segment transfers, malformed stream')
    chk.assumptions += [
        'transfer numbers and segment indices < 2^32, total length < 2^32 (struct/to_bytes raise otherwise); round-trip claims for declared lengths < 2^20',
        'scapy fallbacks to Raw (message header of 1-3 octets, hint header of 1 octet) are outside the model: counted, only the outside/inside classification is compared',
        'GLib timeouts of RxTransfer entries are not fired in correspondence runs (timing is outside C20); see timer:* counters',
        'portion stub: singleton/closed/==/in on integer intervals',
    ]
    run_send(chk, rig, send_cases(chk))
    run_send_ids(chk, rig)
    run_codec(chk, rig, codec_frames(chk))
    run_build(chk, rig)
    run_recv(chk, rig, recv_scenarios(chk, rig), 'reasm')
    run_recv(chk, rig, malformed_scenarios(chk), 'malformed')
    for (sig, what, rep) in rx_queue_cases(chk, chk.rng, chk.tier, 'C20'):
        chk.violation(sig, what, rep)
    timing_probe(chk, rig)


def replay(chk, path):
    obj = json.load(open(path))
    rep = obj.get('replay', obj)
    rig = Rig()
    if rep.get('kind') == 'send':
        data = bytes.fromhex(rep['data']) if rep.get('data') else payload(rep['len'], rep.get('salt', 0))
        res = rig.send(rep['xfer'], data, rep['mtu'], 50 if (rep['mtu'] is not None and rep['mtu'] <= 18) else len(data) + 5)
        ans = chk.driver([{'op': 'btpu.send', 'xfer': rep['xfer'], 'data': data.hex(), **({} if rep['mtu'] is None else {'mtu': rep['mtu']})}])[0]
        print('input: transfer %d, %d octets, mtu_default=%s (remain_size %s)' % (rep['xfer'], len(data), rep['mtu'], ans.get('remain')))
        print('model: %s' % ('failed' if ans.get('failed') else '%d frames' % len(ans.get('frames', []))))
        if res[0] == 'endless':
            print('observed: the generator is still yielding after %d frames; data octets per frame: %s' % (
                len(res[1]), [len(f) - 18 for f in res[1][:5]]))
            return 1
        if res[0] == 'failed':
            print('observed: _send_transfer raised %s after %d frames' % (res[1], len(res[2])))
            return 0 if ans.get('failed') and not res[2] else 1
        if res[0] == 'cpu':
            print('observed: CPU bound hit (inconclusive)')
            return 2
        frames = res[1]
        print('observed: %d frames of sizes %s' % (len(frames), [len(f) for f in frames][:20]))
        if len(data) >= 2 ** 20 and (rep['mtu'] is None or len(data) + 4 < rep['mtu']):
            print('MONITOR C20:length-field-wraps: one Bundle PDU of %d octets, head %s' % (len(data), frames[0][:4].hex()))
            return 1
        viol = send_monitors(rep['xfer'], data, rep['mtu'], frames)
        for sig, what in viol:
            print('MONITOR %s: %s' % (sig, what))
        return 1 if viol else 0
    if rep.get('kind') == 'recv':
        outs, snaps, queue, pending, _st = rig.recv(rep['frames'], via=rep.get('via', 'direct'))
        ans = chk.driver([{'op': 'btpu.recv', 'frames': [{'chan': chan_str(f['chan']), 'addr': f['chan'][1], 'hex': f['hex']} for f in rep['frames']]}])[0]
        print('frames: %s' % [(chan_str(f['chan']), f['hex'][:80]) for f in rep['frames']])
        print('observed: outcomes %s, queue sizes %s, queue %s, partial transfers %d' % (outs, snaps, [(q['id'], q['hex'][:40]) for q in queue], pending))
        print('model: %s' % json.dumps(ans)[:600])
        viol = recv_monitors(rep, outs, snaps, queue)
        for sig, what in viol:
            print('MONITOR %s: %s' % (sig, what))
        return 1 if viol else 0
    if rep.get('kind') == 'rxq':
        trace, bad = run_rx_queue_history(rig, rep, chk.rng)
        for t in trace:
            print(json.dumps(t)[:300])
        for sig, what in bad:
            print('MONITOR %s: %s' % (sig, what))
        return 1 if bad else 0
    if rep.get('kind') == 'build':
        specs = []
        for m in rep['msgs']:
            pl = bytes.fromhex(m['payload'])
            kind = {1: 'pad', 2: 'bundle', 3: 'seg', 4: 'end'}[m['type']]
            hints = [(h[0], bytes.fromhex(h[1])) for h in m['hints']]
            if kind in ('seg', 'end'):
                specs.append((kind, hints, (int.from_bytes(pl[:4], 'big'), int.from_bytes(pl[4:8], 'big')), pl[8:]))
            else:
                specs.append((kind, hints, None, pl))
        out = rig.build(specs, rep.get('as_set', False))
        ans = chk.driver([{'op': 'btpu.build', 'msgs': rep['msgs']}])[0]
        print('messages: %s' % json.dumps(rep['msgs'])[:600])
        print('built   : %s' % (out if isinstance(out, dict) else out.hex()[:400]))
        print('model   : %s' % str(ans.get('hex'))[:400])
        if not isinstance(out, dict):
            print('decoded : %s' % json.dumps(rig.decode(out))[:600])
        return 0 if (not isinstance(out, dict) and out.hex() == ans.get('hex')) else 1
    if rep.get('kind') == 'codec':
        f = bytes.fromhex(rep['hex'])
        print('impl: %s' % json.dumps(rig.decode(f))[:800])
        print('model: %s' % json.dumps(chk.driver([{'op': 'btpu.decode', 'hex': f.hex()}])[0])[:800])
        return 0
    print('unknown replay kind')
    return 2
