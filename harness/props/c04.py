''' C04 — TCPCL endpoints only emit RFC 9174-legal message sequences. '''
import json

import tcpcl_scen as sc
import tcpcl_monitors as tm

MODULE = 'DtnVerif.Props.C04'


def run(chk):
    chk.prove(MODULE)
    rng, tier = chk.rng, chk.tier
    n = 80 if tier == 'quick' else 1500
    chk.cov['rule'] = ('two real ContactHandler endpoints under seeded schedules (transfer-only, termination by A/B/both, hard close); both wires are decoded '
                       'by the independent RFC 9174 reader and run through the sequence automaton (contact, SESS_INIT, body, one SESS_TERM, no START after it, '
                       'contiguous segments, START+total length, END only last, increasing ids, segment <= peer MRU, k-th ACK echoes k-th segment); '
                       'non-trivial = at least one transfer or a termination')
    sims = []
    for i in range(n):
        flavour = rng.choice(['transfer', 'transfer', 'terminate', 'terminate', 'abort'])
        sim, sent, meta = sc.run_scenario(rng, flavour, tier)
        nontriv = bool(sent['a'] or sent['b'] or meta['term'])
        chk.case({'cfg': [meta['cfg_a'], meta['cfg_b']], 'flavour': flavour, 'term': meta['term'],
                  'lens': [[len(d) for d in sent['a']], [len(d) for d in sent['b']]],
                  'h': hash(json.dumps(sim.a.events) + json.dumps(sim.b.events))}, nontrivial=nontriv, sample=(i < 2))
        chk.count('flavour:' + flavour)
        for ep in sim.eps():
            for m in tm.wire_frames(ep)[1]:
                chk.count('wire:' + m['k'])
        bad = tm.mon_c04(sim)
        sc.report(chk, 'C04', bad, sim, sent, meta)
        sims.append((sim, '%s %d' % (flavour, i)))
        if len(sims) >= 40:
            sc.compare_with_model(chk, sims)
            sims = []
    sc.compare_with_model(chk, sims)
    chk.assumptions += ['TLS disabled; the segment-size controller is off in these runs (C14 drives the clamp with arbitrary controller outputs)']


def replay(chk, path):
    print('replay: event lists in', path)
    return 0
