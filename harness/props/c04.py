''' C04 — TCPCL endpoints only emit RFC 9174-legal message sequences. '''
import json

import tcpcl_scen as sc
import tcpcl_monitors as tm

MODULE = 'DtnVerif.Props.C04'


def run(chk):
    chk.prove(MODULE)
    rng, tier = chk.rng, chk.tier
    n = 80 if tier == 'quick' else 1500
    chk.cov['rule'] = ('two real ContactHandler endpoints under seeded schedules (transfer-only, termination by A/B/both, hard close); both wires are decoded '
                       'by the independent RFC 9174 reader and run through the sequence automaton (contact, SESS_INIT, body, one SESS_TERM, no START after it, '
                       'contiguous segments, START+total length, END only last, increasing ids, segment <= peer MRU, k-th ACK echoes k-th segment); '
                       'non-trivial = at least one transfer or a termination')
    sims = []
    for i in range(n):
        flavour = rng.choice(['transfer', 'transfer', 'terminate', 'terminate', 'abort'])
        sim, sent, meta = sc.run_scenario(rng, flavour, tier)
        nontriv = bool(sent['a'] or sent['b'] or meta['term'])
        chk.case({'cfg': [meta['cfg_a'], meta['cfg_b']], 'flavour': flavour, 'term': meta['term'],
                  'lens': [[len(d) for d in sent['a']], [len(d) for d in sent['b']]],
                  'h': hash(json.dumps(sim.a.events) + json.dumps(sim.b.events))}, nontrivial=nontriv, sample=(i < 2))
        chk.count('flavour:' + flavour)
        for ep in sim.eps():
            for m in tm.wire_frames(ep)[1]:
                chk.count('wire:' + m['k'])
        bad = tm.mon_c04(sim)
        sc.report(chk, 'C04', bad, sim, sent, meta)
        sims.append((sim, '%s %d' % (flavour, i)))
        if len(sims) >= 40:
            sc.compare_with_model(chk, sims)
            sims = []
    sc.compare_with_model(chk, sims)
    # slow hand-shakes with keepalive and idle times configured: timers must not run (and nothing but the
    # contact header and SESS_INIT may be written) before the session exists; later traffic with timers firing
    sims = []
    for i in range(12 if tier == 'quick' else 200):
        cfg_a = sc.gen_cfg(rng, timers=True)
        cfg_b = sc.gen_cfg(rng, timers=True)
        cfg_a['keepalive'] = rng.choice([1, 2, 3])
        cfg_b['keepalive'] = rng.choice([1, 2, 3, 30])
        sim = sc.ts.Sim(cfg_a, cfg_b)
        for ep in sim.eps():
            ep.popped = {}
        sent = {'a': [], 'b': []}
        meta = {'cfg_a': cfg_a, 'cfg_b': cfg_b, 'flavour': 'slow-handshake', 'term': [], 'hard': False, 'quiescent': False}
        sim.start(sim.b)
        sim.start(sim.a)
        for _ in range(400):
            if sim.a.h._state == 'established' and sim.b.h._state == 'established':
                break
            if sim.a.closed() or sim.b.closed():
                break
            # the network is slow: time passes before each internal event of the hand-shake
            if rng.random() < 0.7:
                sim.advance(rng.choice([500, 1000, 1500, 3000, 4000]))
            due = [(ep, t) for ep in sim.eps() for t in sim.due_timers(ep)]
            if due and rng.random() < 0.8:
                ep, t = rng.choice(due)
                sim.timer(ep, t)
                continue
            if not sim.step_random(rng):
                break
        for who in ('a', 'b'):
            ep = sim.a if who == 'a' else sim.b
            if not ep.closed() and ep.h._state == 'established' and rng.random() < 0.6:
                d = sc.gen_bundle(rng, 10, big_ok=False)
                sim.send(ep, d)
                sent[who].append(d)
        meta['quiescent'] = sim.run_quiescent(rng)
        chk.case({'slow_handshake': True, 'cfg': [cfg_a, cfg_b], 'events': len(sim.log)})
        chk.count('slow-handshake')
        bad = tm.mon_c04(sim)
        sc.report(chk, 'C04', bad, sim, sent, meta)
        sims.append((sim, 'slow-handshake %d' % i))
    sc.compare_with_model(chk, sims, with_timers=True)
    # a peer whose contact header offers TLS (or carries reserved flag bits) while this node has TLS disabled:
    # TLS is attempted only when BOTH offer it, so the next thing written is SESS_INIT, in the clear
    from props import c17
    advs = []
    for passive in (False, True):
        for flags in (0, 1, 3, 0x81, 0xff):
            adv = c17.Adversary(rng, passive, {'seg_init': 10})
            adv.peer_flags = flags
            ok = adv.to_state('established')
            x = adv.x
            chk.case({'peer_contact_flags': flags, 'passive': passive})
            chk.count('peer-contact-flags')
            bad = []
            for o in x.obs:
                if o.get('escaped'):
                    bad.append(('C04:escape-%s-after-contact-flags' % o['escaped'], 'exception %s escapes after a contact header with flags 0x%02x' % (o['escaped'], flags)))
                    break
            fr = adv.frames()
            kinds = [m['k'] for m in fr[:2]]
            if not bad and (not ok or kinds != ['contact', 'sess_init']):
                data = bytes(x.sock.sent)
                bad.append(('C04:second-not-sessinit', 'peer contact header flags 0x%02x, TLS disabled here: the endpoint wrote %s… (state %s) instead of contact header + SESS_INIT'
                            % (flags, data[:12].hex(), x.h._state)))
            if ok and not bad:
                adv.sim.send(x, bytes(range(25)))
                for _ in range(6):
                    adv.coop()
            bad += tm.mon_c04(adv.sim)
            for (sig, what) in bad:
                chk.violation(sig, what, {'passive': passive, 'flags': flags, 'x_cfg': x.model_cfg(), 'x_events': x.events})
            advs.append((adv, 'peer contact flags %s %s' % (passive, flags)))
    c17.compare(chk, advs)
    chk.assumptions += ['TLS disabled; the segment-size controller is off in these runs (C14 drives the clamp with arbitrary controller outputs)']


def replay(chk, path):
    print('replay: event lists in', path)
    return 0
