''' C07 — TCPCL message framing is independent of how TCP chunks the stream. '''
import itertools
import json

import tcpcl_util as tu

MODULE = 'DtnVerif.Props.C07'


# ------------------------------------------------------------------ generators
def gen_ext(rng, kind):
    ''' well-formed extension list blob; kinds seen by the repo plus unknown types '''
    items = []
    for _ in range(rng.choice([0, 0, 1, 1, 2, 3])):
        c = rng.random()
        if c < 0.4 and kind == 'xfer':
            items.append((rng.choice([0, 1]), 1, rng.getrandbits(64).to_bytes(8, 'big')))
        elif c < 0.7:
            items.append((1, 0xFF, bytes(10)))
        else:
            items.append((rng.choice([0, 1]), rng.choice([2, 7, 0x100, 0xFFFF]), bytes(rng.getrandbits(8) for _ in range(rng.choice([0, 1, 3, 17])))))
    return tu.ext_blob(items)


def gen_len(rng, tier):
    c = rng.random()
    if c < 0.25:
        return rng.choice([0, 1, 2])
    if c < 0.8:
        return rng.randrange(0, 40)
    if c < 0.97:
        return rng.choice([255, 256, 257, 1000])
    return rng.choice([65535, 65536]) if tier == 'thorough' else 4096


def gen_u(rng, bits):
    c = rng.random()
    if c < 0.3:
        return rng.choice([0, 1, (1 << bits) - 1, 1 << (bits - 1), 255, 256])  & ((1 << bits) - 1)
    return rng.getrandbits(bits)


def gen_msg(rng, tier):
    k = rng.choice(['sess_init', 'sess_term', 'xfer_segment', 'xfer_segment', 'xfer_ack', 'xfer_refuse', 'keepalive', 'msg_reject'])
    if k == 'sess_init':
        node = rng.choice(['', 'dtn://a/', 'ipn:1.0', 'dtn://node-é中/', 'x' * rng.randrange(0, 300)]).encode('utf-8')
        return {'k': k, 'keepalive': gen_u(rng, 16), 'seg_mru': gen_u(rng, 64), 'xfer_mru': gen_u(rng, 64),
                'node': node.hex(), 'ext': gen_ext(rng, 'sess').hex()}
    if k == 'sess_term':
        return {'k': k, 'flags': rng.choice([0, 1]), 'reason': rng.randrange(0, 6)}
    if k == 'xfer_segment':
        flags = rng.choice([0, 1, 2, 3])
        data = bytes(rng.getrandbits(8) for _ in range(gen_len(rng, tier)))
        return {'k': k, 'flags': flags, 'tid': gen_u(rng, 64), 'ext': gen_ext(rng, 'xfer').hex() if flags & 2 else '', 'data': data.hex()}
    if k == 'xfer_ack':
        return {'k': k, 'flags': rng.choice([0, 1, 2, 3]), 'tid': gen_u(rng, 64), 'len': gen_u(rng, 64)}
    if k == 'xfer_refuse':
        return {'k': k, 'reason': rng.randrange(0, 6), 'tid': gen_u(rng, 64)}
    if k == 'keepalive':
        return {'k': k}
    return {'k': k, 'rej_id': gen_u(rng, 8), 'reason': rng.randrange(1, 4)}


def chunkings(rng, n, tier, how):
    ''' yield lists of cut positions for an n-octet stream '''
    if how == 'single':
        if n <= 600:
            cuts = range(1, n)
        else:
            # a long stream (a message with tens of thousands of data octets): every cut inside the first 200 octets
            # and 400 cut positions drawn from the rest — all n-1 of them would run for hours in the thorough tier
            cuts = sorted(set(range(1, 200)) | set(rng.sample(range(200, n), 400)))
        for cut in cuts:
            yield [cut]
    elif how == 'bytewise':
        yield list(range(1, n))
    elif how == 'random':
        for _ in range(6 if tier == 'quick' else 20):
            k = rng.randrange(0, min(n, 12))
            yield sorted(rng.sample(range(1, n), k)) if n > 1 else []
    elif how == 'all':
        for r in range(0, n):
            for cuts in itertools.combinations(range(1, n), r):
                yield list(cuts)


def split(data, cuts):
    out = []
    prev = 0
    for c in list(cuts) + [len(data)]:
        out.append(data[prev:c])
        prev = c
    return [c for c in out]


# ------------------------------------------------------------------ running the implementation
def run_impl(chunks):
    ''' Feed chunks to the real Messenger.recv_raw; per chunk: messages handed over, buffer use, escape '''
    sock = tu.FakeSock()
    pr = tu.FramingProbe(sock)
    trace = []
    for c in chunks:
        before = len(pr.seen)
        esc = None
        if not pr.dead and c:
            try:
                pr.recv_raw(c)
            except Exception as err:  # an exception escaping the RX callback
                esc = type(err).__name__
        trace.append({'msgs': pr.seen[before:], 'buf': pr.recv_buffer_used(), 'dead': pr.dead, 'escaped': esc})
        if esc:
            break
    tu.GLib.LOOP.reset()
    return trace


REJECT_SIG = 'C07:msg-reject-field-order'
REJECT_WHAT = ('MSG_REJECT is encoded and decoded with the rejected message type before the reason code, the reverse of '
               'RFC 9174 5.1.2: an independent RFC decoder reads the two fields swapped, and vice versa')


def _reject_swapped(g, w):
    return (g.get('k') == 'msg_reject' and w.get('k') == 'msg_reject'
            and g['rej_id'] == w['reason'] and g['reason'] == w['rej_id'])


def monitor(chk, stream, chunks, trace, label):
    ''' Independent statement of C07 on the implementation trace: after each read the messages handed
    over so far are exactly the frames wholly contained in the octets received so far. '''
    frames, _ = tu.rfc_frames(stream)
    got = []
    recvd = 0
    for c, t in zip(chunks, trace):
        recvd += len(c)
        if t.get('escaped'):
            chk.violation('C07:escape-%s-%s' % (t['escaped'], label), 'exception %s escapes recv_raw while a %s is split across reads' % (t['escaped'], label),
                          {'stream': stream.hex(), 'chunks': [x.hex() for x in chunks]})
            return False
        got += t['msgs']
        want = [m for (m, end) in frames if end <= recvd]
        if got != want and len(got) == len(want) and all(g == w or _reject_swapped(g, w) for g, w in zip(got, want)):
            chk.violation(REJECT_SIG, REJECT_WHAT, {'stream': stream.hex(), 'impl_msgs': [g for g, w in zip(got, want) if g != w][:1],
                                                    'rfc_msgs': [w for g, w in zip(got, want) if g != w][:1]})
            got = list(want)
        if got != want:
            if len(got) < len(want):
                missing = want[len(got)]
                sig = 'C07:late-%s' % missing['k']
                what = 'complete %s not acted on when its final octet arrives (buffer holds %d octets)' % (missing['k'], t['buf'])
            else:
                extra = got[len(want)] if len(got) > len(want) else got[-1]
                sig = 'C07:early-or-wrong-%s' % extra.get('k')
                what = 'receiver acted on %s before/other than the stream says' % json.dumps(extra)[:100]
            chk.violation(sig, what, {'stream': stream.hex(), 'chunks': [x.hex() for x in chunks], 'received': recvd,
                                      'impl_msgs': got, 'expected': want})
            return False
        consumed = want[-1] and frames[len(want) - 1][1] if want else 0
        if t['buf'] != recvd - consumed:
            chk.violation('C07:residual-buffer', 'trailing octets not kept: buffer holds %d, expected %d' % (t['buf'], recvd - consumed),
                          {'stream': stream.hex(), 'chunks': [x.hex() for x in chunks], 'received': recvd})
            return False
    return True


def compare_model(chk, reqs, metas):
    outs = chk.driver(reqs)
    for out, (stream, chunks, trace, label) in zip(outs, metas):
        mt = out.get('trace')
        if mt is None:
            chk.corr_break('model error %s' % out, {'stream': stream.hex()})
            continue
        if label in ('badmagic', 'badversion') or stream[:5] != b'dtn!\x04' or any(m.get('k') == 'bad_contact' for t in trace for m in t.get('msgs', [])):
            # when a bad header is detected is not observable; compare the outcome only
            if len(stream) >= 6 and trace and not trace[-1].get('escaped') and len(trace) == len(mt):
                if trace[-1]['dead'] != mt[-1]['dead']:
                    chk.corr_break('bad contact header outcome differs', {'stream': stream.hex(), 'impl': trace[-1], 'model': mt[-1]})
            chk.cov['traces_validated_against_impl'] += 1
            continue
        for i, (a, b) in enumerate(zip(trace, mt)):
            if a.get('escaped'):
                break
            if a['msgs'] != b['msgs'] or a['buf'] != b['buf'] or a['dead'] != b['dead']:
                chk.corr_break('framing differs at read %d (%s)' % (i, label),
                               {'stream': stream.hex(), 'chunks': [x.hex() for x in chunks], 'impl': a, 'model': b})
                break
            if a['dead']:
                break
        chk.cov['traces_validated_against_impl'] += 1


def run(chk):
    chk.prove(MODULE)
    rng = chk.rng
    tier = chk.tier
    chk.cov['rule'] = ('valid streams = contact header + random messages of every type (ext lists, data 0..64KiB, field values biased to width edges); '
                       'each stream is fed to the real Messenger.recv_raw under: every single cut, byte-by-byte, random cut sets, and all 2^(n-1) cut sets for short streams; '
                       'a case is one (stream, chunking); distinct = distinct (stream, cuts); plus codec equality impl/model/independent encoder per message; plus a malformed stream class compared on no-escape only')
    n_streams = 25 if tier == 'quick' else 60
    reqs, metas = [], []

    def flush(force=False):
        if reqs and (force or len(reqs) >= 1500):
            try:
                compare_model(chk, list(reqs), list(metas))
            except Exception as err:
                chk.corr_break('driver unavailable: %s' % err, {})
            del reqs[:]
            del metas[:]

    # 1. codec: implementation encoder == model encoder == independent encoder, and decode back
    enc_reqs, enc_msgs = [], []
    for _ in range(300 if tier == 'quick' else 3000):
        m = gen_msg(rng, tier) if rng.random() > 0.1 else {'k': 'contact', 'flags': rng.choice([0, 1, 3, 255])}
        enc_msgs.append(m)
        enc_reqs.append({'op': 'tcpcl.encode', 'msg': m})
    try:
        enc_outs = chk.driver(enc_reqs)
    except Exception as err:
        chk.corr_break('driver unavailable: %s' % err, {})
        enc_outs = [None] * len(enc_reqs)
    for m, out in zip(enc_msgs, enc_outs):
        want = tu.rfc_encode(m)
        try:
            impl = bytes(tu.real_packet(m))
        except Exception as err:
            chk.violation('C07:encode-raises-%s' % m['k'], 'encoder raised %r' % err, {'msg': m})
            continue
        chk.case({'codec': m}, sample=(m['k'] == 'xfer_segment' and len(chk.cov['samples']) < 2))
        chk.count('codec:' + m['k'])
        if impl != want and m['k'] == 'msg_reject' and impl == tu.rfc_encode(dict(m, rej_id=m['reason'], reason=m['rej_id'])):
            chk.violation(REJECT_SIG, REJECT_WHAT, {'msg': m, 'impl': impl.hex(), 'rfc': want.hex()})
        elif impl != want:
            chk.violation('C07:encode-differs-%s' % m['k'], 'implementation encodes %s differently from RFC 9174' % m['k'],
                          {'msg': m, 'impl': impl.hex(), 'rfc': want.hex()})
        if out is not None and out.get('hex') != impl.hex():
            chk.corr_break('model encoder differs for %s' % m['k'], {'msg': m, 'impl': impl.hex(), 'model': out.get('hex')})
        # decode with the real decoder, compare fields
        cls = tu.contact.Head if m['k'] == 'contact' else tu.messages.MessageHead
        try:
            back = tu.canon_packet(cls(impl))
        except tu.formats.VerifyError:
            back = {'k': 'need'}
        except Exception as err:
            back = {'k': 'raises', 'err': repr(err)}
        if back != m and not (m['k'] == 'keepalive' and back == {'k': 'need'}):
            chk.violation('C07:decode-differs-%s' % m['k'], 'implementation decodes its own %s to different fields' % m['k'], {'msg': m, 'decoded': back})
        # the same fields include the items of a well-formed extension list (flags, type, value each)
        if m.get('ext'):
            want_items = tu.rfc_ext_items(bytes.fromhex(m['ext']))
            try:
                got_items = [(int(i.flags), int(i.type), bytes(i.payload)) if hasattr(i, 'type') else ('raw', bytes(i))
                             for i in cls(impl).payload.ext_items]
            except Exception as err:
                got_items = repr(err)
            chk.count('ext_items:%d' % len(want_items))
            if got_items != want_items:
                chk.violation('C07:ext-items-not-itemised-%s' % ('many' if len(want_items) > 1 else 'one'),
                              'extension list of %d well-formed item(s) in %s is decoded as %s' % (len(want_items), m['k'], str(got_items)[:120]),
                              {'msg': m, 'decoded_items': str(got_items)[:400]})

    # 2. framing under chunkings
    for si in range(n_streams):
        nm = rng.choice([0, 1, 2, 3, 5, 8])
        msgs = [{'k': 'contact', 'flags': rng.choice([0, 1])}] + [gen_msg(rng, tier) for _ in range(nm)]
        stream = b''.join(tu.rfc_encode(m) for m in msgs)
        n = len(stream)
        hows = ['single', 'bytewise', 'random'] if n <= 400 else ['random']
        if n > 400 and tier == 'thorough':
            hows.append('single')
        for how in hows:
            for cuts in chunkings(rng, n, tier, how):
                if how == 'single' and n > 120 and rng.random() > (0.15 if tier == 'quick' else 0.6):
                    continue
                chunks = split(stream, cuts)
                trace = run_impl(chunks)
                chk.case({'stream': stream[:64].hex(), 'n': n, 'cuts': cuts[:16]}, sample=(si == 0 and how == 'random'))
                chk.count('chunking:' + how)
                label = 'message'
                if cuts and cuts[0] < 6:
                    label = 'contact header'
                monitor(chk, stream, chunks, trace, label)
                reqs.append({'op': 'tcpcl.feed', 'chunks': [c.hex() for c in chunks]})
                metas.append((stream, chunks, trace, label))
                flush()
        for m in msgs:
            chk.count('msg:' + m['k'])

    # 3. exhaustive chunkings of short streams
    shorts = [
        [{'k': 'contact', 'flags': 0}, {'k': 'keepalive'}],
        [{'k': 'contact', 'flags': 1}, {'k': 'sess_term', 'flags': 0, 'reason': 1}, {'k': 'keepalive'}],
        [{'k': 'contact', 'flags': 0}, {'k': 'msg_reject', 'rej_id': 9, 'reason': 2}, {'k': 'keepalive'}, {'k': 'keepalive'}],
    ]
    if tier == 'thorough':
        shorts.append([{'k': 'contact', 'flags': 0}, {'k': 'xfer_refuse', 'reason': 1, 'tid': 7}])
        shorts.append([{'k': 'contact', 'flags': 1}, {'k': 'keepalive'}, {'k': 'sess_term', 'flags': 1, 'reason': 0}, {'k': 'msg_reject', 'rej_id': 1, 'reason': 3}, {'k': 'keepalive'}])
    for msgs in shorts:
        stream = b''.join(tu.rfc_encode(m) for m in msgs)
        count = 0
        for cuts in chunkings(rng, len(stream), tier, 'all'):
            chunks = split(stream, cuts)
            trace = run_impl(chunks)
            count += 1
            chk.case({'stream': stream.hex(), 'cuts': cuts}, nontrivial=True)
            if count % 2000 == 0 and chk.elapsed() > 900:
                break
            chk.count('chunking:exhaustive')
            label = 'contact header' if (cuts and cuts[0] < 6) else 'message'
            monitor(chk, stream, chunks, trace, label)
            if count % 7 == 0 or len(cuts) <= 2:
                reqs.append({'op': 'tcpcl.feed', 'chunks': [c.hex() for c in chunks]})
                metas.append((stream, chunks, trace, label))
                flush()
    chk.cov['exhaustive_short_streams'] = len(shorts)

    # 4. malformed / adversarial streams: nothing may escape, model and implementation agree
    for _ in range(40 if tier == 'quick' else 400):
        kind = rng.choice(['badmagic', 'badversion', 'unknown_type', 'random', 'trailing_after_contact'])
        if kind == 'badmagic':
            stream = b'dtn?' + bytes([4, 0]) + bytes(rng.getrandbits(8) for _ in range(rng.randrange(0, 6)))
        elif kind == 'badversion':
            stream = b'dtn!' + bytes([rng.choice([5, 0, 255, 6])]) + bytes(rng.getrandbits(8) for _ in range(rng.randrange(0, 6)))
        elif kind == 'unknown_type':
            stream = b'dtn!\x04\x00' + bytes([rng.choice([0, 8, 9, 0x7f, 0xff])]) + bytes(rng.getrandbits(8) for _ in range(rng.randrange(0, 12)))
        elif kind == 'trailing_after_contact':
            stream = b'dtn!\x04\x01' + tu.rfc_encode(gen_msg(rng, tier))
        else:
            stream = bytes(rng.getrandbits(8) for _ in range(rng.randrange(1, 30)))
        cuts = sorted(rng.sample(range(1, len(stream)), rng.randrange(0, min(4, len(stream))))) if len(stream) > 1 else []
        chunks = split(stream, cuts)
        trace = run_impl(chunks)
        chk.case({'malformed': kind, 'stream': stream.hex(), 'cuts': cuts})
        chk.count('malformed:' + kind)
        for t in trace:
            if t.get('escaped'):
                chk.violation('C07:escape-%s-%s' % (t['escaped'], kind), 'exception %s escapes recv_raw on a %s stream' % (t['escaped'], kind),
                              {'stream': stream.hex(), 'chunks': [x.hex() for x in chunks]})
        if kind == 'trailing_after_contact':
            monitor(chk, stream, chunks, trace, 'contact header followed by a message')
        if kind in ('badmagic', 'badversion', 'trailing_after_contact', 'unknown_type', 'random'):
            reqs.append({'op': 'tcpcl.feed', 'chunks': [c.hex() for c in chunks]})
            metas.append((stream, chunks, trace, kind))

    flush(force=True)
    full_stack(chk)
    closing_message_cases(chk)
    chk.assumptions += [
        'the session layer is replaced by a recorder for the framing runs (FramingProbe); the full ContactHandler is driven by C01/C04/C17',
        'extension-item lists are compared as opaque blobs (the receiver keeps them so); itemisation is proved for the independent reader (C07_ext_roundtrip)',
        'node IDs are generated as valid UTF-8',
    ]


def full_stack(chk):
    ''' 5. A pipelining peer against the *whole* endpoint (real ContactHandler, nothing replaced): the peer writes
    its contact header, SESS_INIT and whole transfers back to back and the network cuts that stream anywhere, in
    particular across the contact-header and SESS_INIT boundaries. After every read exactly the messages complete
    so far must have been acted on — observable as the session state and one XFER_ACK per complete segment — and
    the bundles delivered must be those of the stream. The same event lists are replayed through the model. '''
    import tcpcl_sim as ts
    import tcpcl_scen as sc
    from props import c17
    rng, tier = chk.rng, chk.tier
    sims = []
    for i in range(40 if tier == 'quick' else 600):
        passive = rng.random() < 0.7
        adv = c17.Adversary(rng, passive, {})
        x, sim = adv.x, adv.sim
        sim.start(x)
        adv.drain()
        nb = rng.choice([0, 1, 1, 2, 3])
        msgs = [{'k': 'contact', 'flags': 0},
                {'k': 'sess_init', 'keepalive': 0, 'seg_mru': 2 ** 64 - 1, 'xfer_mru': 2 ** 64 - 1, 'node': b'dtn://peer/'.hex(), 'ext': ''}]
        bundles = []
        for t in range(1, nb + 1):
            data = bytes(rng.getrandbits(8) for _ in range(rng.choice([0, 1, 5, 20, 300])))
            nseg = rng.choice([1, 1, 2, 3])
            cuts = sorted(rng.sample(range(0, len(data) + 1), min(nseg - 1, len(data) + 1))) if nseg > 1 else []
            parts = [data[a:b] for a, b in zip([0] + cuts, cuts + [len(data)])]
            for j, part in enumerate(parts):
                flags = (2 if j == 0 else 0) | (1 if j == len(parts) - 1 else 0)
                ext = tu.ext_blob([(0, 1, len(data).to_bytes(8, 'big'))]).hex() if j == 0 else ''
                msgs.append({'k': 'xfer_segment', 'flags': flags, 'tid': t, 'ext': ext, 'data': part.hex()})
                if rng.random() < 0.2:
                    msgs.append({'k': 'keepalive'})
            bundles.append(data)
        enc = [tu.rfc_encode(m) for m in msgs]
        stream = b''.join(enc)
        ends = []
        pos = 0
        for e in enc:
            pos += len(e)
            ends.append(pos)
        n = len(stream)
        c = rng.random()
        if c < 0.2:
            cuts = []
        elif c < 0.5:
            # around the contact-header / SESS_INIT boundaries
            cuts = sorted(set(k for k in (rng.choice([5, 6, 7]), ends[1] + rng.choice([-1, 0, 1])) if 0 < k < n))
        else:
            cuts = sorted(rng.sample(range(1, n), min(rng.choice([1, 2, 4, 8]), n - 1))) if n > 1 else []
        chunks = [ch for ch in split(stream, cuts) for ch in (split(ch, list(range(ts.CHUNK, len(ch), ts.CHUNK))) if len(ch) > ts.CHUNK else [ch])]
        chk.case({'full_stack': True, 'passive': passive, 'n': n, 'cuts': cuts[:12], 'bundles': [len(b) for b in bundles]})
        chk.count('full-stack')
        fed = 0
        bad = None
        drain_between = rng.random() < 0.5
        for ch in chunks:
            if x.closed():
                break
            sim.rx_bytes(x, ch)
            fed += len(ch)
            if x.obs[-1].get('escaped'):
                bad = ('C07:full-stack-escape-%s' % x.obs[-1]['escaped'], 'exception %s escapes the read callback of the whole endpoint' % x.obs[-1]['escaped'])
                break
            if drain_between:
                adv.drain()
            if not x.closed():
                sim.query(x, 'idle')     # a message prefix waiting for its last octet is not "idle"
            complete = [m for m, e in zip(msgs, ends) if e <= fed]
            want_state = 'established' if len(complete) >= 2 else ('session-negotiating' if len(complete) >= 1 else 'contact-negotiating')
            if not x.closed() and str(x.h._state) != want_state and bad is None:
                bad = ('C07:full-stack-state-after-%d-messages' % min(len(complete), 2),
                       'after %d of %d octets (%d complete messages) the session state is %s, expected %s' % (fed, n, len(complete), x.h._state, want_state))
        adv.drain()
        if bad is None and not x.closed():
            nseg = sum(1 for m in msgs if m['k'] == 'xfer_segment')
            acks = [m for m in adv.frames() if m['k'] == 'xfer_ack']
            if len(acks) != nseg:
                bad = ('C07:full-stack-acks-%s' % ('missing' if len(acks) < nseg else 'extra'),
                       'the stream holds %d complete segments, the endpoint wrote %d XFER_ACKs' % (nseg, len(acks)))
            else:
                got = []
                for tid in [int(q) for q in x.h.recv_bundle_get_queue()]:
                    got.append(bytes(x.h.recv_bundle_pop_data(str(tid))))
                if got != bundles:
                    bad = ('C07:full-stack-delivered-differs', 'bundles delivered %s differ from those of the stream %s' % ([len(g) for g in got], [len(b) for b in bundles]))
        elif bad is None and x.closed():
            bad = ('C07:full-stack-closed', 'the endpoint closed the connection on a valid pipelined stream')
        if bad is None:
            import tcpcl_monitors as tm
            for (sig, what) in tm.mon_c18_queues(sim):
                if sig == 'C18:idle-unsound':
                    bad = ('C07:idle-with-partial-message', what)
                    break
        if bad:
            chk.violation(bad[0], bad[1], {'passive': passive, 'chunks': [c2.hex() for c2 in chunks], 'events': x.events, 'cfg': x.model_cfg()})
        sims.append((sim, 'full-stack %d' % i))
        if len(sims) >= 40:
            _compare_one_sided(chk, sims, sc)
            sims = []
    _compare_one_sided(chk, sims, sc)


def closing_message_cases(chk):
    ''' 6. A message which makes the endpoint close, followed by more messages in the same read: nothing after it
    may be acted on, however the stream is cut. The closing message available without a TLS stack is a contact
    header that violates the local TLS policy (require_tls with a peer which does not offer TLS). '''
    import tcpcl_sim as ts
    from props import c17
    rng, tier = chk.rng, chk.tier
    for i in range(16 if tier == 'quick' else 200):
        passive = rng.random() < 0.5
        adv = c17.Adversary(rng, passive, {'require_tls': True})
        x, sim = adv.x, adv.sim
        sim.start(x)
        adv.drain()
        data = bytes(rng.getrandbits(8) for _ in range(rng.choice([0, 3, 40])))
        msgs = [{'k': 'contact', 'flags': 0},
                {'k': 'sess_init', 'keepalive': 0, 'seg_mru': 2 ** 64 - 1, 'xfer_mru': 2 ** 64 - 1, 'node': b'dtn://peer/'.hex(), 'ext': ''},
                {'k': 'xfer_segment', 'flags': 3, 'tid': 1, 'ext': tu.ext_blob([(0, 1, len(data).to_bytes(8, 'big'))]).hex(), 'data': data.hex()}]
        stream = b''.join(tu.rfc_encode(m) for m in msgs[:rng.choice([2, 3])])
        n = len(stream)
        cuts = [] if rng.random() < 0.5 else sorted(rng.sample(range(1, n), min(rng.choice([1, 2, 3]), n - 1)))
        chunks = split(stream, cuts)
        chk.case({'closing_message': True, 'passive': passive, 'n': n, 'cuts': cuts})
        chk.count('closing-message')
        bad = None
        for ch in chunks:
            if x.closed():
                break
            sim.rx_bytes(x, ch)
            if x.obs[-1].get('escaped'):
                bad = ('C07:acted-after-close-escape-%s' % x.obs[-1]['escaped'],
                       'exception %s escapes the read callback: octets after the message which closed the connection were still dispatched' % x.obs[-1]['escaped'])
                break
        adv.drain()
        if bad is None:
            sigs = [s['sig'] for o in x.obs for s in o['sigs']]
            if not x.closed():
                bad = ('C07:policy-violating-contact-not-closed', 'require_tls is set, the peer does not offer TLS, and the connection stays open')
            elif str(x.h._state) == 'established' or bool(x.h._in_sess) or any(sg.startswith('recv_bundle') for sg in sigs):
                bad = ('C07:acted-after-close', 'messages which followed the closing contact header in the same read were acted on (state %s, in session %s, signals %s)'
                       % (x.h._state, bool(x.h._in_sess), [sg for sg in sigs if sg.startswith('recv_bundle')]))
            elif any(m['k'] == 'sess_init' for m in adv.frames()) and passive:
                bad = ('C07:acted-after-close', 'a SESS_INIT was written although the contact header had closed the connection')
        if bad:
            chk.violation(bad[0], bad[1], {'passive': passive, 'chunks': [c2.hex() for c2 in chunks], 'events': x.events})


def _compare_one_sided(chk, sims, sc):
    ''' only the endpoint under test has events (the peer is scripted) '''
    import tcpcl_sim as ts
    reqs, owners = [], []
    for sim, label in sims:
        for ep in sim.eps():
            if ep.events:
                reqs.append(ts.model_requests(ep))
                owners.append((ep, label))
    if not reqs:
        return
    try:
        outs = chk.driver(reqs)
    except Exception as err:
        chk.corr_break('model driver unavailable: %s' % str(err)[:300], {})
        return
    for out, (ep, label) in zip(outs, owners):
        if 'trace' not in out:
            chk.corr_break('model rejected the event list: %s' % out, {'label': label})
            continue
        d = ts.diff_trace(ep, out['trace'])
        chk.cov['traces_validated_against_impl'] = chk.cov.get('traces_validated_against_impl', 0) + 1
        if d is not None:
            i, det = d
            chk.corr_break('endpoint %s: model and implementation differ at event %d (%s)' % (ep.name, i, json.dumps(ep.events[i])[:80]),
                           {'label': label, 'cfg': ep.model_cfg(), 'events': ep.events[:i + 1], 'diff': det})


def replay(chk, path):
    rep = json.load(open(path))['replay']
    stream = bytes.fromhex(rep['stream'])
    chunks = [bytes.fromhex(c) for c in rep.get('chunks', [rep['stream']])]
    trace = run_impl(chunks)
    print(json.dumps(trace, indent=1)[:3000])
    ok = monitor(chk, stream, chunks, trace, 'replay')
    print('replay:', 'property holds on this input' if ok and not chk.violations else 'VIOLATION reproduced: %s' % [v['signature'] for v in chk.violations])
    return 0 if ok and not chk.violations else 1
