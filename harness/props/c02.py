''' C02 — BPv7 bundle encoding round-trips and is RFC 9171 well-formed.

Proof: DtnVerif.Props.C02 (round trip, re-encode against the independent RFC 9171 encoder, shape).
Correspondence (all in-process against the real bp.encoding classes):
  A  generated spec -> real bytes(Bundle(...))          vs  Lean bp.encode / bp.updatecrc
  B  real Bundle(data) field values                     vs  Lean bp.decode (raw) and the spec
  C  Lean rfcEncode octets -> real decoder -> re-encode (must reproduce the octets)
  D  malformed stream: real ok/error                    vs  Lean decode some/none (coarse class)
Monitors (implementation only, independent of the model): round trip of field values, re-encoding
reproduces the octets, independent RFC 9171 shape reader (bp_gen.split_blocks) + payload block last.
'''
import json
import os
import re

import cbor2

from . import bp_gen as G

_PENDING = []
_ASB = []


def _real_encode(spec):
    ''' (bytes, bundle object) through the real classes; CRCs by update_all_crc when requested '''
    b = G.real_bundle(spec)
    if spec['crc_mode'] == 'update':
        b.update_all_crc()
    return bytes(b), b


def _is_rfc_shape(data, chk=None):
    try:
        blocks = G.split_blocks(data)
    except (ValueError, IndexError) as err:
        return False, 'shape:%s' % err
    if len(blocks) < 2:
        return False, 'no payload block'
    if blocks[-1].get('type') != 1:
        return False, 'payload block not last'
    if any(b.get('type') == 1 for b in blocks[1:-1]):
        return False, 'second payload block'
    return True, ''


def check_specs(chk, specs, label):
    ''' streams A, B, C and the monitors on a list of specs '''
    R = G.real()
    reqs = []
    reals = []
    for spec in specs:
        try:
            data, obj = _real_encode(spec)
            err = None
        except Exception as e:  # noqa
            data, obj, err = None, None, e
        reals.append((data, obj, err))
        j = G.spec_json(spec)
        reqs.append({'op': 'bp.updatecrc' if spec['crc_mode'] == 'update' else 'bp.encode', 'bundle': j})
        reqs.append({'op': 'bp.wf', 'bundle': j})
    outs = chk.driver(reqs)
    # second round: things that depend on the first answers
    reqs2 = []
    for i, spec in enumerate(specs):
        lean_hex = outs[2 * i].get('hex')
        lean_bundle = outs[2 * i].get('bundle', G.spec_json(spec))
        reqs2.append({'op': 'bp.rfcencode', 'bundle': lean_bundle})
        reqs2.append({'op': 'bp.decode', 'hex': lean_hex or ''})
        reqs2.append({'op': 'bp.shape', 'hex': lean_hex or ''})
        reqs2.append({'op': 'bp.wf', 'bundle': lean_bundle})
    outs2 = chk.driver(reqs2)
    for i, spec in enumerate(specs):
        data, obj, err = reals[i]
        enc, wf = outs[2 * i], outs[2 * i + 1]
        rfc, dec, shape, wf2 = outs2[4 * i], outs2[4 * i + 1], outs2[4 * i + 2], outs2[4 * i + 3]
        replay = {'stream': label, 'spec': json.loads(json.dumps(G.spec_json(spec))),
                  'crc_mode': spec['crc_mode']}
        p = spec['primary']
        chk.count('%s:crc_mode=%s' % (label, spec['crc_mode']))
        chk.count('primary.crc_type=%d' % p['crc_type'])
        chk.count('primary.fragment=%s' % bool(p['flags'] & 1))
        chk.count('primary.admin=%s' % bool(p['flags'] & 2))
        nb = len(spec['blocks'])
        chk.count('blocks=%s' % (nb if nb < 8 else '8..22' if nb < 23 else '>=23 (>=24 items)'))
        for e in (p['dest'], p['src'], p['rpt']):
            chk.count('eid=%s' % e[0])
        for b in spec['blocks']:
            chk.count('block.type=%s' % (b['type'] if b['type'] in (1, 6, 7, 10) else 'other'))
            chk.count('block.crc_type=%d' % b['crc_type'])
            n = len(b['btsd'])
            chk.count('btsd.len=%s' % ('<24' if n < 24 else '<256' if n < 256 else '<65536' if n < 65536 else '>=65536'))
        chk.case(replay, nontrivial=True, sample=(i < 2))
        if err is not None:
            chk.corr_break('real encoder raised %s: %s' % (type(err).__name__, err), replay)
            chk.violation('C02:encode-raises', 'bytes(Bundle) raised %r on a well-formed bundle' % err, replay)
            continue
        if not wf.get('wf'):
            chk.count('generator:not-wf')
            chk.corr_break('generator produced a bundle the model calls not well-formed', replay)
            continue
        replay['real_hex'] = data.hex()
        # --- A: encoders
        if enc.get('hex') != data.hex():
            replay['lean_hex'] = enc.get('hex')
            chk.corr_break('A: real bytes(Bundle) differs from the model encoder', replay)
        if rfc.get('hex') != data.hex():
            replay['rfc_hex'] = rfc.get('hex')
            chk.corr_break('A: real bytes(Bundle) differs from the independent RFC 9171 encoder (Lean)', replay)
        py_spec = spec
        if spec['crc_mode'] == 'update':
            # third encoder needs the CRC values; take them from the independent bitwise CRC
            py_spec = _with_crcs(spec)
        py_hex = G.spec_rfc_bytes(py_spec).hex()
        if py_hex != data.hex():
            replay['py_rfc_hex'] = py_hex
            chk.corr_break('A: real bytes(Bundle) differs from the Python RFC 9171 encoder + bitwise CRC', replay)
            chk.violation('C02:encoding-not-rfc9171', 'real encoding differs from the independent RFC 9171 encoding', replay)
        # --- monitors on the implementation: shape, decode, field values, re-encode
        expect = G.spec_observable(py_spec)
        rfcwf = wf2.get('rfcwf')
        chk.count('rfcWf=%s' % bool(rfcwf))
        ok, why = _is_rfc_shape(data)
        if rfcwf and not ok:
            chk.violation('C02:shape', 'encoded bundle is not the RFC 9171 structure: %s' % why, replay)
        if rfcwf and not shape.get('ok'):
            chk.corr_break('Lean rfc9171Shape rejects the real encoding of an rfcWf bundle', replay)
        if shape.get('ok') != ok and p['version'] == 7 and _crc_widths_ok(py_spec):
            chk.corr_break('shape recognisers disagree: lean=%s python=%s (%s)' % (shape.get('ok'), ok, why), replay)
        try:
            back = R['Bundle'](data)
            seen = G.real_observable(back)
            again = bytes(back)
        except Exception as e:  # noqa
            chk.corr_break('real decoder raised %s on its own encoding' % type(e).__name__, replay)
            chk.violation('C02:decode-own-encoding-raises', 'Bundle(bytes(Bundle)) raised %r' % e, replay)
            continue
        if seen != expect:
            replay['decoded'] = seen
            replay['expected'] = expect
            chk.violation('C02:roundtrip-values', 'decoded field values differ from the encoded ones', replay)
        if again != data:
            replay['reencoded'] = again.hex()
            chk.violation('C02:reencode-bytes', 're-encoding the decoded bundle does not reproduce the octets', replay)
        _reencode_like_agent(chk, data, replay, crcs_valid=(spec['crc_mode'] == 'update'))
        # --- B: decoders
        raw = G.lean_observable(dec.get('raw'))
        if raw != seen:
            replay['lean_decoded'] = raw
            replay['real_decoded'] = seen
            chk.corr_break('B: decoded field values differ between real Bundle(data) and the model', replay)
        norm = dec.get('norm')
        if norm is None or G.lean_observable(norm) != raw:
            chk.corr_break('B: model normalisation changes a well-formed bundle', replay)
        # security block payloads (types 11/12): parsed view of the abstract security block and its
        # re-encoding from the parsed form
        for sb, rb in zip(spec['blocks'], back.blocks):
            ex = sb.get('extra')
            if ex and ex['kind'] == 'asb':
                _ASB.append((replay, ex['asb'], sb['btsd']))
                want = G.asb_observable(ex['asb'])
                chk.count('asb.empty-result-array=%s' % any(len(r) == 0 for r in ex['asb']['results']))
                pay = rb.payload
                if pay is None or not hasattr(pay, 'getfieldval') or 'context_id' not in pay.fields:
                    replay['asb_payload'] = repr(pay)[:200]
                    chk.violation('C02:asb-not-decoded', 'security block payload of a well-formed bundle was not dissected', replay)
                    continue
                try:
                    got = G.real_asb_observable(pay)
                except Exception as e:  # noqa
                    got = 'raised %s: %s' % (type(e).__name__, e)
                if got != want:
                    replay['asb_got'] = repr(got)
                    replay['asb_want'] = repr(want)
                    chk.violation('C02:asb-values', 'decoded security block (ASB) field values differ from the encoded '
                                  'ones (e.g. an empty result array must decode to an empty list)', replay)
                try:
                    re_asb = bytes(pay)
                except Exception as e:  # noqa
                    re_asb = None
                if re_asb != sb['btsd']:
                    replay['asb_reencoded'] = re_asb.hex() if re_asb is not None else None
                    replay['asb_btsd'] = sb['btsd'].hex()
                    chk.violation('C02:asb-reencode', 're-encoding the decoded security block payload does not '
                                  'reproduce its block-type-specific data', replay)
        # status report payloads: the real classes' view of the admin record
        for sb, rb in zip(spec['blocks'], back.blocks):
            ex = sb.get('extra')
            if ex and ex['kind'] == 'status':
                got = G.real_status_observable(rb)
                want = G.spec_status_observable(ex['rep'])
                chk.count('status.times=%s' % any(at is not None for _s, at in ex['rep']['infos']))
                if got != want:
                    replay['status_got'] = repr(got)
                    replay['status_want'] = repr(want)
                    chk.violation('C02:status-report-values', 'decoded status report differs from the encoded one', replay)
        chk.cov['traces_validated_against_impl'] += 1


def check_asb_model(chk):
    ''' Lean ASB codec (Model/BpAsb) vs the octets the real classes produced and the generated values '''
    items = list(_ASB)
    del _ASB[:]
    if not items:
        return
    outs = chk.driver([x for _rp, asb, btsd in items for x in (
        {'op': 'bp.asbenc', 'asb': G.asb_json(asb)}, {'op': 'bp.asbdec', 'hex': btsd.hex()})])
    for i, (rp, asb, btsd) in enumerate(items):
        enc, dec = outs[2 * i], outs[2 * i + 1]
        chk.count('asb:model')
        if not enc.get('wf'):
            chk.corr_break('generator produced an ASB the model calls not well-formed', rp)
        elif enc.get('hex') != btsd.hex():
            chk.corr_break('ASB: Lean encoder differs from the real security block payload', dict(rp, lean_asb=enc.get('hex')))
        if G.lean_asb_observable(dec.get('asb')) != G.asb_observable(asb):
            chk.corr_break('ASB: Lean decoder differs from the generated values', dict(rp, lean_asb=dec.get('asb')))


def _reencode_like_agent(chk, data, replay, crcs_valid):
    ''' the agent encodes every bundle it sends with fill_fields(); update_all_crc(); bytes() — for a decoded
    bundle whose CRCs are valid that must reproduce the received octets (the CRC of a block does not
    depend on the CRC value the block already carries) '''
    if not crcs_valid:
        return
    R = G.real()
    try:
        b2 = R['Bundle'](data)
        b2.fill_fields()
        b2.update_all_crc()
        out = bytes(b2)
        b2.update_all_crc()
        out2 = bytes(b2)
    except Exception as e:  # noqa
        chk.violation('C02:reencode-after-crc-update', 'fill_fields(); update_all_crc(); bytes() raised %r on a decoded bundle' % e, dict(replay))
        return
    chk.count('reencode-like-agent')
    if out != data or out2 != data:
        rp = dict(replay)
        rp['reencoded_after_update'] = out.hex()
        rp['reencoded_after_second_update'] = out2.hex()
        chk.violation('C02:reencode-after-crc-update', 're-encoding a decoded bundle with valid CRCs the way the agent does '
                      '(fill_fields(); update_all_crc(); bytes()) does not reproduce the octets', rp)


def _dtn_ms(dt):
    ''' exact integer milliseconds since the DTN epoch 2000-01-01T00:00:00Z (floor), integer arithmetic only '''
    import datetime
    d = dt - datetime.datetime(2000, 1, 1, tzinfo=datetime.timezone.utc)
    return (d.days * 86400 + d.seconds) * 1000 + d.microseconds // 1000


def check_dtntime(chk, n):
    ''' G: DTN times given as datetime objects / ISO text (Timestamp(dtntime=…), StatusInfo(at=…), the
    agent's Timestamper path DtnTimeField.datetime_to_dtntime): the encoded integer is the exact number
    of milliseconds since 2000-01-01, and for millisecond-precision datetimes the value read back is
    the datetime that was set. Values are aimed at the places where a floating-point conversion goes
    wrong: non-zero milliseconds with a seconds count just above a power of two. '''
    import datetime
    R = G.real()
    from bp.encoding.fields import DtnTimeField
    rng = chk.rng
    epoch = datetime.datetime(2000, 1, 1, tzinfo=datetime.timezone.utc)
    cands = []
    for k in range(0, 33):
        for _ in range(3):
            secs = (1 << k) + rng.randrange(0, max(1, (1 << k) // 40 + 1))
            cands.append((secs, rng.choice([1, 999, rng.randrange(1, 1000)]), 0))
    for _ in range(n):
        secs = rng.randrange(0, 2 ** 32)
        cands.append((secs, rng.choice([0, 1, 500, 999, rng.randrange(1000)]), rng.choice([0, 0, 1, 999, rng.randrange(1000)])))
    reqs = []
    todo = []
    for secs, ms, us in cands:
        if secs >= 253370764800:     # year 9999
            continue
        dt = epoch + datetime.timedelta(seconds=secs, milliseconds=ms, microseconds=us)
        want = _dtn_ms(dt)
        todo.append((dt, want, us))
        reqs.append({'op': 'bp.dtntime', 'us': (secs * 1000 + ms) * 1000 + us})
    outs = chk.driver(reqs)
    for (dt, want, us), o in zip(todo, outs):
        replay = {'stream': 'G', 'datetime': dt.isoformat(), 'expected_dtntime': want}
        chk.case(replay)
        chk.count('G:dtntime from datetime')
        if o.get('dtntime') != want:
            chk.corr_break('G: Lean dtnTimeOfMicros differs from the harness integer conversion', dict(replay, lean=o))
        got = {}
        try:
            got['datetime_to_dtntime'] = DtnTimeField.datetime_to_dtntime(dt)
            ts = R['Timestamp'](dtntime=dt, seqno=1)
            got['Timestamp.dtntime'] = ts.getfieldval('dtntime')
            got['Timestamp bytes'] = bytes(ts).hex()
            got['Timestamp(iso text)'] = R['Timestamp'](dtntime=dt.replace(tzinfo=None).isoformat(), seqno=1).getfieldval('dtntime')
            si = R['StatusInfo'](status=True, at=dt)
            got['StatusInfo bytes'] = bytes(si).hex()
            back = R['Timestamp'](bytes(ts))
            got['read back'] = DtnTimeField.dtntime_to_datetime(back.getfieldval('dtntime'))
        except Exception as e:  # noqa
            got['raised'] = '%s: %s' % (type(e).__name__, e)
        exp = {'datetime_to_dtntime': want, 'Timestamp.dtntime': want,
               'Timestamp bytes': G.cb_arr([G.cb_uint(want), G.cb_uint(1)]).hex(),
               'Timestamp(iso text)': want, 'StatusInfo bytes': G.cb_arr([b'\xf5', G.cb_uint(want)]).hex(),
               'read back': (dt - datetime.timedelta(microseconds=us)) if want else None}
        bad = {k: (repr(got.get(k)), repr(v)) for k, v in exp.items() if got.get(k) != v}
        if 'raised' in got or bad:
            replay['got_vs_expected'] = bad
            replay['raised'] = got.get('raised')
            chk.violation('C02:dtntime-conversion', 'a DTN time given as a datetime is not encoded as the exact number of '
                          'milliseconds since 2000-01-01T00:00:00Z (or does not read back as the value set): %s' % bad, replay)
        chk.cov['traces_validated_against_impl'] += 1


def _crc_widths_ok(spec):
    for b in [spec['primary']] + spec['blocks']:
        ct = b['crc_type']
        if ct and (b['crc'] is None or len(b['crc']) != 2 * ct):
            return False
    return True


def _with_crcs(spec):
    ''' copy of the spec with CRC values from the independent bit-at-a-time CRC '''
    out = {'primary': dict(spec['primary']), 'blocks': [dict(b) for b in spec['blocks']],
           'crc_mode': 'given'}
    p = out['primary']
    if p['crc_type']:
        p['crc'] = bytes(2 * p['crc_type'])
    else:
        p['crc'] = None
    for b in out['blocks']:
        b['crc'] = bytes(2 * b['crc_type']) if b['crc_type'] else None
    data = G.spec_rfc_bytes(out)
    blocks = G.split_blocks(data)
    targets = [p] + out['blocks']
    for blk, tgt in zip(blocks, targets):
        if tgt['crc_type']:
            tgt['crc'] = G.crc_octets(tgt['crc_type'], data[blk['start']:blk['end']])
    return out


def check_rfc_stream(chk, specs):
    ''' C: octets produced by the Lean rfcEncode -> real decoder -> values and re-encoding '''
    R = G.real()
    given = [s for s in specs if s['crc_mode'] == 'given']
    outs = chk.driver([{'op': 'bp.rfcencode', 'bundle': G.spec_json(s)} for s in given])
    for spec, o in zip(given, outs):
        data = bytes.fromhex(o['hex'])
        replay = {'stream': 'C', 'rfc_hex': o['hex']}
        chk.case(replay)
        chk.count('C:rfcencode->real')
        try:
            back = R['Bundle'](data)
            seen = G.real_observable(back)
            again = bytes(back)
        except Exception as e:  # noqa
            chk.violation('C02:decode-rfc-encoding-raises', 'Bundle(rfcEncode octets) raised %r' % e, replay)
            continue
        if seen != G.spec_observable(spec):
            replay['decoded'] = seen
            chk.violation('C02:decode-rfc-values', 'real decoder misreads octets of the independent encoder', replay)
        if again != data:
            replay['reencoded'] = again.hex()
            chk.violation('C02:reencode-bytes', 're-encoding the decoded bundle does not reproduce the octets', replay)
        chk.cov['traces_validated_against_impl'] += 1


# ---------------------------------------------------------------- malformed stream

def _items_of(spec):
    ''' the bundle as nested Python lists of already encoded leaves, so structure can be mutated '''
    p = spec['primary']
    pri = [G.cb_uint(p['version']), G.cb_uint(p['flags']), G.cb_uint(p['crc_type']), G.eid_cbor(p['dest']),
           G.eid_cbor(p['src']), G.eid_cbor(p['rpt']), G.cb_arr([G.cb_uint(p['time']), G.cb_uint(p['seq'])]),
           G.cb_uint(p['lifetime'])]
    if p['flags'] & 1:
        pri += [G.cb_uint(p['frag_off']), G.cb_uint(p['total_len'])]
    if p['crc_type']:
        pri.append(G.cb_optbstr(p['crc']))
    blocks = []
    for b in spec['blocks']:
        it = [G.cb_uint(b['type']), G.cb_uint(b['num']), G.cb_uint(b['flags']), G.cb_uint(b['crc_type']),
              G.cb_optbstr(b['btsd'])]
        if b['crc_type']:
            it.append(G.cb_optbstr(b['crc']))
        blocks.append(it)
    return pri, blocks


WRONG_ITEMS = [b'\x20', b'\x38\xff', b'\x61a', b'\x41\x01', b'\x80', b'\x81\x00', b'\xa0', b'\xf4', b'\xf5',
               b'\xf6', b'\xf7', b'\xf9\x3c\x00', b'\xfb\x3f\xf0\x00\x00\x00\x00\x00\x00', b'\xc1\x00',
               b'\x9f\xff', b'\x5f\x41\x00\xff', b'\x7f\x61a\xff', b'\x1c', b'\xff', b'\x03', b'\x18\x03']


def gen_malformed(rng, spec):
    ''' (kind, octets) — one structural mutation of a valid encoding '''
    pri, blocks = _items_of(spec)
    kind = rng.choice(['arity-head', 'drop-item', 'add-item', 'wrong-type', 'long-head', 'truncate',
                       'crc-type', 'eid-scheme', 'eid-ssp-int', 'no-break', 'outer-definite', 'flip',
                       'trailing', 'ts-arity', 'eid-arity'])
    tgt_is_pri = rng.random() < 0.5 or not blocks
    tgt = pri if tgt_is_pri else rng.choice(blocks)
    head_n = len(tgt)

    def assemble(pri_head=None, blk_heads=None, brk=b'\xff', outer=b'\x9f'):
        out = [outer, (pri_head if pri_head is not None else G.cb_head(4, len(pri))) + b''.join(pri)]
        for i, b in enumerate(blocks):
            h = blk_heads.get(i) if blk_heads else None
            out.append((h if h is not None else G.cb_head(4, len(b))) + b''.join(b))
        out.append(brk)
        return b''.join(out)

    if kind == 'arity-head':
        delta = rng.choice([-1, 1])
        h = G.cb_head(4, max(0, head_n + delta))
        if tgt_is_pri:
            return kind, assemble(pri_head=h)
        return kind, assemble(blk_heads={blocks.index(tgt): h})
    if kind == 'drop-item':
        del tgt[rng.randrange(len(tgt))]
        return kind, assemble()
    if kind == 'add-item':
        tgt.insert(rng.randrange(len(tgt) + 1), rng.choice(WRONG_ITEMS[:17]))
        return kind, assemble()
    if kind == 'wrong-type':
        tgt[rng.randrange(len(tgt))] = rng.choice(WRONG_ITEMS)
        return kind, assemble()
    if kind == 'long-head':
        # re-encode one unsigned integer (or the block array head) non-minimally: still valid CBOR
        cands = [i for i, it in enumerate(tgt) if it[0] >> 5 == 0]
        i = rng.choice(cands)
        mt, n, _ = G.cb_read_head(tgt[i], 0)
        tgt[i] = G.cb_head_long(0, n, rng.choice([1, 2, 3]))
        return kind, assemble()
    if kind == 'truncate':
        d = assemble()
        return kind, d[:rng.randrange(0, len(d))]
    if kind == 'crc-type':
        idx = 2 if tgt_is_pri else 3
        tgt[idx] = G.cb_uint(rng.choice([3, 4, 23, 24, 255]))
        return kind, assemble()
    if kind == 'eid-scheme':
        pri[rng.choice([3, 4, 5])] = G.cb_arr([G.cb_uint(rng.choice([0, 3, 24, 65536])), G.cb_tstr('//x/')])
        return kind, assemble()
    if kind == 'eid-ssp-int':
        pri[rng.choice([3, 4, 5])] = G.cb_arr([G.cb_uint(1), G.cb_uint(rng.choice([1, 2, 24]))])
        return kind, assemble()
    if kind == 'eid-arity':
        pri[rng.choice([3, 4, 5])] = rng.choice([G.cb_arr([G.cb_uint(1)]), G.cb_arr([]),
                                                 G.cb_arr([G.cb_uint(2), G.cb_arr([])])])
        return kind, assemble()
    if kind == 'ts-arity':
        pri[6] = rng.choice([G.cb_arr([G.cb_uint(5)]), G.cb_arr([]), G.cb_uint(7)])
        return kind, assemble()
    if kind == 'no-break':
        return kind, assemble(brk=b'')
    if kind == 'outer-definite':
        return kind, assemble(brk=b'', outer=G.cb_head(4, 1 + len(blocks)))
    if kind == 'trailing':
        return kind, assemble() + bytes(rng.randrange(256) for _ in range(rng.randrange(1, 5)))
    d = bytearray(assemble())
    i = rng.randrange(len(d) * 8)
    d[i // 8] ^= 1 << (i % 8)
    return kind, bytes(d)


def _admin_payload_opaque(lean_raw, orig_payload_hex):
    ''' With the PAYLOAD_ADMIN flag, Bundle.post_dissect runs AdminRecord(btsd) on payload blocks and lets
    its exception escape; the model leaves that payload opaque. True when the decoded bundle carries
    the flag and a payload other than the generated (canonical) admin record. '''
    if not lean_raw['primary']['flags'] & 2:
        return False
    for b in lean_raw['blocks']:
        if b['type'] == 1 and b['btsd'] is not None and b['btsd'] != orig_payload_hex:
            return True
    return False


def check_malformed(chk, cases):
    R = G.real()
    nb = len(cases)
    cases = [c for c in cases if not G.bomb_screen(c[1])]
    if nb != len(cases):
        chk.count('D:not run: uint >= 2^17 in a byte-string slot (BstrField.m2i would allocate that many octets)', nb - len(cases))
    outs = chk.driver([{'op': 'bp.decode', 'hex': c[1].hex()} for c in cases])
    for case, o in zip(cases, outs):
        kind, data = case[0], case[1]
        orig_payload = case[2] if len(case) > 2 else None
        replay = {'stream': 'D', 'kind': kind, 'hex': data.hex()}
        chk.case(replay)
        try:
            back = R['Bundle'](data)
            real_ok = True
        except Exception as e:  # noqa
            back = None
            real_ok = False
            utf8_err = type(e).__name__ == 'CBORDecodeError' and 'text string' in str(e)
            chk.count('D:real-error=%s' % type(e).__name__)
        if real_ok:
            try:
                ts = G.slot_text_audit(data, G.real_observable(back))
            except Exception:  # noqa
                ts = []
            if ts:
                chk.violation('C02:text-string-decoded-as-octets', 'a CBOR text string in a byte-string field (block data / '
                              'CRC value) was decoded to the same octets as a byte string (block, field): %s' % ts,
                              dict(replay, text_slots=ts))
        model_ok = o.get('raw') is not None
        cls = 'D:%s real=%s model=%s' % (kind, 'ok' if real_ok else 'error', 'ok' if model_ok else 'none')
        chk.count(cls)
        if model_ok and not real_ok:
            rawp = G.lean_observable(o['raw'])['primary']
            if None in (rawp['dest'], rawp['src'], rawp['rpt']) or utf8_err:
                chk.count('D:outside-model text string that is not UTF-8')
                continue
            chk.corr_break('D: model decodes octets on which the real decoder raises', replay)
            if G.rfc_strict_ok(data):
                chk.violation('C02:decode-raises-on-wellformed', 'Bundle(octets) raised on octets that an independent strict '
                              'RFC 9171 reader finds well-formed (block data is opaque to the bundle decoder)', replay)
        elif real_ok and not model_ok:
            # real decoder more lenient than the declared subset: only a break when the octets are
            # the canonical encoding of what was decoded (then the model misses a valid encoding)
            try:
                again = bytes(back)
                subset = G.in_subset(G.real_observable(back))
            except Exception:  # noqa
                again, subset = None, False
            if again == data and subset:
                chk.corr_break('D: model rejects octets that the real code decodes and re-encodes identically', replay)
            else:
                chk.count('D:lenient-real-decoder (outside the supported subset)')
        elif real_ok and model_ok:
            raw = G.lean_observable(o['raw'])
            seen = G.real_observable(back)
            if raw != seen:
                replay['lean_decoded'] = raw
                replay['real_decoded'] = seen
                chk.corr_break('D: both decode, field values differ', replay)
            elif o.get('norm') is not None:
                # the model also predicts the re-encoding (EID normalisation, shortest heads)
                try:
                    again = bytes(back).hex()
                except Exception:  # noqa
                    again = None
                replay['norm'] = o['norm']
                _PENDING.append((replay, again))
            chk.cov['traces_validated_against_impl'] += 1


def check_pending_reenc(chk):
    ''' re-encodings predicted by the model for non-canonical but decodable inputs '''
    pend = list(_PENDING)
    del _PENDING[:]
    del _ASB[:]
    if not pend:
        return
    outs = chk.driver([{'op': 'bp.encode', 'bundle': r['norm']} for r, _a in pend])
    for (replay, again), o in zip(pend, outs):
        adm = replay['norm']['primary']['flags'] & 2
        if again != o['hex']:
            replay = dict(replay)
            replay['real_reencoded'] = again
            replay['lean_reencoded'] = o['hex']
            chk.corr_break('D: re-encoding of a decodable non-canonical input differs from the model', replay)
        else:
            chk.count('D:reencode-agrees')


# ---------------------------------------------------------------- directed cases

def directed_specs(rng):
    ''' head-size boundaries of every integer field and length, one at a time '''
    specs = []
    for v in G.BOUNDS:
        spec = G.gen_bundle(rng, 1, crc_mode='given')
        p = spec['primary']
        p.update({'flags': 1, 'time': v, 'seq': v, 'lifetime': v, 'frag_off': v, 'total_len': v,
                  'version': 7, 'src': ('ipn', [v, v]), 'dest': ('ipn', [v, 0, v])})
        for b in spec['blocks']:
            b['num'] = v if b['type'] != 1 else 1
            if b['type'] not in (1, 6, 7, 10, 11, 12):
                b['type'] = v if v > 12 else 192
        specs.append(spec)
    # security blocks whose targets have empty result arrays, alone and mixed
    for k in range(8):
        spec = G.gen_bundle(rng, 8 + k, crc_mode='update', nblocks=0)
        for j, ty in enumerate([11, 12][:1 + k % 2]):
            asb = G.gen_asb(rng, empty_results=(True if k < 4 else None))
            if k == 0:
                asb.update({'targets': [1], 'results': [[]]})
            spec['blocks'].insert(0, {'type': ty, 'num': 2 + j, 'flags': 0, 'crc_type': k % 3, 'btsd': G.asb_cbor(asb),
                                      'crc': None, 'extra': {'kind': 'asb', 'asb': asb, 'type': ty}})
        specs.append(spec)
    # number of top-level items around the CBOR head boundaries 23/24 and 255/256 (primary + n canonical blocks)
    for n_ext in [21, 22, 23, 24, 30, 254, 255]:
        specs.append(G.gen_bundle(rng, 3, crc_mode=rng.choice(['update', 'given']), nblocks=n_ext))
    for n in [0, 1, 22, 23, 24, 25, 254, 255, 256, 257, 65535, 65536]:
        spec = G.gen_bundle(rng, 4, crc_mode='update')
        spec['primary']['dest'] = ('dtn', '//' + 'h' * max(1, n - 3) + '/') if n >= 4 else ('dtn', '//h/')
        spec['blocks'][-1]['btsd'] = bytes([n & 0xff]) * n
        specs.append(spec)
    return specs


def d19_probe(chk):
    ''' D19 (fixed in the repository): a dtn EID whose demux contains ?query / #fragment must round-trip.
    Kept as a regression monitor with its signature. Also compares the code's remaining EID
    rewriting (non-RFC forms) with the Lean normalisation. '''
    R = G.real()
    for uri, ssp in [('dtn://node/svc?x=1', '//node/svc?x=1'), ('dtn://node/a#frag', '//node/a#frag'),
                     ('dtn://node/?', '//node/?'), ('dtn://node/#', '//node/#'), ('dtn://n/a?b#c?d', '//n/a?b#c?d')]:
        spec = {'primary': {'version': 7, 'flags': 0, 'crc_type': 0, 'dest': ('dtn', ssp), 'src': ('none',),
                            'rpt': ('none',), 'time': 1, 'seq': 1, 'lifetime': 1000, 'frag_off': 0,
                            'total_len': 0, 'crc': None},
                'blocks': [{'type': 1, 'num': 1, 'flags': 0, 'crc_type': 0, 'btsd': b'x', 'crc': None,
                            'extra': None}], 'crc_mode': 'given'}
        data = bytes(G.real_bundle(spec))
        back = R['Bundle'](data)
        got = back.primary.getfieldval('destination')
        want = G.spec_rfc_bytes(spec)
        o = chk.driver([{'op': 'bp.wf', 'bundle': G.spec_json(spec)}])
        chk.case({'d19': uri})
        chk.count('d19:probe')
        if not o[0].get('wf'):
            chk.corr_break('model calls an RFC 9171 EID with ?/# not well-formed', {'uri': uri})
        if data != want or got != uri:
            chk.violation('C02:eid-query-fragment-dropped',
                          'EID %r is encoded as %r: the ?query/#fragment part that RFC 9171 dtn-ssp '
                          '(demux = *VCHAR) allows is lost' % (uri, got),
                          {'uri': uri, 'real_hex': data.hex(), 'rfc_hex': want.hex(), 'decoded': got})
    # what the code still rewrites (not RFC 9171 EIDs): model vs real EidField.i2m(EidField.m2i(.))
    from bp.encoding.fields import EidField
    fld = EidField('probe')
    ssps = ['//host', '//host?q', '//host#f', '///x', '//', '//h/a\tb?c\td', 'none', 'no\tne', '~m?x', 'a/b#c',
            '//h/p?', '/x//y', '//h//p', '?', '#', '']
    outs = chk.driver([{'op': 'bp.normeid', 'eid': G.eid_json(('dtn', s))} for s in ssps])
    for s, o in zip(ssps, outs):
        chk.case({'normeid': s})
        chk.count('d19:normalisation probe')
        try:
            item = fld.i2m(None, fld.m2i(None, [1, s]))
            real = 'dtn:none' if item[1] == 0 else 'dtn:' + item[1]
        except Exception as e:  # noqa
            real = 'raised %s' % type(e).__name__
        model = G.eid_from_json(o['eid']) if 'eid' in o else 'none'
        if model != real:
            chk.corr_break('EID normalisation of %r: real %r, model %r' % (s, real, model), {'ssp': s})


def check_foreign(chk, specs):
    ''' F: bundles as another conforming sender could have produced them: block-type-specific data of the
    block types this code parses (6, 7, 10, 11, 12, administrative payload) serialised differently
    from this code's own encoder (longer heads, indefinite-length arrays, EID text the code would
    normalise), and PAYLOAD_ADMIN payloads that are not a dissectable record. The bundle decoder has to
    keep those octets: decoding never raises, field values are the received ones, re-encoding is
    byte-identical and the received CRCs still check. '''
    R = G.real()
    rng = chk.rng
    cases = []
    for spec in specs:
        sp = {'primary': dict(spec['primary']), 'blocks': [dict(b) for b in spec['blocks']], 'crc_mode': 'update'}
        kinds = []
        for b in sp['blocks']:
            ex = b.get('extra')
            if ex and ex['kind'] in ('prevnode', 'age', 'hopcount', 'asb', 'status'):
                k, d = G.foreign_btsd(rng, b)
                if d != b['btsd']:
                    b['btsd'] = d
                    kinds.append('%s:%s' % (ex['kind'], k))
        pay = sp['blocks'][-1]
        if sp['primary']['flags'] & 2 and rng.random() < 0.6:
            k, d = G.gen_nonrecord_payload(rng)
            pay['btsd'] = d
            pay['extra'] = None
            kinds.append('admin-payload:%s' % k)
        if not kinds:
            continue
        full = _with_crcs(sp)
        cases.append((full, kinds, G.spec_rfc_bytes(full)))
    outs = chk.driver([{'op': 'bp.decode', 'hex': d.hex()} for _s, _k, d in cases])
    for (full, kinds, data), o in zip(cases, outs):
        replay = {'stream': 'F', 'kinds': kinds, 'hex': data.hex()}
        chk.case(replay, sample=False)
        for k in kinds:
            chk.count('F:%s' % k)
        expect = G.spec_observable(full)
        try:
            back = R['Bundle'](data)
        except Exception as e:  # noqa
            replay['error'] = '%s: %s' % (type(e).__name__, e)
            chk.violation('C02:decode-raises-on-wellformed', 'Bundle(octets) raised %s on a well-formed bundle whose block '
                          'data is serialised differently / is not a dissectable record' % type(e).__name__, replay)
            continue
        try:
            seen = G.real_observable(back)
        except Exception as e:  # noqa
            seen = 'raised %s' % type(e).__name__
        if seen != expect:
            replay['decoded'] = seen
            replay['expected'] = expect
            chk.violation('C02:roundtrip-values', 'decoded field values (block-type-specific data included) differ from the received ones', replay)
        try:
            fails = sorted(int(x) if x is not None else -1 for x in back.check_all_crc())
        except Exception as e:  # noqa
            fails = 'raised %s' % type(e).__name__
        if fails != []:
            replay['check_all_crc'] = fails
            chk.violation('C02:decoded-crc-invalid', 'check_all_crc() right after decoding a bundle with valid CRCs reports '
                          'failing blocks: the block data was not kept as received', replay)
        try:
            again = bytes(back)
        except Exception as e:  # noqa
            again = None
        if again != data:
            replay['reencoded'] = again.hex() if again is not None else None
            chk.violation('C02:reencode-bytes', 're-encoding the decoded bundle does not reproduce the octets', replay)
        _reencode_like_agent(chk, data, replay, crcs_valid=True)
        raw = G.lean_observable(o.get('raw'))
        if raw != seen:
            replay['lean_decoded'] = raw
            chk.corr_break('F: decoded field values differ between real Bundle(data) and the model', replay)
        chk.cov['traces_validated_against_impl'] += 1


def check_defaults(chk):
    ''' objects built the way the agent's own code builds them — without bp_version, timestamp, lifetime,
    flags, CRC type — carry the defaults of the Lean structures (which mirror the field declarations);
    correspondence only: the defaults of unset fields are not part of the property text '''
    R = G.real()
    o = chk.driver([{'op': 'bp.defaults'}])[0]
    real = {'primary': bytes(R['PrimaryBlock']()).hex(), 'timestamp': bytes(R['Timestamp']()).hex(),
            'canonical': bytes(R['CanonicalBlock'](type_code=1, block_num=1, btsd=b'')).hex()}
    chk.case({'defaults': real})
    chk.count('defaults:probe')
    for k, v in real.items():
        if o.get(k) != v:
            chk.corr_break('defaults: %s built without arguments encodes as %s, the model structure default as %s'
                           % (k, v, o.get(k)), {'object': k, 'real_hex': v, 'lean_hex': o.get(k)})


def check_originated(chk, n):
    ''' H: bundles the agent originates itself — Agent.ping() and the status reports it generates for
    received bundles (PrimaryBlock built from destination/flags/CRC type only) — as handed to the
    convergence layer: RFC 9171 structure with version 7 as the independent readers see it, decodable,
    re-encodable. '''
    from . import c08
    from gi.repository import GLib
    R = G.real()
    rng = chk.rng
    tx = c08.TxAgent()
    agent = tx.agent
    sent_all = []
    for k in range(n):
        GLib.LOOP.sources.clear()
        cl = G.agent_tx_route(agent, None)
        what = 'ping' if k % 2 == 0 else 'status-report'
        try:
            if what == 'ping':
                agent.ping('dtn://peer%d/' % k, rng.choice([0, 1, 23, 24, 255, 256]))
            else:
                spec = G.gen_bundle(rng, 0, crc_mode='update', max_time=2 ** 40, nblocks=0, sec=False)
                spec['primary'].update({'flags': 0x4000 | 0x20000 | rng.choice([0, 0x40]), 'version': 7,
                                        'dest': ('dtn', '//txnode/svc'), 'src': ('dtn', '//src%d/' % k),
                                        'rpt': ('dtn', '//rpt%d/' % k), 'frag_off': 0, 'total_len': 0})
                spec['blocks'][-1]['extra'] = None
                b = G.real_bundle(spec)
                b.update_all_crc()
                agent._config.rx_route_table[:] = agent._config.rx_route_table[:1]
                agent._cl_recv_bundle_finish('verif')(bytes(b), {})
            G.agent_run_idle(agent)
        except Exception as e:  # noqa
            chk.count('H:%s raised %s' % (what, type(e).__name__))
        GLib.LOOP.sources.clear()
        for s in cl.sent:
            sent_all.append((what, s))
        chk.count('H:%s sent=%d' % (what, len(cl.sent)))
    outs = chk.driver([{'op': 'bp.shape', 'hex': s.hex()} for _w, s in sent_all])
    for (what, s), o in zip(sent_all, outs):
        replay = {'stream': 'H', 'originated': what, 'sent_hex': s.hex()}
        chk.case(replay)
        ok, why = _is_rfc_shape(s)
        ver = None
        try:
            ver = G.cb_read_head(s, G.split_blocks(s)[0]['items'][0][0])[1]
        except Exception:  # noqa
            pass
        strict = G.rfc_strict_ok(s)
        if not ok or not strict or ver != 7:
            replay['why'] = why or ('version %r' % ver if ver != 7 else 'field types')
            chk.violation('C02:originated-not-rfc9171', 'a bundle originated by the agent (%s) is not a well-formed RFC 9171 '
                          'bundle as an independent reader sees it: %s' % (what, replay['why']), replay)
        if not o.get('ok'):
            chk.corr_break('H: Lean rfc9171Shape rejects a bundle originated by the agent', replay)
        try:
            back = R['Bundle'](s)
            again = bytes(back)
        except Exception as e:  # noqa
            chk.violation('C02:decode-own-encoding-raises', 'Bundle(octets originated by the agent) raised %r' % e, replay)
            continue
        if again != s:
            chk.violation('C02:reencode-bytes', 're-encoding a decoded originated bundle does not reproduce the octets',
                          dict(replay, reencoded=again.hex()))
        chk.cov['traces_validated_against_impl'] += 1


def check_agent_tx(chk, specs):
    ''' E: octets the real agent hands to a convergence layer (Agent.send_bundle, ctr.sender = capture) '''
    from . import c08
    R = G.real()
    rx = c08.Rx()
    sent_all = []
    for spec in specs:
        try:
            cap = rx.send(G.real_bundle(spec))
        except Exception as e:  # noqa
            chk.count('E:send_bundle raised %s' % type(e).__name__)
            continue
        for sent in cap:
            sent_all.append((spec, sent))
    outs = chk.driver([x for _s, sent in sent_all for x in (
        {'op': 'bp.shape', 'hex': sent.hex()}, {'op': 'bp.decode', 'hex': sent.hex()})])
    for i, (spec, sent) in enumerate(sent_all):
        shape, dec = outs[2 * i], outs[2 * i + 1]
        replay = {'stream': 'E', 'spec': G.spec_json(spec), 'sent_hex': sent.hex()}
        chk.case(replay)
        chk.count('E:agent-transmitted')
        ok, why = _is_rfc_shape(sent)
        if spec['primary']['version'] == 7:
            if not ok:
                chk.violation('C02:shape', 'octets transmitted by the agent are not the RFC 9171 structure: %s' % why, replay)
            if not shape.get('ok'):
                chk.corr_break('E: Lean rfc9171Shape rejects octets transmitted by the agent', replay)
        try:
            back = R['Bundle'](sent)
            seen = G.real_observable(back)
            again = bytes(back)
        except Exception as e:  # noqa
            chk.violation('C02:decode-own-encoding-raises', 'Bundle(octets sent by the agent) raised %r' % e, replay)
            continue
        if again != sent:
            replay['reencoded'] = again.hex()
            chk.violation('C02:reencode-bytes', 're-encoding the decoded transmitted bundle does not reproduce the octets', replay)
        if G.lean_observable(dec.get('raw')) != seen:
            replay['lean_decoded'] = G.lean_observable(dec.get('raw'))
            replay['real_decoded'] = seen
            chk.corr_break('E: decoded field values of transmitted octets differ between real decoder and model', replay)
        chk.cov['traces_validated_against_impl'] += 1


def run(chk):
    del _PENDING[:]
    del _ASB[:]
    chk.cov['rule'] = ('type-directed generator of bundle specs: all 512 combinations of the defined primary flags '
                       '(cycled), all 16 block-flag combinations, dtn:/ipn:/dtn:none EIDs in structured form, CRC type '
                       'per block, fragment fields, extension blocks 6/7/10 via the real payload classes, unknown '
                       'types, status-report admin payloads with and without times, integers and lengths biased to '
                       'CBOR head boundaries; plus a malformed stream (15 mutation kinds)')
    chk.assumptions += [
        'text strings are valid UTF-8 and EID authorities are ASCII without [ ] (cbor2 / urlsplit NFKC and IPv6 checks are outside the model)',
        'the payload BTSD of an admin-record bundle is opaque to the Lean model; status reports are checked against an independent Python RFC 9171 §6.1.1 encoder and the real classes',
        'decoder leniency outside the supported subset (extra array items, int()/bytes() coercions, indefinite inner items) is counted, not compared',
    ]
    chk.prove('DtnVerif.Props.C02')
    G.limit_memory()
    rng = chk.rng
    quick = chk.tier == 'quick'
    n_main = 1100 if quick else 40000
    n_mal = 1500 if quick else 60000
    specs = directed_specs(rng)
    for i in range(n_main):
        specs.append(G.gen_bundle(rng, i, big=(i % 97 == 0)))
    B = 400
    for k in range(0, len(specs), B):
        check_specs(chk, specs[k:k + B], 'AB')
        check_asb_model(chk)
    check_rfc_stream(chk, specs)
    for k in range(0, len(specs), 2000):
        check_foreign(chk, specs[k:k + 2000])
    cases = []
    for i in range(n_mal):
        spec = G.gen_bundle(rng, i, crc_mode='given')
        cases.append(gen_malformed(rng, spec) + (spec['blocks'][-1]['btsd'].hex() if spec['primary']['flags'] & 2 else None,))
    for k in range(0, len(cases), 1000):
        check_malformed(chk, cases[k:k + 1000])
    check_pending_reenc(chk)
    check_dtntime(chk, 300 if quick else 20000)
    check_defaults(chk)
    check_originated(chk, 12 if quick else 200)
    check_agent_tx(chk, specs[:150 if quick else 2000])
    d19_probe(chk)


def replay(chk, path):
    ''' Re-run one recorded failing input on the implementation. '''
    del _PENDING[:]
    del _ASB[:]
    rec = json.load(open(path))
    rp = rec.get('replay', rec)
    R = G.real()
    if 'uri' in rp:
        d19_probe(chk)
    elif rp.get('stream') == 'D' or 'hex' in rp:
        check_malformed(chk, [(rp.get('kind', 'replay'), bytes.fromhex(rp['hex']))])
        check_pending_reenc(chk)
    elif 'rfc_hex' in rp and 'spec' not in rp:
        data = bytes.fromhex(rp['rfc_hex'])
        back = R['Bundle'](data)
        print('decoded', G.real_observable(back))
        print('reencode identical', bytes(back) == data)
    elif 'real_hex' in rp:
        data = bytes.fromhex(rp['real_hex'])
        back = R['Bundle'](data)
        print('decoded', G.real_observable(back))
        print('reencode identical', bytes(back) == data, 'shape', _is_rfc_shape(data))
    return chk.finish()
