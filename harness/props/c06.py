''' C06 — fragments reassemble to the original bundle once, in any arrival order.

Proof: DtnVerif.Props.C06 (models DtnVerif.Model.{Cover,Reasm}).
Correspondence: the same event list (CL hands over an encoded fragment / the k-th pending idle
callback runs) is given to a real bp.agent.Agent and to the Lean model (`frag.reasm`); after
every event the number of delivered bundles, of pending idle callbacks and the reassembly-table
entry of the event's bundle (total, buffer, first-fragment present, covered set) must agree, and
the delivered bundles must be identical octet strings.
Monitors (implementation only, own bookkeeping): no delivery before the received ranges cover
[0,total); after a covering set and a drained loop exactly one delivery, payload = original,
extension blocks = the offset-0 fragment's; nothing of another bundle mixed in.
'''
import itertools
import json

from props import fraglib as fl

# Props/C06.lean histBad: total 30, arrival order [0,10) [0,20) [20,30). Before fix dc31f2b the second fragment was
# dropped as "already seen" and nothing was delivered; now it must reassemble (regression input).
WITNESS_RANGES = [(0, 10), (0, 20), (20, 30)]


def payload(n, salt):
    return bytes((i * 13 + salt) % 253 for i in range(n))


def base_spec(src, time, seq, crcs, ext, dest='dtn://dst/svc'):
    cp, cy, ce = crcs
    blocks = []
    if ext >= 1:
        blocks.append({'type': 7, 'num': 2, 'flags': 1, 'crc': ce, 'btsd': '1903e8'})
    if ext >= 2:
        blocks.append({'type': 192, 'num': 3, 'flags': 0, 'crc': (ce + 1) % 3, 'btsd': '0102030405'})
    blocks.append({'type': 1, 'num': 1, 'flags': 0, 'crc': cy, 'btsd': None})
    return {'flags': 0, 'crc': cp, 'dest': dest, 'src': src, 'rpt': None, 'time': time, 'seq': seq,
            'lifetime': 100000, 'blocks': blocks, 'wire': False}


def hand_fragment(spec, P, lo, hi, first_blocks_only_replicated=True):
    ''' an encoded fragment [lo,hi) of the bundle `spec` with payload P, produced by the independent encoder '''
    s = dict(spec)
    s['flags'] = spec['flags'] | 1
    s['fragoff'] = lo
    s['total'] = len(P)
    bl = []
    for b in spec['blocks']:
        if b['num'] == 1:
            bl.append(dict(b, btsd=P[lo:hi].hex()))
        elif lo == 0 or (b['flags'] & 1):
            bl.append(dict(b))
    s['blocks'] = bl
    return fl.encode_bundle(s)


def random_cuts(rng, n, k):
    ''' k ranges covering [0,n): a random partition, then some pieces widened (overlaps) '''
    if n == 0:
        return [(0, 0)]
    k = max(1, min(k, n))
    pts = sorted(rng.sample(range(1, n), k - 1)) if k > 1 else []
    edges = [0] + pts + [n]
    out = []
    for a, b in zip(edges, edges[1:]):
        if rng.random() < 0.3:
            a = max(0, a - rng.randrange(0, 4))
        if rng.random() < 0.3:
            b = min(n, b + rng.randrange(0, 4))
        out.append((a, b))
    return out


class Session(object):
    ''' one receiving agent; runs event lists on it and on the model, compares, runs monitors '''

    def __init__(self, chk):
        self.chk = chk
        self.rig = fl.Rig(node_id='dtn://node/')
        self.seq = 0
        self.batch = []      # (events json, observations, meta)
        self.checked = 0     # deliveries of this agent already examined by the whole-history monitor
        self.per_ident = {}  # original bundle identity -> deliveries over the whole life of this agent

    def fresh_seq(self):
        self.seq += 1
        return self.seq

    def run_events(self, events, originals, tag):
        ''' events: list of ('recv', bytes) | ('idle', j).
        originals: {key: (P, spec)} for the monitors, key = (src, time, seq). '''
        rig = self.rig
        loop = rig.m['GLib'].LOOP
        d0 = len(rig.delivered)
        obs = []
        evj = []
        seen_ranges = {}           # key -> list of (lo, hi) handed over so far
        first_seen = {}            # key -> parsed first offset-0 fragment
        deliveries = []            # (index of event, bytes)
        viol = []
        for n, ev in enumerate(events):
            before = len(rig.delivered)
            if ev[0] == 'recv':
                p = fl.read_bundle(ev[1])
                q = p['primary']
                key = (json.dumps(q['src']), q['time'], q['seq'])
                if q['flags'] & 1:
                    pb = [b for b in p['blocks'] if b['num'] == 1][0]
                    seen_ranges.setdefault(key, []).append((q['fragoff'], q['fragoff'] + len(pb['btsd'])))
                    if q['fragoff'] == 0 and key not in first_seen:
                        first_seen[key] = p
                esc = rig.recv(ev[1])
                evj.append({'recv': fl.parsed_json(p)})
                tkey = (cbor_text(q['src']), q['time'], q['seq'])
            else:
                pend = list(loop.pending('idle'))
                esc = None
                tkey = None
                if ev[1] < len(pend):
                    src = pend[ev[1]]
                    try:
                        pr = src.args[0].bundle.primary
                        tkey = (pr.source, pr.create_ts.getfieldval('dtntime'), pr.create_ts.getfieldval('seqno'))
                    except Exception:
                        tkey = None
                    loop.fire(src)
                evj.append({'idle': ev[1]})
            ent = rig.reasm_table().get(tkey) if tkey is not None else None
            o = {'ndel': len(rig.delivered) - d0, 'npend': len(loop.pending('idle')), 'esc': esc,
                 'entry': None if ent is None else {
                     'total': ent.total_length, 'first': ent.first_frag is not None,
                     'valid': [list(x) for x in ent.valid._p], 'data': bytes(ent.data).hex()}}
            obs.append(o)
            for d in rig.delivered[before:]:
                deliveries.append((n, d))
                # monitor: no early delivery / payload / blocks / no mixing
                dp = fl.read_bundle(d)
                dq = dp['primary']
                dkey = (json.dumps(dq['src']), dq['time'], dq['seq'])
                if dkey in originals:
                    P, _spec = originals[dkey]
                    rs = seen_ranges.get(dkey, [])
                    cov = set()
                    for lo, hi in rs:
                        cov.update(range(lo, hi))
                    if not all(i in cov for i in range(len(P))):
                        viol.append(('C06:early-delivery', 'delivered while payload octets were still missing'))
                    pb = [b for b in dp['blocks'] if b['num'] == 1]
                    if dq['flags'] & 1:
                        viol.append(('C06:fragment-delivered', 'a fragment reached the application step'))
                    elif len(pb) != 1 or pb[0]['btsd'] != P:
                        viol.append(('C06:payload-differs', 'reassembled payload differs from the original (mixing or loss)'))
                    ff = first_seen.get(dkey)
                    if ff is not None:
                        want = [(b['type'], b['num'], b['flags'], b['crc'], b['btsd']) for b in ff['blocks'] if b['num'] != 1]
                        got = [(b['type'], b['num'], b['flags'], b['crc'], b['btsd']) for b in dp['blocks'] if b['num'] != 1]
                        if want != got:
                            viol.append(('C06:blocks-differ', 'extension blocks are not those of the first fragment'))
        # end-of-run monitors: exactly one delivery for every original whose handed-over ranges cover it
        drained = not loop.pending('idle')
        for key, (P, _spec) in originals.items():
            rs = seen_ranges.get(key, [])
            cov = set()
            for lo, hi in rs:
                cov.update(range(lo, hi))
            covered = bool(rs) and all(i in cov for i in range(len(P)))
            cnt = sum(1 for (_n, d) in deliveries if key_of(d) == key)
            if cnt > 1:
                viol.append(('C06:delivered-twice', '%d deliveries of one bundle' % cnt))
            if covered and drained and cnt == 0:
                offs = {}
                sameoff = False
                for lo, hi in rs:
                    if lo in offs and offs[lo] != hi:
                        sameoff = True
                    offs.setdefault(lo, hi)
                if sameoff:
                    viol.append(('C06:same-offset-fragment-dropped',
                                 'the fragments received cover the payload, but a fragment sharing its offset (and total length) '
                                 'with an earlier, different fragment was discarded as "already seen": never reassembled'))
                else:
                    viol.append(('C06:covered-not-delivered', 'covering fragment set received, nothing delivered'))
        # whole-history monitor: at most one delivery per original bundle identity, ever (on this agent)
        for d in rig.delivered[self.checked:]:
            kd = key_of(d)
            self.per_ident[kd] = self.per_ident.get(kd, 0) + 1
            if self.per_ident[kd] > 1 and not any(sig == 'C06:delivered-twice' for sig, _w in viol):
                viol.append(('C06:delivered-twice', 'bundle identity %s delivered %d times over the history' % (kd, self.per_ident[kd])))
        self.checked = len(rig.delivered)
        self.batch.append((evj, obs, [d for (_n, d) in deliveries], viol, tag, events))
        return viol

    def flush(self):
        ''' send the batch to the model, compare '''
        chk = self.chk
        if not self.batch:
            return
        reqs = [{'op': 'frag.reasm', 'node': {'dtn': b'//node/'.hex()}, 'events': evj, 'deliver': True}
                for (evj, _o, _d, _v, _t, _e) in self.batch]
        outs = chk.driver(reqs)
        for (evj, obs, dels, viol, tag, events), mo in zip(self.batch, outs):
            ok = 'trace' in mo and len(mo['trace']) == len(obs)
            if ok:
                for o, t in zip(obs, mo['trace']):
                    if o['esc'] is not None:
                        ok = False
                    if o['ndel'] != t['ndel'] or o['npend'] != t['npend']:
                        ok = False
                    me = t['entry']
                    if (o['entry'] is None) != (me is None):
                        ok = False
                    elif me is not None:
                        norm = norm_ranges([(a, a + l) for a, l in me['ranges']])
                        if (me['total'] != o['entry']['total'] or me['first'] != o['entry']['first']
                                or me['data'] != o['entry']['data'] or norm != [tuple(x) for x in o['entry']['valid']]):
                            ok = False
                # the model refreshes the reassembled primary block's CRC with a zero value: fill it in
                if [fl.patch_crcs(bytes.fromhex(x)) for x in mo['delivered']] != dels:
                    ok = False
            rep = {'tag': tag, 'events': [[e[0], e[1].hex() if e[0] == 'recv' else e[1]] for e in events]}
            if not ok:
                chk.corr_break('reassembly: model and implementation differ (%s)' % tag, rep)
            for sig, what in viol:
                chk.violation(sig, what, rep)
            chk.case([tag, len(events), len(dels), [len(e[1]) if e[0] == 'recv' else e[1] for e in events][:12]],
                     nontrivial=len(events) > 1)
            chk.count('events:%s' % ('1-3' if len(events) < 4 else '4-8' if len(events) < 9 else '9-20' if len(events) < 21 else '21+'))
            chk.count('deliveries:%d' % len(dels))
            chk.count('kind:' + tag.split('/')[0])
            if viol:
                chk.count('monitor:' + viol[0][0])
        self.chk.cov['traces_validated_against_impl'] += len(self.batch)
        self.batch = []


def cbor_text(eid):
    if eid[0] == 1:
        return 'dtn:none' if eid[1] == 0 else 'dtn:' + eid[1]
    return 'ipn:' + '.'.join(str(x) for x in eid[1])


def key_of(data):
    q = fl.read_bundle(data)['primary']
    return (json.dumps(q['src']), q['time'], q['seq'])


def okey(spec):
    e = fl.read_bundle(fl.encode_bundle(dict(spec, blocks=[])))['primary']
    return (json.dumps(e['src']), e['time'], e['seq'])


def norm_ranges(pairs):
    out = []
    for lo, hi in sorted((a, b) for (a, b) in pairs if a < b):
        if out and lo <= out[-1][1]:
            out[-1] = (out[-1][0], max(out[-1][1], hi))
        else:
            out.append((lo, hi))
    return out


def with_idles(rng, recvs, mode):
    ''' interleave idle events: 'end' = drain at the end; 'eager' = after every recv; 'random' '''
    ev = []
    for r in recvs:
        ev.append(('recv', r))
        if mode == 'eager' or (mode == 'random' and rng.random() < 0.4):
            ev.append(('idle', 0))
    ev += [('idle', 0)] * 3
    return ev


def real_fragments(sender, spec, P, mtu):
    s = dict(spec)
    s['blocks'] = [dict(b, btsd=P.hex()) if b['num'] == 1 else dict(b) for b in spec['blocks']]
    outs, _esc, _idle = sender.send(s, mtu)
    return outs, fl.encode_bundle(s)


def run(chk):
    chk.prove('DtnVerif.Props.C06')
    quick = chk.tier == 'quick'
    rng = chk.rng
    chk.cov['rule'] = ('fragment sets made by the real _create (MTU-driven) and hand-made uneven/overlapping ones (independent encoder); '
                       + ('random arrival orders with duplicates' if quick else 'ALL permutations of <= 6 fragments plus one duplicate at every position, random orders of larger sets')
                       + '; 2-3 complete covers of one bundle by different fragmentations (second cover after the delivery / before any idle / interleaved)'
                       + '; idle callbacks eager / at the end / random; 3 interleaved bundles (same source, different time/sequence; different source); '
                       'incomplete sets (no delivery expected); Lean counterexample witness replayed')
    chk.assumptions += [
        'portion library replaced by harness/stubs/portion.py (normalised integer closed-open ranges): its contract is assumed of the real library',
        'security blocks absent (BPSec receive steps are no-ops); rx route .* -> deliver; report-to none (no status reports scheduled)',
        'the CRC gate is not exercised here (all inputs carry valid CRCs; C08 covers the gate)',
    ]
    # both rigs share the GLib loop singleton: the receiving agent is created AFTER the sender, and fragments
    # are produced (sender drained) before a receive run starts, so no foreign idle source is ever pending.
    sender = fl.Rig(node_id='dtn://sender/')
    sess = Session(chk)
    crcs_all = [(0, 0, 0), (1, 1, 1), (2, 2, 2), (2, 0, 1), (0, 2, 2)]

    def new_orig(n, ext=None, src='dtn://src/'):
        spec = base_spec(src, 1000 + rng.randrange(5), sess.fresh_seq(), rng.choice(crcs_all), rng.randrange(3) if ext is None else ext)
        return spec, payload(n, rng.randrange(250))

    # --- A. fragments from the real _create, permutations / random orders
    nperm_cases = 3 if quick else 10
    for _ in range(nperm_cases):
        spec, P = new_orig(rng.choice([40, 97, 150, 300]))
        full = dict(spec, blocks=[dict(b, btsd=P.hex()) if b['num'] == 1 else dict(b) for b in spec['blocks']])
        size = len(fl.encode_bundle(full))
        nonp = size - len(P)
        k = rng.choice([3, 4, 5]) if quick else rng.choice([4, 5, 6])
        mtu = nonp + 12 + (len(P) + k - 1) // k
        frags, _whole = real_fragments(sender, spec, P, mtu)
        if len(frags) < 2 or len(frags) > 6:
            chk.count('create-gave-%d-fragments-skipped' % len(frags))
            continue
        chk.count('fragments-from-real-create:%d' % len(frags))
        if quick:
            orders = [rng.sample(range(len(frags)), len(frags)) for _ in range(25)]
        else:
            orders = list(itertools.permutations(range(len(frags))))
        for oi, order in enumerate(orders):
            # every run needs a fresh identity: re-stamp by re-fragmenting under a new sequence number
            sp2 = dict(spec, seq=sess.fresh_seq())
            fr2, _ = real_fragments(sender, sp2, P, mtu)
            recvs = [fr2[i] for i in order]
            if quick or oi % 5 == 0:
                dup_at = rng.randrange(len(recvs) + 1)
                recvs = recvs[:dup_at] + [rng.choice(fr2)] + recvs[dup_at:]
            ev = with_idles(rng, recvs, rng.choice(['end', 'eager', 'random']))
            sess.run_events(ev, {okey(sp2): (P, sp2)}, 'real-create/perm')
        sess.flush()
        if not quick:
            # one duplicate at every position of the identity order and of the reversed order
            for base_order in (list(range(len(frags))), list(reversed(range(len(frags))))):
                for pos in range(len(frags) + 1):
                    for which in range(len(frags)):
                        sp2 = dict(spec, seq=sess.fresh_seq())
                        fr2, _ = real_fragments(sender, sp2, P, mtu)
                        recvs = [fr2[i] for i in base_order]
                        recvs = recvs[:pos] + [fr2[which]] + recvs[pos:]
                        sess.run_events(with_idles(rng, recvs, 'end'), {okey(sp2): (P, sp2)}, 'real-create/dup')
            sess.flush()

    # --- B. hand-made uneven / overlapping fragmentations
    nhand = 60 if quick else 600
    for i in range(nhand):
        n = rng.choice([0, 1, 2, 7, 23, 24, 25, 60, 255, 256, 257, 1000])
        spec, P = new_orig(n)
        k = rng.randrange(1, 8)
        cuts = random_cuts(rng, n, k)
        # distinct offsets unless this trial is about the same-offset defect
        offs = [c[0] for c in cuts]
        if len(set(offs)) != len(offs):
            tag = 'hand/same-offset'
        else:
            tag = 'hand/overlap'
        frs = [hand_fragment(spec, P, lo, hi) for lo, hi in cuts]
        order = rng.sample(range(len(frs)), len(frs))
        recvs = [frs[j] for j in order]
        for _ in range(rng.randrange(0, 3)):
            recvs.insert(rng.randrange(len(recvs) + 1), rng.choice(frs))
        if rng.random() < 0.2 and len(recvs) > 1:
            drop = rng.randrange(len(frs))          # incomplete set: nothing may be delivered
            recvs = [r for r in recvs if r != frs[drop]]
            tag = 'hand/incomplete'
        sess.run_events(with_idles(rng, recvs, rng.choice(['end', 'eager', 'random'])), {okey(spec): (P, spec)}, tag)
    sess.flush()

    # --- C. three interleaved bundles
    ninter = 20 if quick else 200
    for i in range(ninter):
        t = 2000 + i
        specs = [base_spec('dtn://src/', t, 1, rng.choice(crcs_all), rng.randrange(3)),
                 base_spec('dtn://src/', t, 2, rng.choice(crcs_all), rng.randrange(3)),
                 base_spec(rng.choice(['dtn://other/', 'ipn:5.6']), t, 1, rng.choice(crcs_all), rng.randrange(3))]
        for sp in specs:
            sp['seq'] = sp['seq'] + 1000 * sess.fresh_seq()
        origs = {}
        pool = []
        n = rng.choice([30, 64, 200])
        for bi, sp in enumerate(specs):
            P = payload(n, 50 * bi + rng.randrange(40))      # same length, different content
            origs[okey(sp)] = (P, sp)
            cuts = random_cuts(rng, n, rng.randrange(2, 6))
            if len(set(c[0] for c in cuts)) != len(cuts):
                cuts = [(a, b) for a, b in zip([0] + [c[1] for c in cuts[:-1]], [c[1] for c in cuts])]
            pool.append([hand_fragment(sp, P, lo, hi) for lo, hi in cuts])
        recvs = []
        idx = [list(range(len(p))) for p in pool]
        for l in idx:
            rng.shuffle(l)
        while any(idx):
            bi = rng.choice([b for b in range(3) if idx[b]])
            recvs.append(pool[bi][idx[bi].pop()])
            if rng.random() < 0.15:
                recvs.append(rng.choice(pool[rng.randrange(3)]))
        sess.run_events(with_idles(rng, recvs, rng.choice(['end', 'eager', 'random'])), origs, 'interleaved/3')
    sess.flush()

    # --- C2. several complete covers of the same bundle by DIFFERENT fragmentations: the second and third
    #         reassembly complete after (or while) the first is delivered; re-injection must be de-duplicated
    ncov = 25 if quick else 250

    def partition(n, k):
        pts = sorted(rng.sample(range(1, n), k - 1)) if k > 1 else []
        edges = [0] + pts + [n]
        return list(zip(edges, edges[1:]))
    for i in range(ncov):
        n = rng.choice([12, 30, 64, 257, 1000])
        spec, P = new_orig(n)
        covers = []
        used = set()
        for c in range(rng.choice([2, 2, 3])):
            for _try in range(20):
                cuts = partition(n, rng.randrange(1, min(6, n)))
                if not (set(cuts) & used):          # fresh fragment identities: (offset, length) all new
                    break
            used |= set(cuts)
            covers.append([hand_fragment(spec, P, lo, hi) for lo, hi in cuts])
        mode = rng.choice(['after-delivery', 'after-delivery', 'before-idle', 'interleaved'])
        ev = []
        if mode == 'after-delivery':
            for cov in covers:
                order = rng.sample(cov, len(cov))
                ev += [('recv', f) for f in order] + [('idle', 0)]
        elif mode == 'before-idle':
            for cov in covers:
                ev += [('recv', f) for f in rng.sample(cov, len(cov))]
            ev += [('idle', rng.randrange(len(covers)))] + [('idle', 0)] * 3
        else:
            allf = [f for cov in covers for f in cov]
            rng.shuffle(allf)
            for f in allf:
                ev.append(('recv', f))
                if rng.random() < 0.3:
                    ev.append(('idle', 0))
            ev += [('idle', 0)] * 3
        ev += [('idle', 0)]
        sess.run_events(ev, {okey(spec): (P, spec)}, 'covers/%d-%s' % (len(covers), mode))
    sess.flush()
    # the demo of the seeded change: X[0,6) X[6,12) then X[0,4) X[4,8) X[8,12), loop drained after each cover
    spec, P = new_orig(12, ext=0)
    ev = [('recv', hand_fragment(spec, P, 0, 6)), ('recv', hand_fragment(spec, P, 6, 12)), ('idle', 0),
          ('recv', hand_fragment(spec, P, 0, 4)), ('recv', hand_fragment(spec, P, 4, 8)), ('recv', hand_fragment(spec, P, 8, 12)),
          ('idle', 0), ('idle', 0)]
    sess.run_events(ev, {okey(spec): (P, spec)}, 'covers/2-fixed')
    sess.flush()

    # --- D. larger random sets
    for i in range(4 if quick else 30):
        n = rng.choice([5000, 20000])
        spec, P = new_orig(n, ext=2)
        cuts = random_cuts(rng, n, rng.randrange(20, 60))
        seen = set()
        cuts = [c for c in cuts if not (c[0] in seen or seen.add(c[0]))]
        frs = [hand_fragment(spec, P, lo, hi) for lo, hi in cuts]
        recvs = rng.sample(frs, len(frs)) + [rng.choice(frs) for _ in range(5)]
        rng.shuffle(recvs)
        tag = 'large/random'
        sess.run_events(with_idles(rng, recvs, 'random'), {okey(spec): (P, spec)}, tag)
    sess.flush()

    # --- E. the Lean counterexample witness (Props/C06.lean histBad / histGood: same offset, different
    #        lengths), replayed on a fresh agent: key (dtn://src/, 9, 1), payload 0..29
    wsess = Session(chk)
    P = bytes(range(30))

    def wfrag(lo, hi):
        spec = {'flags': 1, 'crc': 0, 'dest': 'dtn://dst/svc', 'src': 'dtn://src/', 'rpt': None, 'time': 9, 'seq': 1,
                'lifetime': 100000, 'fragoff': lo, 'total': 30,
                'blocks': [{'type': 7, 'num': 2, 'flags': 1, 'crc': 0, 'btsd': bytes([lo]).hex()},
                           {'type': 1, 'num': 1, 'flags': 0, 'crc': 0, 'btsd': P[lo:hi].hex()}]}
        return fl.encode_bundle(spec)
    wkey = (json.dumps([1, '//src/']), 9, 1)
    frs = [wfrag(lo, hi) for lo, hi in WITNESS_RANGES]
    wsess.run_events([('recv', f) for f in frs] + [('idle', 0)], {wkey: (P, None)}, 'witness/histBad')
    wsess.flush()
    wsess = Session(chk)
    wsess.run_events([('recv', frs[1]), ('recv', frs[0]), ('recv', frs[2]), ('idle', 0)], {wkey: (P, None)}, 'witness/histGood')
    wsess.flush()


    run_security(chk)


def secured_fragments(pcrc):
    ''' a BIB-protected bundle (HMAC-256 over the payload block, AAD covers the primary block) as sent by a
    real agent with a security association, and an independent 2-way fragmentation of it (the BIB
    travels in the first fragment only) '''
    snd = fl.Rig(node_id='dtn://sender/')
    snd.enable_security()
    spec = base_spec('dtn://src/', 4000, 77, (pcrc, 2, 0), 0)
    spec['blocks'][-1]['btsd'] = payload(300, 5).hex()
    whole = snd.send(spec, None)[0][0]
    p = fl.read_bundle(whole)
    q = p['primary']
    P = [b for b in p['blocks'] if b['num'] == 1][0]['btsd']

    def frag(lo, hi):
        s = {'flags': q['flags'] | 1, 'crc': q['crc'], 'dest': cbor_text(q['dest']), 'src': cbor_text(q['src']), 'rpt': None,
             'time': q['time'], 'seq': q['seq'], 'lifetime': q['lifetime'], 'fragoff': lo, 'total': len(P), 'blocks': []}
        for b in p['blocks']:
            if b['num'] == 1:
                s['blocks'].append({'type': 1, 'num': 1, 'flags': b['flags'], 'crc': b['crc'], 'btsd': P[lo:hi].hex()})
            elif lo == 0:
                s['blocks'].append({'type': b['type'], 'num': b['num'], 'flags': b['flags'], 'crc': b['crc'], 'btsd': b['btsd'].hex()})
        return fl.encode_bundle(s)
    return whole, [frag(0, 100), frag(100, 300)], P


def security_replay(pcrc):
    whole, frs, P = secured_fragments(pcrc)
    r0 = fl.Rig(node_id='dtn://node/')
    r0.enable_security()
    r0.recv(whole)
    r0.drain()
    rcv = fl.Rig(node_id='dtn://node/')
    rcv.enable_security()
    for f in frs:
        rcv.recv(f)
        rcv.drain()
    return len(r0.delivered), len(rcv.delivered), [x.hex() for x in frs]


def run_security(chk):
    ''' D28: the destination verifies BIBs (security policy on). Implementation only: the model has no
    BPSec receive steps; Props/C06 `C06_synth_primary` states what reassembly does to the primary block. '''
    for pcrc in (0, 1, 2):
        try:
            nwhole, nreasm, frs = security_replay(pcrc)
        except Exception as err:
            chk.notes.append('security-on stream skipped: %r' % (err,))
            chk.count('security-on:skipped')
            return
        chk.case(['sec-reasm', pcrc, nwhole, nreasm], nontrivial=True)
        chk.count('security-on:primary-crc-%d:%s' % (pcrc, 'delivered' if nreasm == 1 else 'not-delivered'))
        if nwhole == 1 and nreasm != 1:
            chk.violation('C06:reassembled-fails-integrity',
                          'a BIB-protected bundle whose primary block carries a CRC (type %d) is delivered when it arrives whole, '
                          'but its fragments reassemble to a bundle whose primary block has CRC type none: the BIB (AAD covers the '
                          'primary block) no longer verifies, the bundle is deleted with FAILED_SEC' % pcrc,
                          {'security': 'hmac256-bib-on-payload', 'primary_crc': pcrc,
                           'events': [['recv', x] for x in frs] + [['idle', 0]]})


def replay(chk, path):
    obj = json.load(open(path))
    rep = obj.get('replay', obj)
    if rep.get('security'):
        nwhole, nreasm, _ = security_replay(rep['primary_crc'])
        print('BIB-protected bundle, primary CRC type %d: delivered when received whole: %d; delivered after reassembly of 2 fragments: %d'
              % (rep['primary_crc'], nwhole, nreasm))
        return 1 if (nwhole == 1 and nreasm != 1) else 0
    rig = fl.Rig(node_id='dtn://node/')
    loop = rig.m['GLib'].LOOP
    for kind, arg in rep['events']:
        if kind == 'recv':
            data = bytes.fromhex(arg)
            q = fl.read_bundle(data)
            pb = [b for b in q['blocks'] if b['num'] == 1]
            esc = rig.recv(data)
            print('recv fragment off=%s len=%s total=%s -> escaped=%s delivered=%d pending=%d' % (
                q['primary'].get('fragoff'), len(pb[0]['btsd']) if pb else None, q['primary'].get('total'), esc,
                len(rig.delivered), len(loop.pending('idle'))))
        else:
            pend = list(loop.pending('idle'))
            if arg < len(pend):
                loop.fire(pend[arg])
            print('idle %d -> delivered=%d pending=%d' % (arg, len(rig.delivered), len(loop.pending('idle'))))
    print('reassembly table left: %s' % {k: (v.total_length, repr(v.valid)) for k, v in rig.reasm_table().items()})
    print('deliveries: %d' % len(rig.delivered))
    return 1 if not rig.delivered else 0
