''' C09 — TCPCL termination is graceful, complete and always finishes. '''
import json

import tcpcl_scen as sc
import tcpcl_monitors as tm
import tcpcl_util as tu

MODULE = 'DtnVerif.Props.C09'


def run(chk):
    chk.prove(MODULE)
    rng, tier = chk.rng, chk.tier
    n = 80 if tier == 'quick' else 1500
    chk.cov['rule'] = ('two real ContactHandler endpoints; a case = one seeded schedule with a termination request (A, B or both at once) or a hard '
                       'close / peer disconnect injected at a random position among user sends/pops/queries and internal events (before '
                       'establishment, idle, mid-segment, awaiting ACK), partial sends and arbitrary chunking; run to quiescence; '
                       'non-trivial = the request was accepted or a close happened')
    sims = []
    for i in range(n):
        flavour = 'terminate' if rng.random() < 0.75 else 'abort'
        sim, sent, meta = sc.run_scenario(rng, flavour, tier)
        nontriv = bool(meta['term']) or meta['hard']
        chk.case({'cfg': [meta['cfg_a'], meta['cfg_b']], 'term': meta['term'], 'hard': meta['hard'],
                  'lens': [[len(d) for d in sent['a']], [len(d) for d in sent['b']]], 'events': len(sim.log),
                  'h': hash(json.dumps(sim.a.events) + json.dumps(sim.b.events))}, nontrivial=nontriv, sample=(i < 3))
        chk.count('term:%s' % '+'.join(meta['term']) if meta['term'] else ('hard-close' if meta['hard'] else 'request-refused'))
        chk.count('quiescent' if meta['quiescent'] else 'budget-exhausted')
        bad = []
        for (i2, who, ev, cls) in tm.escapes(sim):
            bad.append(('C09:escape-%s-%s' % (cls, ev['e']), 'exception %s escapes the %s callback of %s' % (cls, ev['e'], who)))
        if meta['quiescent'] and (meta['term'] or meta['hard']):
            bad += tm.mon_c09(sim, sent, meta['term'], meta['hard'])
        bad += [b for b in tm.mon_c04(sim) if 'sess-term' in b[0]]
        bad += [b for b in tm.mon_c01(sim, sent, expect_complete=False)]
        sc.report(chk, 'C09', bad, sim, sent, meta)
        sims.append((sim, '%s %d' % (flavour, i)))
        if len(sims) >= 40:
            sc.compare_with_model(chk, sims)
            sims = []
    sc.compare_with_model(chk, sims)
    # coalesced reads: a decisive message followed by another one inside the same recv_raw call
    sims = []
    for i in range(30 if tier == 'quick' else 400):
        sim, sent, meta = sc.coalesced_term_scenario(rng, tier)
        chk.case({'coalesced': True, 'cfg': [meta['cfg_a'], meta['cfg_b']], 'term': meta['term'],
                  'lens': [[len(d) for d in sent['a']], [len(d) for d in sent['b']]], 'events': len(sim.log)},
                 nontrivial=bool(meta['term']))
        chk.count('coalesced:%s' % ('+'.join(meta['term']) or 'none'))
        multi = 0
        for ep in sim.eps():
            chunks = [bytes.fromhex(ev['data']) for ev in ep.events if ev.get('e') == 'rx']
            try:
                ends = [e for (_m, e) in tu.rfc_frames(b''.join(chunks))[0]]
            except ValueError:
                ends = []
            pos = 0
            for c in chunks:
                if sum(1 for e in ends if pos < e <= pos + len(c)) > 1:
                    multi += 1
                pos += len(c)
        chk.count('coalesced-multi-message-reads', multi)
        bad = []
        for (i2, who, ev, cls) in tm.escapes(sim):
            bad.append(('C09:escape-%s-%s' % (cls, ev['e']), 'exception %s escapes the %s callback of %s' % (cls, ev['e'], who)))
        if meta['quiescent'] and meta['term']:
            bad += tm.mon_c09(sim, sent, meta['term'], False)
        bad += [b for b in tm.mon_c04(sim) if 'sess-term' in b[0]]
        bad += [b for b in tm.mon_c01(sim, sent, expect_complete=False)]
        sc.report(chk, 'C09', bad, sim, sent, meta)
        sims.append((sim, 'coalesced %d' % i))
    sc.compare_with_model(chk, sims, with_timers=True)
    chk.assumptions += ['TLS disabled; idle timer disabled in these runs (idle-timeout termination is covered by C14); keepalive timers enabled in the coalesced-read runs',
                        'tcpcl.agent.Agent.shutdown/stop over several contacts is exercised separately (agent_shutdown cases)']


def replay(chk, path):
    print('replay: event lists are in', path)
    return 0
