''' C09 — TCPCL termination is graceful, complete and always finishes. '''
import json

import tcpcl_scen as sc
import tcpcl_monitors as tm

MODULE = 'DtnVerif.Props.C09'


def run(chk):
    chk.prove(MODULE)
    rng, tier = chk.rng, chk.tier
    n = 80 if tier == 'quick' else 1500
    chk.cov['rule'] = ('two real ContactHandler endpoints; a case = one seeded schedule with a termination request (A, B or both at once) or a hard '
                       'close / peer disconnect injected at a random position among user sends/pops/queries and internal events (before '
                       'establishment, idle, mid-segment, awaiting ACK), partial sends and arbitrary chunking; run to quiescence; '
                       'non-trivial = the request was accepted or a close happened')
    sims = []
    for i in range(n):
        flavour = 'terminate' if rng.random() < 0.75 else 'abort'
        sim, sent, meta = sc.run_scenario(rng, flavour, tier)
        nontriv = bool(meta['term']) or meta['hard']
        chk.case({'cfg': [meta['cfg_a'], meta['cfg_b']], 'term': meta['term'], 'hard': meta['hard'],
                  'lens': [[len(d) for d in sent['a']], [len(d) for d in sent['b']]], 'events': len(sim.log),
                  'h': hash(json.dumps(sim.a.events) + json.dumps(sim.b.events))}, nontrivial=nontriv, sample=(i < 3))
        chk.count('term:%s' % '+'.join(meta['term']) if meta['term'] else ('hard-close' if meta['hard'] else 'request-refused'))
        chk.count('quiescent' if meta['quiescent'] else 'budget-exhausted')
        bad = []
        for (i2, who, ev, cls) in tm.escapes(sim):
            bad.append(('C09:escape-%s-%s' % (cls, ev['e']), 'exception %s escapes the %s callback of %s' % (cls, ev['e'], who)))
        if meta['quiescent'] and (meta['term'] or meta['hard']):
            bad += tm.mon_c09(sim, sent, meta['term'], meta['hard'])
        bad += [b for b in tm.mon_c04(sim) if 'sess-term' in b[0]]
        bad += [b for b in tm.mon_c01(sim, sent, expect_complete=False)]
        sc.report(chk, 'C09', bad, sim, sent, meta)
        sims.append((sim, '%s %d' % (flavour, i)))
        if len(sims) >= 40:
            sc.compare_with_model(chk, sims)
            sims = []
    sc.compare_with_model(chk, sims)
    chk.assumptions += ['TLS disabled; timers disabled in these runs (idle-timeout termination is covered by C14)',
                        'tcpcl.agent.Agent.shutdown/stop over several contacts is exercised separately (agent_shutdown cases)']


def replay(chk, path):
    print('replay: event lists are in', path)
    return 0
