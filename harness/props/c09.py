''' C09 — TCPCL termination is graceful, complete and always finishes. '''
import json

import tcpcl_scen as sc
import tcpcl_monitors as tm
import tcpcl_util as tu

MODULE = 'DtnVerif.Props.C09'


def run(chk):
    chk.prove(MODULE)
    rng, tier = chk.rng, chk.tier
    n = 80 if tier == 'quick' else 1500
    chk.cov['rule'] = ('two real ContactHandler endpoints; a case = one seeded schedule with a termination request (A, B or both at once) or a hard '
                       'close / peer disconnect injected at a random position among user sends/pops/queries and internal events (before '
                       'establishment, idle, mid-segment, awaiting ACK), partial sends and arbitrary chunking; run to quiescence; '
                       'non-trivial = the request was accepted or a close happened')
    sims = []
    for i in range(n):
        flavour = 'terminate' if rng.random() < 0.75 else 'abort'
        sim, sent, meta = sc.run_scenario(rng, flavour, tier)
        nontriv = bool(meta['term']) or meta['hard']
        chk.case({'cfg': [meta['cfg_a'], meta['cfg_b']], 'term': meta['term'], 'hard': meta['hard'],
                  'lens': [[len(d) for d in sent['a']], [len(d) for d in sent['b']]], 'events': len(sim.log),
                  'h': hash(json.dumps(sim.a.events) + json.dumps(sim.b.events))}, nontrivial=nontriv, sample=(i < 3))
        chk.count('term:%s' % '+'.join(meta['term']) if meta['term'] else ('hard-close' if meta['hard'] else 'request-refused'))
        chk.count('quiescent' if meta['quiescent'] else 'budget-exhausted')
        bad = []
        for (i2, who, ev, cls) in tm.escapes(sim):
            bad.append(('C09:escape-%s-%s' % (cls, ev['e']), 'exception %s escapes the %s callback of %s' % (cls, ev['e'], who)))
        if meta['quiescent'] and (meta['term'] or meta['hard']):
            bad += tm.mon_c09(sim, sent, meta['term'], meta['hard'])
        bad += [b for b in tm.mon_c04(sim) if 'sess-term' in b[0]]
        bad += [b for b in tm.mon_c01(sim, sent, expect_complete=False)]
        bad += tm.mon_sources_after_close(sim)
        sc.report(chk, 'C09', bad, sim, sent, meta)
        sims.append((sim, '%s %d' % (flavour, i)))
        if len(sims) >= 40:
            sc.compare_with_model(chk, sims)
            sims = []
    sc.compare_with_model(chk, sims)
    # coalesced reads: a decisive message followed by another one inside the same recv_raw call
    sims = []
    for i in range(30 if tier == 'quick' else 400):
        sim, sent, meta = sc.coalesced_term_scenario(rng, tier)
        chk.case({'coalesced': True, 'cfg': [meta['cfg_a'], meta['cfg_b']], 'term': meta['term'],
                  'lens': [[len(d) for d in sent['a']], [len(d) for d in sent['b']]], 'events': len(sim.log)},
                 nontrivial=bool(meta['term']))
        chk.count('coalesced:%s' % ('+'.join(meta['term']) or 'none'))
        multi = 0
        for ep in sim.eps():
            chunks = [bytes.fromhex(ev['data']) for ev in ep.events if ev.get('e') == 'rx']
            try:
                ends = [e for (_m, e) in tu.rfc_frames(b''.join(chunks))[0]]
            except ValueError:
                ends = []
            pos = 0
            for c in chunks:
                if sum(1 for e in ends if pos < e <= pos + len(c)) > 1:
                    multi += 1
                pos += len(c)
        chk.count('coalesced-multi-message-reads', multi)
        bad = []
        for (i2, who, ev, cls) in tm.escapes(sim):
            bad.append(('C09:escape-%s-%s' % (cls, ev['e']), 'exception %s escapes the %s callback of %s' % (cls, ev['e'], who)))
        if meta['quiescent'] and meta['term']:
            bad += tm.mon_c09(sim, sent, meta['term'], False)
        bad += [b for b in tm.mon_c04(sim) if 'sess-term' in b[0]]
        bad += [b for b in tm.mon_c01(sim, sent, expect_complete=False)]
        bad += tm.mon_sources_after_close(sim)
        sc.report(chk, 'C09', bad, sim, sent, meta)
        sims.append((sim, 'coalesced %d' % i))
    sc.compare_with_model(chk, sims, with_timers=True)
    adversarial_term_cases(chk)
    policy_termination_cases(chk)
    agent_cases(chk)
    chk.assumptions += ['TLS disabled; idle timer disabled in these runs (idle-timeout termination is covered by C14); keepalive timers enabled in the coalesced-read runs',
                        'tcpcl.agent.Agent (shutdown/stop/stop_on_close over several contacts) is driven with real ContactHandlers on simulated sockets; each contact is brought to its state by a scripted peer and no peer answers after that']


def adversarial_term_cases(chk):
    ''' Termination against a scripted peer which answers in every order: X is in the middle of a transfer, or
    awaits its final ACK, or has two transfers going; termination is requested by X or by the peer; the peer then
    delivers its SESS_TERM and, for every transfer X started, either the acknowledgements or a refusal — in any
    order, possibly coalesced into one read. Once everything has been answered X must have closed. '''
    from props import c17
    import tcpcl_sim as ts
    rng, tier = chk.rng, chk.tier
    advs = []
    for case in range(60 if tier == 'quick' else 1200):
        passive = rng.random() < 0.5
        state = rng.choice(['await_ack', 'mid_tx', 'two_tx', 'established'])
        adv = c17.Adversary(rng, passive, {'seg_init': 10})
        x, sim = adv.x, adv.sim
        if not adv.to_state(state):
            continue
        who = rng.choice(['x', 'peer'])
        if who == 'x':
            sim.terminate(x, 0)
        adv.drain()
        # what the peer owes: one answer per started transfer, and its SESS_TERM
        answers = [('term', None)]
        tids = sorted(set(m['tid'] for m in adv.frames() if m['k'] == 'xfer_segment'))
        for t in tids:
            answers.append((rng.choice(['ack', 'ack', 'refuse']), t))
        rng.shuffle(answers)
        order = [a for a in answers]
        coalesce = rng.random() < 0.4
        buf = b''
        for step in range(40):
            if x.closed():
                break
            adv.drain()
            fr = adv.frames()
            progressed = False
            for (kind, t) in list(answers):
                if kind == 'term':
                    data = tu.rfc_encode({'k': 'sess_term', 'flags': 1 if who == 'x' else 0, 'reason': 0})
                elif kind == 'refuse':
                    data = tu.rfc_encode({'k': 'xfer_refuse', 'reason': 2, 'tid': t})
                else:
                    segs = [m for m in fr if m['k'] == 'xfer_segment' and m['tid'] == t]
                    if not segs or not (segs[-1]['flags'] & 1):
                        continue        # not completely sent yet: acknowledge when the END segment is out
                    cum, data = 0, b''
                    for m in segs:
                        cum += len(m['data']) // 2
                        data += tu.rfc_encode({'k': 'xfer_ack', 'flags': m['flags'], 'tid': t, 'len': cum})
                answers.remove((kind, t))
                progressed = True
                if coalesce:
                    buf += data
                else:
                    adv.feed(data)
                    adv.drain()
                if x.closed():
                    break
            if coalesce and buf:
                adv.feed(buf)
                buf = b''
                adv.drain()
            if not answers or not progressed:
                break
        adv.drain()
        chk.case({'adversarial_term': True, 'passive': passive, 'state': state, 'who': who, 'order': [k for (k, _t) in order], 'coalesce': coalesce})
        chk.count('adv-term:%s:%s' % (state, who))
        bad = []
        for o in x.obs:
            if o.get('escaped'):
                bad.append(('C09:escape-%s-adversarial' % o['escaped'], 'exception %s escapes a callback during termination against a scripted peer' % o['escaped']))
                break
        if not answers and not x.closed():
            terms = [m for m in adv.frames() if m['k'] == 'sess_term']
            bad.append(('C09:not-closed-after-all-answered',
                        'state %s, termination by %s, peer answers %s%s: every transfer was acknowledged or refused and both SESS_TERMs exchanged (%d written by X), X is still open (state %s)'
                        % (state, who, order, ' in one read' if coalesce else '', len(terms), x.h._state)))
        for (sig, what) in bad:
            chk.violation(sig, what, {'passive': passive, 'state': state, 'who': who, 'order': order, 'coalesce': coalesce,
                                      'x_cfg': x.model_cfg(), 'x_events': x.events})
        advs.append((adv, 'adversarial term %s %s %s' % (state, who, order)))
    c17.compare(chk, advs)


def policy_termination_cases(chk):
    ''' Termination requested by the endpoint itself at the moment the session would be established: under TLS the
    peer's certificate contradicts its announced node ID (or a required identifier is missing), so the endpoint
    must send one SESS_TERM (contact failure) and close once the peer has answered — on both the active and the
    passive side, whether or not the peer pipelines its SESS_INIT. Uses the scripted-TLS harness of C15. '''
    import tlslib as T
    rng = chk.rng
    rows = []
    for passive in (False, True):
        for (uri, require_node) in ((['dtn://other/'], False), (['dtn://other/'], True), ([], True)):
            # (a SESS_INIT pipelined in the clear ahead of the handshake is discarded, by design: not a case here)
            for pipelined in (False,):
                rows.append((passive, uri, require_node, pipelined))
    for (passive, uri, require_node, pipelined) in rows:
        sc = dict(passive=passive, tls_enable=True, require_tls=True, require_host=False, require_node=require_node,
                  peer_flags=1, handshake='ok', pipelined=pipelined, peer_name='192.0.2.1', sock_peer='192.0.2.1',
                  peer_node='dtn://peer/',
                  cert=dict(san=True, ip=[T.ip_bytes('192.0.2.1').hex()], dns=[], uri=uri, other=[], order=rng.randint(0, 1)))
        r = T.Run(sc)
        r.start()
        ch = T.contact_bytes(sc['peer_flags'])
        si = T.sess_init_bytes(sc['peer_node'])
        if pipelined:
            r.feed(ch + si)
        else:
            r.feed(ch)
            if not r.sock.closed:
                r.feed(si)
        obs = r.observe()
        chk.case({'policy_termination': True, 'passive': passive, 'cert_uri': uri, 'require_node': require_node, 'pipelined': pipelined})
        chk.count('policy-termination')
        bad = []
        terms = [m for m in obs['secured'] + obs['clear'] if m['k'] == 'sess_term']
        if obs['escaped']:
            bad.append(('C09:escape-%s-policy-termination' % obs['escaped'][0],
                        'exception %s escapes the read callback when the peer has to be refused at session establishment' % obs['escaped'][0]))
        elif obs['state'] == 'established' and not obs['closed']:
            pass        # the policy accepted this peer: not a termination case (C15 judges the policy itself)
        elif not obs['closed']:
            if len(terms) != 1:
                bad.append(('C09:sess-term-count-%d' % len(terms), 'peer refused at establishment: %d SESS_TERM written, state %s, connection open' % (len(terms), obs['state'])))
            else:
                r.feed(tu.rfc_encode({'k': 'sess_term', 'flags': 1, 'reason': terms[0]['reason']}))
                r.pump()
                if not r.sock.closed:
                    bad.append(('C09:not-closed', 'peer refused at establishment, SESS_TERM exchanged, the connection is still open (state %s)' % r.h.get_session_state()))
                elif r.escaped:
                    bad.append(('C09:escape-%s-policy-termination' % r.escaped[0], 'exception %s escapes while closing after a refused establishment' % r.escaped[0]))
        for (sig, what) in bad:
            chk.violation(sig, what, {'scenario': {k: (v if not isinstance(v, bytes) else v.hex()) for k, v in sc.items()}})


def agent_cases(chk):
    ''' The agent over several contacts: a real tcpcl.agent.Agent with real ContactHandlers on simulated sockets;
    random histories of bind / establish / contact terminates / contact closes / shutdown() / stop(), compared
    with the Lean agent model op by op, plus independent monitors. '''
    import socket as _socket
    import types as _types
    import tcpcl.agent as tagent
    from tcpcl_util import GLib, FakeSock
    LOOP = GLib.LOOP
    rng, tier = chk.rng, chk.tier
    reqs, runs = [], []
    for case in range(200 if tier == 'quick' else 3000):
        LOOP.reset()
        soc = rng.random() < 0.4
        cfg = tu.make_config(stop_on_close=soc)
        ag = tagent.Agent(cfg, bus_kwargs=dict(conn=None, object_path='/verif/agent%d' % case))
        stops = []
        ag.set_on_stop(lambda: stops.append(True))
        socks, hdls = [], []
        made, listening = [], []

        class FakeTcp(FakeSock):
            ''' what socket.socket() returns inside tcpcl.agent: connect/bind/listen/accept are recorded '''
            def __init__(self, *_a, **_k):
                FakeSock.__init__(self, 't%d' % len(made))
                self.accepted = []
                made.append(self)

            def bind(self, addr):
                self.bound = addr

            def connect(self, addr):
                self.peername = addr

            def listen(self, n):
                self.backlog = n
                self.__dict__.pop('accept', None)    # FakeSock keeps its send limit in an attribute of that name

            def accept(self):
                c = FakeSock('a%d' % len(self.accepted), peername=('192.0.2.7', 41000 + len(self.accepted)))
                self.accepted.append(c)
                return c, c.peername
        tagent.socket = _types.SimpleNamespace(**dict(vars(_socket), socket=FakeTcp))

        def drain(h):
            for _ in range(200):
                srcs = [s2 for s2 in LOOP.pending() if getattr(s2.func, '__self__', None) is h
                        and (s2.kind == 'idle' or (s2.kind == 'io' and s2.cond == GLib.IO_OUT))]
                if not srcs:
                    break
                LOOP.fire(srcs[0])

        def feed(h, sock, data):
            src = [s2 for s2 in LOOP.pending('io') if getattr(s2.func, '__self__', None) is h and s2.cond == GLib.IO_IN]
            if not src:
                return
            sock.rx_script = [data]
            LOOP.fire(src[0])
            sock.rx_script = []

        def n_term(sock):
            try:
                return sum(1 for (m, _e) in tu.rfc_frames(bytes(sock.sent))[0] if m['k'] == 'sess_term')
            except ValueError:
                return 0

        ops, outs, bad = [], [], []
        nops = rng.choice([2, 3, 4, 6, 8])
        kinds = ['bind', 'bind', 'establish', 'establish', 'contact_term', 'contact_closed', 'shutdown', 'stop']
        for step in range(nops):
            k = rng.choice(kinds) if hdls else 'bind'
            if step == nops - 1 and rng.random() < 0.7:
                k = rng.choice(['shutdown', 'stop', 'contact_closed'])
            open_before = [i for i, sk in enumerate(socks) if not sk.closed]
            sess_before = {i: bool(hdls[i]._in_sess) for i in open_before}
            terms_before = [n_term(sk) for sk in socks]
            stops_before = len(stops)
            ret, raised = None, None
            op = {'op': k}
            if k == 'bind':
                # a new contact comes into being the way the agent makes them: an outgoing connect(), an accepted
                # incoming connection on a listening socket, or (as before) a handler bound directly
                how = rng.choice(['connect', 'accept', 'direct'])
                nh = len(ag._handlers)
                sk = h = None
                try:
                    if how == 'connect':
                        made[:] = []
                        path = ag.connect('192.0.2.1', 4556)
                        h = ag.handler_for_path(path)
                        sk = made[-1]
                    elif how == 'accept':
                        if not listening:
                            made[:] = []
                            ag.listen('192.0.2.5', 4556)
                            listening.append(made[-1])
                        src = [s2 for s2 in LOOP.pending('io') if getattr(s2.func, '__name__', '') == '_accept'
                               and getattr(s2.func, '__self__', None) is ag]
                        if not src:
                            bad.append(('C09:agent-listen-installs-no-watch', 'Agent.listen() left no IO watch for incoming connections'))
                        else:
                            LOOP.fire(src[0])
                            sk = listening[0].accepted[-1] if listening[0].accepted else None
                            h = ag._handlers[-1] if len(ag._handlers) > nh else None
                    else:
                        sk = FakeSock('c%d' % len(socks))
                        h = ag._bind_handler(config=cfg, sock=sk, toaddr=('192.0.2.1', 4556))
                        h.start()
                except Exception as err:
                    bad.append(('C09:agent-%s-raises-%s' % (how, type(err).__name__), 'making a contact by %s raised %r' % (how, err)))
                if h is None or sk is None:
                    if not bad:
                        bad.append(('C09:agent-%s-made-no-contact' % how, 'making a contact by %s produced no handler' % how))
                    break
                if how != 'accept':
                    # an outgoing contact which was started writes its contact header (an accepted one waits for the peer's)
                    drain(h)
                    if not bytes(sk.sent).startswith(b'dtn!'):
                        bad.append(('C09:agent-contact-not-started', 'the outgoing contact made by %s was never started: no contact header is written' % how))
                        break
                socks.append(sk)
                hdls.append(h)
                terms_before.append(0)
                op['id'] = len(socks) - 1
            else:
                i = rng.randrange(len(hdls))
                op['id'] = i
                h, sk = hdls[i], socks[i]
                if k == 'establish':
                    if sk.closed or h._in_sess:
                        continue
                    drain(h)
                    feed(h, sk, tu.rfc_encode({'k': 'contact', 'flags': 0}))
                    drain(h)
                    feed(h, sk, tu.rfc_encode({'k': 'sess_init', 'keepalive': 0, 'seg_mru': 2 ** 64 - 1, 'xfer_mru': 2 ** 64 - 1,
                                               'node': b'dtn://peer/'.hex(), 'ext': ''}))
                elif k == 'contact_term':
                    if sk.closed:
                        continue
                    try:
                        h.terminate()
                    except RuntimeError:
                        pass
                elif k == 'contact_closed':
                    if sk.closed:
                        continue
                    if rng.random() < 0.5:
                        feed(h, sk, b'')
                    else:
                        h.close()
                elif k == 'shutdown':
                    op = {'op': 'shutdown'}
                    try:
                        ret = bool(ag.shutdown())
                    except Exception as err:
                        raised = type(err).__name__
                elif k == 'stop':
                    op = {'op': 'stop'}
                    try:
                        ag.stop()
                    except Exception as err:
                        raised = type(err).__name__
            for h in hdls:
                drain(h)
            closed_now = sorted(i for i in open_before if socks[i].closed)
            term_now = sorted(i for i, sk in enumerate(socks) if n_term(sk) > terms_before[i])
            out = {'closed': closed_now, 'sess_term': term_now, 'stopped': len(stops) - stops_before, 'ret': ret, 'raised': raised}
            ops.append(op)
            outs.append(out)
            # ---- independent monitors
            if raised:
                bad.append(('C09:agent-%s-raises-%s' % (k, raised), 'Agent.%s() raised %s with contacts %s' % (k, raised, [str(x._state) for x in hdls])))
            if k == 'stop' and not raised:
                left = [i for i, sk in enumerate(socks) if not sk.closed]
                if left:
                    bad.append(('C09:agent-stop-left-contact-open', 'after Agent.stop() the contacts %s of %d are still open' % (left, len(socks))))
            if k == 'shutdown' and not raised:
                lazy = [i for i, sk in enumerate(socks) if not sk.closed and not hdls[i]._in_term]
                if lazy:
                    bad.append(('C09:agent-shutdown-contact-not-terminating', 'after Agent.shutdown() the open contacts %s were not asked to terminate' % lazy))
                if ret is True and any(not sk.closed for sk in socks):
                    bad.append(('C09:agent-shutdown-true-with-open-contacts', 'Agent.shutdown() answered True with open contacts'))
            if k == 'shutdown':
                cut = [i for i in closed_now if sess_before.get(i)]
                if cut:
                    bad.append(('C09:agent-closed-established-contact', 'shutdown() closed the established contacts %s instead of asking them to terminate' % cut))
            # the agent's own view of its contacts: get_connections() lists exactly the contacts which are open
            try:
                listed = sorted(str(p_) for p_ in ag.get_connections())
            except Exception as err:
                listed = None
                bad.append(('C09:agent-get-connections-raises-%s' % type(err).__name__, 'Agent.get_connections() raised %r' % err))
            if listed is not None:
                want = sorted(str(hdls[i].object_path) for i, sk in enumerate(socks) if not sk.closed)
                if listed != want:
                    bad.append(('C09:agent-connection-list-wrong', 'after %s: get_connections() lists %s, the open contacts are %s'
                                % (k, listed, want)))
            if k in ('contact_closed', 'contact_term', 'establish', 'bind'):
                other = [i for i in closed_now if not (k == 'contact_closed' and i == op.get('id'))]
                if other:
                    bad.append(('C09:agent-closed-other-contact', 'when contact %s %s the agent closed the other contacts %s (stop_on_close=%s, shutdown requested=%s)'
                                % (op.get('id'), {'contact_closed': 'closed'}.get(k, k), other, soc, bool(ag._in_shutdown))))
        chk.case({'agent': True, 'stop_on_close': soc, 'ops': [o['op'] for o in ops], 'contacts': len(socks)}, sample=(case < 2))
        for o in ops:
            chk.count('agent-op:' + o['op'])
        for (sig, what) in bad:
            chk.violation(sig, what, {'stop_on_close': soc, 'ops': ops, 'observed': outs})
        reqs.append({'op': 'tcpcl.agent', 'stop_on_close': soc, 'ops': ops})
        runs.append((soc, ops, outs))
    try:
        res = chk.driver(reqs)
    except Exception as err:
        chk.corr_break('model driver unavailable: %s' % str(err)[:300], {})
        return
    for r, (soc, ops, outs) in zip(res, runs):
        if 'trace' not in r:
            chk.corr_break('agent model rejected the op list: %s' % r, {'ops': ops})
            continue
        chk.cov['traces_validated_against_impl'] = chk.cov.get('traces_validated_against_impl', 0) + 1
        for i, (ent, out) in enumerate(zip(r['trace'], outs)):
            m = {'closed': sorted(o['closed'] for o in ent['out'] if 'closed' in o),
                 'sess_term': sorted(o['sess_term'] for o in ent['out'] if 'sess_term' in o),
                 'stopped': sum(1 for o in ent['out'] if 'stopped' in o),
                 'ret': next((o['ret'] for o in ent['out'] if 'ret' in o), None), 'raised': None}
            if ops[i]['op'] == 'contact_term':
                out = dict(out, sess_term=[])      # the SESS_TERM of the contact's own termination is not an agent action
            if m != out:
                chk.corr_break('agent: model and implementation differ at op %d (%s)' % (i, ops[i]),
                               {'stop_on_close': soc, 'ops': ops[:i + 1], 'impl': out, 'model': m})
                break


def replay(chk, path):
    print('replay: event lists are in', path)
    return 0
