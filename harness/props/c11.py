''' C11 — forwarding preserves the bundle and updates only the hop-by-hop blocks, in the
TRANSMITTED BYTES. proof: DtnVerif.Props.C11; correspondence: received bundles with any mix of
previous-node / hop-count / age / unknown blocks, CRC types and block numberings, routed
'forward', through the real Agent against the Lean model (octets handed to the CL compared);
monitors written against the property text on those octets (own RFC 9171 reader, bitwise CRCs). '''
import json

import agentlib as A

RX = [(r'dtn://far/.*', 'forward'), (r'ipn:9\..*', 'forward')]
# no MTU on the transmit routes: fragment creation is C05's subject (and a parameter of this model)
TX = [(r'dtn://far/.*', None), (r'ipn:9\..*', None), (r'dtn://rpt/.*', None),
      (r'dtn://node/.*', None)]
SRCS = [A.dtn('//src/'), {'ipn': [4, 1]}, A.dtn('//other/app')]
DESTS = [A.dtn('//far/x'), A.dtn('//far/y/z'), {'ipn': [9, 3]}, A.dtn('//far/small')]
ANYREQ = A.F_DEL | A.F_DLV | A.F_FWD | A.F_RCV
# bundle processing control flags that have a name in PrimaryBlock.Flag; every other bit is reserved / unassigned
NAMED_FLAGS = ANYREQ | A.F_TIME | 0x20 | A.F_NOFRAG | A.F_ADMIN | A.F_FRAG
RESERVED_BITS = [0x8, 0x10, 0x80, 0x100, 0x200, 0x800, 0x1000, 0x2000, 0x8000, 0x80000, 0x100000, 0x200000]


EID_SUFFIXES = ['?q=1', '#frag', '?', '#', '?a#b', '?#', '#inbox', '?a=1&b=2']


def eid_suffix(e, rng):
    ''' append a query / fragment part to a dtn EID (other EIDs are returned as they are) '''
    if not isinstance(e, dict) or 'dtn' not in e or rng.random() < 0.3:
        return e
    return A.dtn(bytes.fromhex(e['dtn']).decode('utf8') + rng.choice(EID_SUFFIXES))


def noncanon_uint(n, rng):
    ''' a valid but non-shortest CBOR unsigned integer '''
    k = rng.choice([1, 2, 4])
    while n >= 256 ** k:
        k *= 2
    return A.Raw(bytes([24 + {1: 0, 2: 1, 4: 2, 8: 3}[k]]) + n.to_bytes(k, 'big'))


def gen_status_payload(rng, canonical):
    infos = [[True, A.T0 - 5] if rng.random() < 0.5 else [rng.random() < 0.5] for _ in range(4)]
    reason = rng.randrange(0, 11)
    body = [infos, reason, A.eid_item(A.dtn('//orig/')), [A.T0 - 999, rng.randrange(4)]]
    canon = A.enc([1, body])
    if canonical:
        return canon, canon
    body2 = [infos, noncanon_uint(reason, rng), A.eid_item(A.dtn('//orig/')), [A.T0 - 999, noncanon_uint(body[3][1], rng)]]
    return A.enc([1, body2]), canon


def gen_bundle(rng, seq, mode=None):
    ''' a received bundle that the receive table routes "forward" '''
    mode = mode or rng.choice(['plain'] * 6 + ['ts0', 'life0', 'future', 'dupprev', 'dupage', 'badprev', 'admin',
                                               'adminnc', 'nullrpt', 'fragment', 'malformed', 'dupnum'])
    flags = rng.choice([0, 0, A.F_NOFRAG, ANYREQ | A.F_TIME, A.F_FWD, A.F_DEL | A.F_RCV])
    create = A.T0 - rng.choice([1, 40, 90000, 10 ** 9])
    life = rng.choice([1000, 60000, 3600000, 2 ** 33])
    rpt = rng.choice(['none', A.dtn('//rpt/'), A.dtn('//rpt/')])
    rpt_none = False
    if mode == 'ts0':
        create = 0
    elif mode == 'life0':
        life = 0
    elif mode == 'future':
        create = A.T0 + rng.choice([1000, 10 ** 6])
    elif mode == 'nullrpt':
        rpt_none, rpt = True, 'none'
        flags = rng.choice([0, A.F_FWD, ANYREQ])
    pct = rng.choice([0, 1, 2])
    if rng.random() < 0.12:
        # reserved / unassigned flag bits (a forwarder must not drop them); half of them under primary CRC type 0,
        # which RFC 9171 allows when a BIB covers the primary block
        flags |= rng.choice(RESERVED_BITS) | rng.choice([0] + RESERVED_BITS)
        pct = rng.choice([0, 0, pct])
    dest, src = rng.choice(DESTS), rng.choice(SRCS)
    if rng.random() < 0.12:
        # query / fragment parts (empty ones included) in the primary EIDs; half of them under primary CRC type 0
        dest, src, rpt = [eid_suffix(e, rng) for e in (dest, src, rpt)]
        pct = rng.choice([0, 0, pct])
    p = A.mk_pri(dest, src, [create, seq], flags=flags, ct=pct,
                 rpt=rpt, life=life)
    if mode == 'nullrpt':
        # a CBOR null report-to under a primary CRC is rejected at the CRC gate (the CRC is checked over a
        # re-encoding that turns null into dtn:none): D20, C08's subject, kept out of this stream
        p['ct'] = 0
    if mode == 'fragment':
        p['flags'] |= A.F_FRAG
        p['foff'], p['tlen'] = rng.choice([0, 5]), 64
    # block numbers: unique, any values
    pool = list(range(2, 14)) + [24, 255, 256, 300, 65536]
    rng.shuffle(pool)
    nums = iter(pool)
    blocks = []

    def ct():
        return rng.choice([0, 0, 1, 2])

    nprev = rng.choice([0, 1, 1, 1]) if mode not in ('dupprev',) else rng.choice([2, 3])
    for _ in range(nprev):
        blocks.append(A.mk_blk(6, next(nums), A.enc(A.eid_item(rng.choice([A.dtn('//prev/'), {'ipn': [7, 0]}, 'none']))),
                               f=rng.choice([0, 0x10]), ct=ct()))
    if mode == 'badprev':
        bad = rng.choice([b'\x00', b'', b'\x82\x01', A.enc([3, 'x']), A.enc([1, 7]), A.enc('dtn://str/')])
        blocks.append(A.mk_blk(6, next(nums), bad, ct=ct()))
    nhop = rng.choice([0, 1, 1, 2])
    for _ in range(nhop):
        blocks.append(A.mk_blk(10, next(nums), A.enc([rng.choice([5, 30, 255, 1000]), rng.choice([0, 1, 22, 23, 24, 255, 256])]),
                               f=rng.choice([0, 1]), ct=ct()))
    nage = rng.choice([0, 1]) if mode != 'dupage' else rng.choice([2, 3])
    if mode == 'ts0':
        nage = 1
    for _ in range(nage):
        blocks.append(A.mk_blk(7, next(nums), A.enc(rng.choice([0, 5, 1000, 2 ** 32])), f=rng.choice([0, 1]), ct=ct()))
    for _ in range(rng.choice([0, 0, 1, 2])):
        blocks.append(A.mk_blk(rng.choice([192, 193, 200, 8, 9, 3]), next(nums),
                               bytes(rng.randrange(256) for _ in range(rng.randrange(0, 9))),
                               f=rng.choice([0, 1, 2, 0x10]), ct=ct()))
    rng.shuffle(blocks)
    payload = bytes(rng.randrange(256) for _ in range(rng.choice([0, 1, 7, 23, 24, 200])))
    reenc = None
    if mode in ('admin', 'adminnc'):
        p['flags'] |= A.F_ADMIN
        payload, reenc = gen_status_payload(rng, mode == 'admin')
    # (a non-shortest admin record under a payload CRC is likewise rejected at the CRC gate: D20)
    pay = A.mk_blk(1, 1, payload, f=0, ct=0 if mode == 'adminnc' else ct(), reenc=reenc)
    blocks.append(pay)
    if mode == 'malformed':
        which = rng.choice(['notlast', 'paynum', 'nopayload'])
        if which == 'notlast' and len(blocks) > 1:
            blocks.insert(rng.randrange(len(blocks) - 1), blocks.pop())
        elif which == 'paynum':
            pay['n'] = next(nums)
        elif len(blocks) > 1:
            blocks.pop()        # no payload block (a bundle without ANY block: see zero_block_leak)
    if mode == 'dupnum':
        # two blocks share a number (or one is numbered 0): BundleContainer refuses such a bundle
        exts = [k for k in blocks if k is not pay]
        while len(exts) < 3:
            k = A.mk_blk(rng.choice([192, 193, 10, 7, 6]), next(nums), A.enc([5, 1]), ct=ct())
            blocks.insert(0, k)
            exts.append(k)
        which = rng.choice(['two-ext', 'ext-is-1', 'pay-eq-ext', 'three', 'zero'])
        if which == 'two-ext':
            exts[1]['n'] = exts[0]['n']
        elif which == 'ext-is-1':
            rng.choice(exts)['n'] = 1
        elif which == 'pay-eq-ext':
            pay['n'] = rng.choice(exts)['n']
        elif which == 'three':
            exts[1]['n'] = exts[2]['n'] = exts[0]['n']
        else:
            rng.choice(exts)['n'] = 0
        mode = 'dupnum:' + which
    return {'pri': p, 'rpt_none': rpt_none, 'blocks': blocks, 'mode': mode}


def well_formed(b):
    ns = [k['n'] for k in b['blocks']]
    pays = [k for k in b['blocks'] if k['t'] == 1]
    return (len(set(ns)) == len(ns) and len(pays) == 1 and b['blocks'][-1]['t'] == 1 and b['blocks'][-1]['n'] == 1
            and all(k['n'] != 1 for k in b['blocks'][:-1]))


def uint_pair(btsd):
    try:
        v, end = A.dec(btsd)
    except A.CborError:
        return None
    if end == len(btsd) and isinstance(v, list) and len(v) == 2 and all(isinstance(i, int) and i >= 0 for i in v):
        return v
    return None


def monitors(chk, case, obs, only=None):
    ''' the property text, on the octets handed to the CL '''
    assigned = set()
    by_item = {}
    for o in obs:
        by_item.setdefault(o['item'], []).append(o)
    for ix, it in enumerate(case['items']):
        if only is not None and ix != only:
            continue
        b = it['b']
        p = b['pri']
        rj = replay_obj(case, ix)
        fwd_obs = [o for o in by_item.get(ix, []) if o['k'] == 'fwd']
        outs = []
        for o in fwd_obs:
            for h in o['tx'] + o.get('frag_tx', []):
                outs.append((A.dec_bundle(bytes.fromhex(h)), o))
        fwd_now = it['now'] + it.get('dwell', 0)
        tag = 'mode=%s' % b.get('mode')
        ns_in = [k['n'] for k in b['blocks']]
        if len(set(ns_in)) != len(ns_in) or 0 in ns_in:
            # duplicate block numbers on input: whatever is transmitted must have unique block numbers with
            # the payload numbered 1 and last (the code as it stands refuses the bundle at reception)
            if not outs:
                chk.count('dupnum:refused')
            for (d, _o) in outs:
                ns = [k['n'] for k in d.blocks]
                if len(set(ns)) != len(ns) or not (d.blocks and d.blocks[-1]['t'] == 1 and d.blocks[-1]['n'] == 1):
                    chk.violation('C11:duplicate-block-number-forwarded',
                                  '%s: received block numbers %s; transmitted (type, number) %s'
                                  % (tag, ns_in, [(k['t'], k['n']) for k in d.blocks]), rj)
                else:
                    chk.count('dupnum:forwarded-with-unique-numbers')
            continue
        if not outs:
            clash = [k['n'] for k in b['blocks'] if k['n'] in assigned]
            if clash:
                chk.violation('C11:forward-dropped-block-number-collision',
                              '%s: routed forward with a transmit route, nothing left the node: block number(s) %s of '
                              'the received bundle equal numbers assigned to blocks added to an EARLIER forwarded '
                              'bundle (they stick in a class-level scapy dict); add_block raises; deleted/NO_ROUTE'
                              % (tag, clash), rj)
            else:
                chk.violation('C11:forward-dropped', '%s: routed forward with a transmit route, nothing left the node' % tag, rj)
            continue
        chk.count('forwarded')
        if len(outs) != 1 or outs[0][0].pri['flags'] & A.F_FRAG and not p['flags'] & A.F_FRAG:
            chk.count('forwarded-as-fragments')
            continue    # fragments: C05's subject
        d = outs[0][0]
        for k in d.blocks:
            if k['t'] in (6, 7) and not any(r['n'] == k['n'] and r['t'] == k['t'] and r['btsd'] == k['btsd']
                                            for r in b['blocks']):
                assigned.add(k['n'])
        # primary block fields
        rrpt = None if b.get('rpt_none') else p['rpt']
        diffs = [f for f in ('ver', 'flags', 'dest', 'src', 'ts', 'life', 'foff', 'tlen') if d.pri[f] != p[f]]
        if d.pri['rpt'] != rrpt and not (rrpt is None and d.pri['rpt'] == 'none'):
            diffs.append('rpt')
        if diffs:
            if 'ts' in diffs and p['ts'][0] == 0:
                sig = 'C11:create-time-zero-rewritten'
            elif diffs == ['life'] and p['life'] == 0:
                sig = 'C11:lifetime-zero-rewritten'
            elif diffs == ['rpt'] and rrpt is None:
                sig = 'C11:absent-report-to-rewritten'
            elif diffs == ['flags'] and p['flags'] & ~NAMED_FLAGS:
                sig = 'C11:reserved-flag-bits-dropped'
            elif set(diffs) <= set(('dest', 'src', 'rpt')):
                sig = 'C11:eid-text-changed'
            else:
                sig = 'C11:primary-changed'
            chk.violation(sig, '%s: primary fields %s changed: received %s forwarded %s'
                          % (tag, diffs, [p[f] if f != 'rpt' else rrpt for f in diffs], [d.pri[f] for f in diffs]), rj)
        # payload
        rpay = [k for k in b['blocks'] if k['t'] == 1]
        fpay = [k for k in d.blocks if k['t'] == 1]
        if [k['btsd'] for k in rpay] != [k['btsd'] for k in fpay]:
            sig = 'C11:admin-payload-reencoded' if p['flags'] & A.F_ADMIN else 'C11:payload-changed'
            chk.violation(sig, '%s: payload octets changed: received %s forwarded %s'
                          % (tag, [k['btsd'] for k in rpay], [k['btsd'] for k in fpay]), rj)
        # previous node
        prevs = [k for k in d.blocks if k['t'] == 6]
        good = [k for k in prevs if k['btsd'] == A.enc(A.eid_item(A.NODE)).hex()]
        if len(prevs) != 1 or len(good) != 1:
            rprev = [k for k in b['blocks'] if k['t'] == 6]
            if any(not A.btsd_parses(6, bytes.fromhex(k['btsd'])) for k in rprev):
                sig = 'C11:malformed-prev-node-kept'
            elif len(rprev) >= 2:
                sig = 'C11:duplicate-prev-node-survives'
            else:
                sig = 'C11:prev-node-wrong'
            chk.violation(sig, '%s: %d previous-node blocks leave the node (%d name this node): %s; received had %d'
                          % (tag, len(prevs), len(good), [k['btsd'] for k in prevs], len(rprev)), rj)
        # hop count, in the bytes
        for k in b['blocks']:
            if k['t'] != 10:
                continue
            pair = uint_pair(bytes.fromhex(k['btsd']))
            if pair is None:
                continue
            out = [q for q in d.blocks if q['n'] == k['n'] and q['t'] == 10]
            got = uint_pair(bytes.fromhex(out[0]['btsd'])) if len(out) == 1 and out[0]['btsd'] else None
            if got != [pair[0], pair[1] + 1]:
                chk.violation('C11:hop-count-not-incremented-on-wire',
                              '%s: hop-count block %d received [limit, count] = %s, transmitted %s (expected count %d)'
                              % (tag, k['n'], pair, got, pair[1] + 1), rj)
        # age
        ages = [k for k in d.blocks if k['t'] == 7]
        if len(ages) > 1:
            chk.violation('C11:duplicate-age-survives', '%s: %d bundle-age blocks leave the node: %s (received had %d)'
                          % (tag, len(ages), [k['btsd'] for k in ages], len([k for k in b['blocks'] if k['t'] == 7])), rj)
        elif p['ts'][0] == 0:
            # creation time 0: the received age block(s) are removed and none is added. "At most one" holds;
            # counted for the report (RFC 9171 4.2.1 wants an age block on such a bundle).
            if any(k['t'] == 7 for k in b['blocks']) and not ages:
                chk.count('ts0:received-age-block-not-forwarded')
        else:
            want = fwd_now - p['ts'][0]
            got = None
            if ages:
                try:
                    got, _e = A.dec(bytes.fromhex(ages[0]['btsd']))
                except A.CborError:
                    got = 'undecodable'
            if want >= 0 and got != want:
                chk.violation('C11:age-wrong', '%s: age block says %s, time since creation is %s' % (tag, got, want), rj)
            if want < 0 and (not isinstance(got, int) or got < 0):
                chk.violation('C11:negative-age-on-wire',
                              '%s: creation time %d is ahead of the node clock %d: the age block carries %s '
                              '(not an unsigned integer)' % (tag, p['ts'][0], fwd_now, got), rj)
            elif want < 0 and got != 0:
                # the age reflects time since creation: no time has passed since a creation in the future
                chk.violation('C11:future-creation-age-not-zero',
                              '%s: creation time %d is %d ms ahead of the node clock %d, yet the age block says %s '
                              '(expected 0)' % (tag, p['ts'][0], -want, fwd_now, got), rj)
        # other blocks untouched
        for k in b['blocks']:
            if k['t'] in (1, 6, 7, 10):
                continue
            same = [q for q in d.blocks if q['n'] == k['n']]
            if len(same) != 1 or any(same[0][f] != k[f] for f in ('t', 'f', 'ct', 'btsd')):
                chk.violation('C11:extension-block-changed', '%s: block %s became %s' % (tag, k, same), rj)
        # numbering
        ns = [k['n'] for k in d.blocks]
        if len(set(ns)) != len(ns):
            chk.violation('C11:duplicate-block-number', '%s: block numbers %s' % (tag, ns), rj)
        if well_formed(b) and not (d.blocks and d.blocks[-1]['t'] == 1 and d.blocks[-1]['n'] == 1
                                   and all(k['n'] != 1 for k in d.blocks[:-1])):
            chk.violation('C11:payload-not-last', '%s: (type, number) sequence %s' % (tag, [(k['t'], k['n']) for k in d.blocks]), rj)
        # CRCs
        if not all(d.crc_ok):
            chk.violation('C11:invalid-crc', '%s: CRC check per block %s' % (tag, d.crc_ok), rj)
        if d.pri['ct'] != p['ct'] or any(q['ct'] != k['ct'] for k in b['blocks'] for q in d.blocks
                                         if q['n'] == k['n'] and q['t'] == k['t'] and k['t'] not in (6, 7)):
            chk.violation('C11:crc-type-changed', '%s: CRC types changed' % tag, rj)


def replay_obj(case, upto=None):
    items = case['items'] if upto is None else case['items'][:upto + 1]
    return {'rx': RX, 'tx': TX, 'items': [{'b': it['b'], 'now': it['now'], 'crc_ok': True, 'dwell': it.get('dwell', 0)}
                                          for it in items]}


def mk_case(bundles, rng=None, now0=A.T0 + 10):
    items = []
    now = now0
    for b in bundles:
        now += 3
        items.append({'b': b, 'now': now, 'crc_ok': True, 'dwell': rng.choice([0, 0, 5, 2000]) if rng else 0})
    return {'items': items}


# witnesses of the counterexample theorems in Props/C11.lean: same field values (wPri 5000 0 60000, now = 9000)
W_NOW = 9000


def _w(mode, blocks, ts=(5000, 0), life=60000, flags=0):
    return {'pri': A.mk_pri(A.dtn('//far/x'), A.dtn('//src/'), list(ts), flags=flags, life=life), 'rpt_none': False,
            'mode': mode, 'blocks': blocks + [A.mk_blk(1, 1, b'\x01\x02\x03')]}


def w_d10():       # wD10
    return _w('witness-D10', [A.mk_blk(10, 2, A.enc([30, 4]))])


def w_d11():       # wD11
    return _w('witness-D11', [A.mk_blk(7, 2, A.enc(5))], ts=(0, 7))


def w_life0():     # wLife0
    return _w('witness-life0', [], life=0)


def w_resflags():  # reserved flag bit 0x200000 next to NO_FRAGMENT, primary CRC type 0 (example in Props/C11.lean)
    return _w('witness-reserved-flags', [], flags=0x200004)


def w_eidparts():  # a fragment part, a bare '?' and both parts in the three primary EIDs, primary CRC type 0
    b = _w('witness-eid-parts', [])
    b['pri']['dest'] = A.dtn('//far/x#inbox')
    b['pri']['src'] = A.dtn('//src/?')
    b['pri']['rpt'] = A.dtn('//rpt/?a#b')
    return b


def eid_text_probe(chk):
    ''' EID texts that the code as it stands re-encodes differently (observed, counted, not judged here):
    a dtn EID with an authority but no path gets a '/' appended by EidField.i2m when the primary block is
    re-encoded for forwarding. Outside the model (EIDs are opaque octets there). '''
    for (dest, src, rpt) in (('//far/x', '//nopath', '//rpt/'), ('//far/x', '//src/', '//nopath?q'),
                             ('//far/x', 'none', '//rpt/')):
        b = _w('eid-probe', [])
        b['pri']['dest'], b['pri']['src'], b['pri']['rpt'] = A.dtn(dest), A.dtn(src), A.dtn(rpt)
        case = mk_case([b], now0=W_NOW - 3)
        fix = A.Fixture(RX, TX)
        for it in case['items']:
            it['data'] = A.enc_bundle(it['b'])
        try:
            _ev, obs = A.run_real(fix, case['items'])
        except Exception:
            chk.count('eid-probe:error')
            continue
        for o in obs:
            for h in o['tx']:
                d = A.dec_bundle(bytes.fromhex(h))
                for f in ('dest', 'src', 'rpt'):
                    if d.pri[f] != b['pri'][f]:
                        same_text = A.eid_text(b['pri'][f]) == A.eid_text(d.pri[f])
                        chk.count('eid-probe:%s %s -> %s%s' % (f, A.eid_text(b['pri'][f]), A.eid_text(d.pri[f]),
                                                               ' (same text, SSP re-encoded as uint 0)' if same_text else ''))
        chk.count('eid-probe')


def w_future():    # wFuture: creation time 1 s ahead of the node clock (W_NOW = 9000)
    return _w('witness-future', [], ts=(10000, 0))


def w_dupprev():   # wDupPrev
    return _w('witness-dupprev', [A.mk_blk(6, 2, A.enc([1, '//p1/'])), A.mk_blk(6, 3, A.enc([1, '//p2/']))])


def w_dupage():    # wDupAge
    return _w('witness-dupage', [A.mk_blk(7, 2, A.enc(5)), A.mk_blk(7, 3, A.enc(6))])


def w_dupnum():    # wDupNum: two extension blocks numbered 2
    return _w('dupnum:witness', [A.mk_blk(192, 2, b''), A.mk_blk(193, 2, b'')])


def w_dupnum_pay():   # an extension block numbered 1, like the payload
    return _w('dupnum:witness-ext-is-1', [A.mk_blk(192, 1, b'x')])


def w_adminnc():   # wAdmin: status report with the reason code 6 encoded as 18 06
    head = bytes.fromhex('8201848481f581f481f481f4')
    tail_ = bytes.fromhex('8201642f2f6f2f820102')
    b = _w('witness-adminnc', [], flags=A.F_ADMIN)
    b['blocks'] = [A.mk_blk(1, 1, head + b'\x18\x06' + tail_, reenc=A.enc([1, [[[True], [False], [False], [False]], 6,
                                                                              [1, '//o/'], [1, 2]]]))]
    assert b['blocks'][0]['reenc'] == (head + b'\x06' + tail_).hex()
    return b


def w_admin_weird():
    ''' admin-flagged bundle whose record is [1, 1]: the payload is rewritten to [1, h'00'] (monitors only) '''
    return {'pri': A.mk_pri(A.dtn('//far/x'), A.dtn('//src/'), [5000, 0], flags=A.F_ADMIN, life=60000),
            'rpt_none': False, 'mode': 'witness-admin-odd', 'blocks': [A.mk_blk(1, 1, bytes.fromhex('82011a00000001'))]}


def zero_block_leak(chk):
    ''' A bundle without any canonical block is outside C11's quantifier (the property presupposes a payload
    block). What matters here is that it cannot harm a LATER well-formed bundle: dissection leaves its
    `blocks` field at the class-level default list (PacketListField('blocks', default=[])), and an in-place
    insert there would hand the added blocks to every Bundle() built afterwards. Probe: primary-only bundle,
    then a well-formed one through the same agent; the monitors run on the well-formed one only. '''
    fix = A.Fixture(RX, TX)
    b0 = {'pri': A.mk_pri(A.dtn('//far/x'), A.dtn('//src/'), [A.T0 - 5, 0]), 'rpt_none': False, 'blocks': [],
          'mode': 'zero-block'}
    b1 = _w('after-zero-block', [A.mk_blk(10, 2, A.enc([9, 1]))], ts=(A.T0 - 5, 1))
    case = mk_case([b0, b1])
    for it in case['items']:
        it['data'] = A.enc_bundle(it['b'])
    _ev, obs = A.run_real(fix, case['items'])
    leaked = len(fix.m['enc'].Bundle().getfieldval('blocks'))
    del fix.m['enc'].Bundle().getfieldval('blocks')[:]
    chk.count('zero-block-probe')
    if leaked:
        chk.count('zero-block-probe:default-list-polluted')
    monitors(chk, {'items': case['items']}, [o for o in obs if o['item'] == 1], only=1)
    if leaked:
        chk.violation('C11:zero-block-bundle-leaks-state',
                      'after forwarding a primary-only bundle a fresh Bundle() has %d blocks: later bundles built '
                      'in this process (status reports, fragments) start with them' % leaked,
                      replay_obj(case))


def run_cases(chk, cases, compare=True):
    runs = []
    for case in cases:
        fix = A.Fixture(RX, TX)
        for it in case['items']:
            it['data'] = A.enc_bundle(it['b'])
        events, obs = A.run_real(fix, case['items'])
        runs.append((case, fix, events, obs))
    answers = A.model_answers(chk, [(RX, fix, ev) for (_c, fix, ev, _o) in runs]) if compare else [None] * len(runs)
    for (case, fix, events, obs), ans in zip(runs, answers):
        if compare:
            diffs = A.compare(events, obs, ans)
            if diffs:
                chk.corr_break('modes=%s: %s' % ([it['b'].get('mode') for it in case['items']], '; '.join(diffs[:3])),
                               replay_obj(case))
            chk.cov['traces_validated_against_impl'] += 1
        monitors(chk, case, obs)
        for it in case['items']:
            chk.count('mode:%s' % it['b'].get('mode'))
            chk.count('blocks:%d' % len(it['b']['blocks']))
        chk.case({'x': json.dumps([it['b'] for it in case['items']], sort_keys=True)}, nontrivial=True,
                 sample=len(case['items']) == 1 and case['items'][0]['b'].get('mode') == 'plain')


def run(chk):
    chk.prove('DtnVerif.Props.C11')
    chk.cov['rule'] = ('received bundles routed forward: 0..3 previous-node (incl. malformed BTSD), 0..2 hop-count, '
                       '0..3 age, 0..2 unknown extension blocks in any order, block numbers drawn from '
                       '{2..13,24,255,256,300,65536}, CRC type 0/1/2 per block, creation time past/0/future, '
                       'lifetime 0, query / fragment parts in the primary EIDs, report flags, reserved flag bits (primary CRC 0/1/2), null report-to, admin-record payloads (canonical / non-shortest), '
                       'duplicate block numbers (two or three equal, extension block numbered 1 or 0, payload sharing a '
                       'number), '
                       'fragments, malformed layouts (payload not last / not numbered 1 / absent), transmit routes '
                       'with and without MTU; single bundles and histories of 2-3 forwarded bundles per agent; '
                       'all octets handed to the CL compared with the Lean model, then the monitors of the '
                       'property text')
    chk.assumptions += [
        'whether scapy dissects a previous-node / age / hop-count BTSD into its class is a parameter of the '
        'model, supplied by an independent well-formedness predicate (agentlib.btsd_parses)',
        'CRC values are parameters of the model (taken from the captured octets) and checked by the '
        'independent bitwise CRC monitor; the re-encoding of an AdminRecord payload is a parameter computed '
        'by the independent canonical encoder',
        'the monitor "payload numbered 1 and last" applies when the received bundle had that layout',
        'no BPSec configuration (the TX BPSec steps do nothing)',
    ]
    rng = chk.rng
    corpus = [{'items': r['replay']['items']} for r in A.corpus('C11') if 'odd-record' not in r['_file']]
    if corpus:
        run_cases(chk, corpus)
    cases = [mk_case([w()], now0=W_NOW - 3) for w in (w_d10, w_d11, w_life0, w_dupprev, w_dupage, w_adminnc, w_dupnum,
                                                               w_dupnum_pay, w_resflags, w_future, w_eidparts)]
    n = 700 if chk.tier == 'quick' else 30000
    seq = 0
    for i in range(n):
        k = 1 if rng.random() < 0.8 else rng.choice([2, 3])
        bs = []
        for _ in range(k):
            seq += 1
            bs.append(gen_bundle(rng, seq))
        cases.append(mk_case(bs, rng))
    for i in range(0, len(cases), 200):
        run_cases(chk, cases[i:i + 200])
    run_cases(chk, [mk_case([w_admin_weird()], now0=W_NOW - 3)], compare=False)
    zero_block_leak(chk)
    eid_text_probe(chk)


def replay(chk, path):
    rec = json.load(open(path))
    r = rec.get('replay', rec)
    case = {'items': r['items']}
    fix = A.Fixture(RX, TX)
    for it in case['items']:
        it['data'] = A.enc_bundle(it['b'])
    events, obs = A.run_real(fix, case['items'])
    for it, o in [(case['items'][o['item']], o) for o in obs if o['k'] == 'fwd']:
        print('received :', it['data'].hex())
        for h in o['tx']:
            print('forwarded:', h)
    monitors(chk, case, obs)
    for v in chk.violations:
        print('VIOLATION %s: %s' % (v['signature'], v['what']))
    return 1 if chk.violations else 0
