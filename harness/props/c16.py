''' C16  COSE confidentiality blocks encrypt, bind context and decrypt exactly.

proof    : DtnVerif.Props.C16 (Model/Sec.lean: Enc_structure, apply/verify of BCB targets)
corr     : `get_external_aad` and pycose's `_enc_structure` captured on real sender/receiver vs the model;
           BCBs built from the model's AEAD associated data (5 AAD scopes) must decrypt on the real receiver
search   : wire BTSD != plaintext and no plaintext run; exact recovery (empty plaintext included); every
           single-bit flip through the real receiver (ciphertext, context, parameters); wrong / missing key
'''
import seclib as S


def run(chk):
    chk.prove('DtnVerif.Props.C16')
    chk.cov['rule'] = ('own Enc0 and Enc+KW BCBs (real apply_bcb) and model-built BCBs over 5 AAD scopes; AAD + Enc_structure compared '
                       'with the model; plaintext never on the wire; exact recovery; all single-bit flips classified independently')
    chk.assumptions += [
        'AES-GCM / AES-KW are parameters: the round-trip theorem assumes dec k iv aad (enc k iv aad p) = some p, the failure theorem assumes the primitive rejects',
        'with accept_after_verify=False (the default) the destination verifies the BCB but leaves the ciphertext in the block it delivers: counted, not judged (the property speaks of acceptance)',
        'flips that make the bundle undecodable / fail a block CRC / change only the security-block framing are counted, not judged here (C02, C08, C12)',
    ]
    S.campaign(chk, 'C16', conf=True)


def replay(chk, path):
    return S.replay_variant(chk, path, 'C16')
