''' C15  TCPCL enforces its TLS and peer-authentication policy.

proof      : DtnVerif.Props.C15 over Model/TlsPolicy.lean (contact decision, match_id, authn decision,
             observable outcome), against the independent `Spec` written from the property text /
             RFC 9174 §4.3, §4.4.
corr       : the REAL tcpcl.session.ContactHandler (recv_raw → recv_message → secure() →
             merge_session_params → match_id → send_sess_term / get_session_parameters), in-process, over a
             fake ssl context (tlslib.py): handshake result scripted, getpeercert(True) = real DER made with
             `cryptography`. The same scenario goes to the Lean model (`tls.negotiate`); compared:
             messages on the plain socket, messages on the TLS socket, state, closed, is_secure,
             handshake attempted, escaped exception class, authn fields of get_session_parameters().
             quick   : the FULL abstract decision table (config x contact x handshake x pipelining, and for
                       every row that reaches the TLS session stage: certificate none / no SAN / every
                       (ip, dns, node) in {absent, matched, mismatch}^3 x DNS name known or not), one
                       concrete certificate per row; + match_id alone on random SAN lists.
             thorough: the same rows with many concrete certificates each (several entries per kind, match at
                       any position, IPv4/IPv6/network entries, no-extension / empty / foreign-only SAN),
                       every flags octet, SSLError subclasses, random free-form SAN lists.
             config  : the requirement as a configuration file gives it: every way of writing the four policy options
                       (key absent / true / false, null for require_tls) is written to a file, read by the REAL
                       Config.from_file (yaml stub = JSON subset of YAML), compared with `tls.loadcfg`, and the handler
                       is built from that Config; monitors judge against what the file says.
monitors   : written from the property text, independent of the model; run on every case.
regression : six former defects of this code are repaired in /repo (D27 ssl.match_hostname, D13 uncompared DNS-ID,
             peer without certificate, plaintext SESS_INIT carried across the handshake, OSError in the handshake,
             messages handled after close). Their witnesses are replayed on every run and all monitors stay armed;
             on a model/implementation disagreement the model is asked again with each former-defect switch of
             `Quirks` on, so that a regression is named.
'''
import ipaddress
import json
import logging
import os

import tlslib as T
from tlslib import session, x509

IDS = ('absent', 'matched', 'mismatch')
ADDR = {4: '192.0.2.1', 6: '2001:db8::1'}
NAME = 'peer.example.org'
NODE = 'dtn://peer/'
FOREIGN_IP = ['192.0.2.99', '198.51.100.7', '2001:db8::99', '::ffff:192.0.2.1', '0.0.0.0']
FOREIGN_NET = [bytes([192, 0, 2, 0, 255, 255, 255, 0]).hex()]         # iPAddress of 8 octets: a network
FOREIGN_DNS = ['evil.example.net', 'PEER.example.org', '*.example.org', 'peer.example.org.', 'example.org', 'xn--peer-9na.example.org']
FOREIGN_URI = ['dtn://other/', 'dtn://peer', 'DTN://peer/', 'ipn:1.0', 'dtn://peer/x', 'https://peer.example.org/']
# former-defect switches of Model/TlsPolicy.lean `Quirks` (all off = the code under verification)
QUIRK_NAMES = {'calls_native': 'D27: ssl.match_hostname called (missing in Python >= 3.12)',
               'unchecked_dns_counts': 'D13: an uncompared DNS-ID satisfies require_host_authn',
               'carries_plaintext': 'octets received before the TLS handshake are processed after it',
               'no_cert_raises': 'peer without certificate raises TypeError',
               'handshake_os_escapes': 'non-SSL OSError in the handshake escapes',
               'handles_after_close': 'messages still handled after close()'}
HS_MODEL = {'ok': 'ok', 'sslerror': 'sslerror', 'certerror': 'sslerror', 'eof': 'sslerror', 'reset': 'oserror'}


# ------------------------------------------------------------------------------------------ rows
def contact_rows():
    for passive in (False, True):
        for tls_enable in (False, True):
            for require_tls in (None, True, False):
                for peer_flags in (0, 1):
                    for hs in ('ok', 'sslerror', 'reset'):
                        for pipelined in (False, True):
                            yield dict(passive=passive, tls_enable=tls_enable, require_tls=require_tls,
                                       peer_flags=peer_flags, handshake=hs, pipelined=pipelined)


def peer_rows(passive):
    ''' abstract peers for the TLS session stage '''
    for dns_known in ((False,) if passive else (False, True)):
        yield dict(cert='none', dns_known=dns_known, ip='absent', dns='absent', node='absent')
        yield dict(cert='nosan', dns_known=dns_known, ip='absent', dns='absent', node='absent')
        for ip in IDS:
            for dns in IDS:
                if dns == 'matched' and not dns_known:
                    continue            # nothing can equal Python None
                for node in IDS:
                    yield dict(cert='san', dns_known=dns_known, ip=ip, dns=dns, node=node)


def session_rows():
    for passive in (False, True):
        for require_tls in (None, True):
            for rh in (False, True):
                for rn in (False, True):
                    for pipelined in (False, True):
                        for peer in peer_rows(passive):
                            yield dict(passive=passive, tls_enable=True, require_tls=require_tls, require_host=rh,
                                       require_node=rn, peer_flags=1, handshake='ok', pipelined=pipelined, peer=peer)


# ------------------------------------------------------------------------------------------ concretisation
def _entries(result, ref, foreign, rng, rich):
    ''' SAN entries of one kind realising an abstract result for reference `ref` '''
    if result == 'absent':
        return []
    k = rng.randint(1, 3) if rich else 1
    others = [rng.choice(foreign) for _ in range(k)]
    if result == 'mismatch':
        return others
    if not rich:
        return [ref]
    others = others[:rng.randint(0, 2)]
    pos = rng.randint(0, len(others))
    out = others[:pos] + [ref] + others[pos:]
    if rng.random() < 0.2:
        out.append(ref)                     # duplicate entry
    return out


def concretise(row, rng, rich=False):
    ''' abstract row -> scenario for tlslib.run_scenario '''
    peer = row.get('peer') or dict(cert='san', dns_known=not row['passive'], ip='matched', dns='matched' if not row['passive'] else 'absent', node='matched')
    fam = rng.choice((4, 6)) if rich else 4
    addr = ADDR[fam]
    name = addr
    if peer['dns_known']:
        name = NAME if not rich else rng.choice([NAME, 'Peer.Example.Org', 'localhost', 'a.b'])
    elif row['passive'] and rich and rng.random() < 0.2:
        name = NAME                         # a listener handed a name: still not a DNS-ID reference
    node = NODE if not rich else rng.choice([NODE, 'ipn:977000.1.0', 'dtn://nøde/', 'dtn://peer/'])
    sc = dict(passive=row['passive'], tls_enable=row['tls_enable'], require_tls=row['require_tls'],
              require_host=row.get('require_host', False), require_node=row.get('require_node', False),
              peer_flags=row['peer_flags'], handshake=row['handshake'], pipelined=row['pipelined'],
              peer_name=name, sock_peer=addr, peer_node=node)
    if peer['cert'] == 'none':
        sc['cert'] = None
    elif peer['cert'] == 'nosan':
        sc['cert'] = dict(san=False)
    else:
        foreign_ip = [T.ip_bytes(a).hex() for a in FOREIGN_IP] + (FOREIGN_NET if rich else [])
        foreign_uri = [u for u in FOREIGN_URI if u != node]
        foreign_dns = [d for d in FOREIGN_DNS + ([] if peer['dns_known'] else [NAME]) if d != name or not peer['dns_known']]
        uri_ref = node
        try:
            node.encode('ascii')
        except UnicodeEncodeError:
            uri_ref = None                  # an IA5String cannot carry it: "matched" is not realisable
        if uri_ref is None and peer['node'] == 'matched':
            node = NODE
            sc['peer_node'] = node
            uri_ref = node
        cert = dict(san=True,
                    ip=_entries(peer['ip'], T.ip_bytes(addr).hex(), foreign_ip, rng, rich),
                    dns=_entries(peer['dns'], name if peer['dns_known'] else None, foreign_dns, rng, rich),
                    uri=_entries(peer['node'], uri_ref, foreign_uri, rng, rich),
                    other=(['someone@example.org'] if (rich and rng.random() < 0.3) or
                           (peer['ip'], peer['dns'], peer['node']) == ('absent',) * 3 and rng.random() < 0.5 else []),
                    order=rng.randint(0, 1) if rich else 0)
        if rich and rng.random() < 0.2:
            cert['eku'] = True
        sc['cert'] = cert
    sc['intended'] = dict(cert_present=peer['cert'] != 'none', dns_known=peer['dns_known'],
                          ip=peer['ip'], dns=peer['dns'], node=peer['node'])
    return sc


def free_scenario(rng):
    ''' no intended abstract row: configuration and SAN lists drawn freely '''
    passive = rng.random() < 0.5
    addr = rng.choice(list(ADDR.values()) + ['192.0.2.99'])
    name = addr if passive or rng.random() < 0.4 else rng.choice([NAME] + FOREIGN_DNS[:3])
    node = rng.choice([NODE] + FOREIGN_URI[:4])
    pool_ip = [T.ip_bytes(a).hex() for a in list(ADDR.values()) + FOREIGN_IP] + FOREIGN_NET
    pool_dns = [NAME] + FOREIGN_DNS
    pool_uri = [NODE] + FOREIGN_URI

    def pick(pool):
        return [rng.choice(pool) for _ in range(rng.choice([0, 0, 1, 1, 2, 3, 6]))]
    r = rng.random()
    cert = None if r < 0.04 else (dict(san=False) if r < 0.1 else
                                  dict(san=True, ip=pick(pool_ip), dns=pick(pool_dns), uri=pick(pool_uri),
                                       other=['x@example.org'] * rng.randint(0, 1), order=rng.randint(0, 1)))
    return dict(passive=passive, tls_enable=rng.random() < 0.9, require_tls=rng.choice([None, None, True, False]),
                require_host=rng.random() < 0.5, require_node=rng.random() < 0.5,
                peer_flags=rng.choice([1, 1, 1, 0, 3, 0xff, 0xfe]), handshake=rng.choice(['ok'] * 8 + ['sslerror', 'certerror', 'eof', 'reset']),
                pipelined=rng.random() < 0.2, peer_name=name, sock_peer=addr, peer_node=node, cert=cert)


# ------------------------------------------------------------------------------------------ configuration file
# "the configured requirement": the documented defaults of tcpcl.config.Config (comments of config.py / README),
# written here independently of the model
FILE_DEFAULTS = dict(tls_enable=True, require_tls=None, require_host_authn=False, require_node_authn=False)
ABSENT = object()


def file_contents():
    ''' every way of giving the four policy options in a file: key absent / each value (null for require_tls) '''
    for te in (ABSENT, True, False):
        for rt in (ABSENT, None, True, False):
            for rh in (ABSENT, True, False):
                for rn in (ABSENT, True, False):
                    opts = dict(tls_enable=te, require_tls=rt, require_host_authn=rh, require_node_authn=rn)
                    yield {k: v for k, v in opts.items() if v is not ABSENT}


def file_says(opts, form='section'):
    ''' what a reader of the file understands the configuration to be '''
    if form in ('no-section', 'empty'):
        opts = {}
    return {k: opts.get(k, d) for k, d in FILE_DEFAULTS.items()}


def file_scenario(opts, form, passive, peer_flags, handshake='ok'):
    says = file_says(opts, form)
    addr = ADDR[4]
    return dict(passive=passive, tls_enable=says['tls_enable'], require_tls=says['require_tls'],
                require_host=says['require_host_authn'], require_node=says['require_node_authn'],
                peer_flags=peer_flags, handshake=handshake, pipelined=False,
                peer_name=addr if passive else NAME, sock_peer=addr, peer_node=NODE,
                cert=dict(san=True, ip=[T.ip_bytes(addr).hex()], dns=[NAME], uri=[NODE]),
                config_file=opts, config_file_form=form)


def config_file_unit(chk):
    ''' Config.from_file alone: every file content x form, real loader || tls.loadcfg, and the monitor
    "every option the file gives is the option in force" '''
    cases = [(opts, form) for opts in file_contents() for form in ('section', 'with-others')]
    cases += [({}, 'no-section'), ({}, 'empty'), ({'require_tls': False}, 'no-section')]
    reqs = [{'op': 'tls.loadcfg', 'passive': False,
             'cfg_file': dict(opts) if form in ('section', 'with-others') else {}} for (opts, form) in cases]
    for (opts, form), ans in zip(cases, chk.driver(reqs)):
        cfg = T.config_from_file(opts, form)
        got = {k: getattr(cfg, k) for k in T.POLICY_OPTIONS}
        replay = {'config_file': opts, 'form': form, 'text': T.config_file_text(opts, form), 'loaded': got}
        chk.case(replay, nontrivial=True)
        chk.count('config-file:%s' % form)
        m = ans.get('cfg', {})
        model = dict(tls_enable=m.get('tls_enable'), require_tls=m.get('require_tls'),
                     require_host_authn=m.get('require_host'), require_node_authn=m.get('require_node'))
        if got != model:
            chk.corr_break('Config.from_file differs from the model (loadFile): loaded %s, model %s'
                           % (json.dumps(got), json.dumps(model)), replay)
        else:
            chk.cov['traces_validated_against_impl'] += 1
        check_loaded(chk, opts, form, got, replay)


def check_loaded(chk, opts, form, got, replay):
    says = file_says(opts, form)
    for k in T.POLICY_OPTIONS:
        if got[k] != says[k] or type(got[k]) is not type(says[k]):
            chk.violation('C15:config-file-option-not-honoured-%s' % k,
                          'configuration file says %s = %r, Config.from_file leaves %r: the node does not run the configured requirement'
                          % (k, says[k], got[k]), replay)


# ------------------------------------------------------------------------------------------ model request / canonical forms
def model_request(sc, native, quirks=None):
    cert = sc.get('cert')
    if cert is None:
        cj = None
    elif not cert.get('san', True):
        cj = {'san': None}
    else:
        cj = {'san': [['ip', h] for h in cert.get('ip', [])] + [['dns', d] for d in cert.get('dns', [])] +
              [['uri', u] for u in cert.get('uri', [])] + [['other'] for _ in cert.get('other', [])]}
    req = {'op': 'tls.negotiate',
            'env': {'peer_flags': sc['peer_flags'], 'handshake': HS_MODEL[sc['handshake']], 'pipelined': bool(sc.get('pipelined')),
                    'native': bool(native)},
            'conn': {'peer_name': sc['peer_name'], 'sock_addr': sc['sock_peer'], 'sock_octets': T.ip_bytes(sc['sock_peer']).hex(),
                     'node': sc['peer_node'], 'cert': cj}}
    if 'config_file' in sc:
        # the model reads the same file content (loadFile); forms without a tcpcl section carry no option
        req['cfg_file'] = dict(sc['config_file']) if sc.get('config_file_form', 'section') in ('section', 'with-others') else {}
        req['passive'] = sc['passive']
    else:
        req['cfg'] = {'passive': sc['passive'], 'tls_enable': bool(sc['tls_enable']), 'require_tls': sc['require_tls'],
                      'require_host': bool(sc['require_host']), 'require_node': bool(sc['require_node'])}
    if quirks is not None:
        req['quirks'] = quirks
    return req


def _msg(m):
    if m['k'] == 'contact':
        return 'contact:%d' % m['flags'] if m['flags'] in (0, 1) else 'contact:0x%02x' % m['flags']
    if m['k'] == 'sess_term':
        return 'sess_term:%d' % m['reason'] + ('' if m['flags'] == 0 else '/flags%d' % m['flags'])
    return m['k']


def _esc(name):
    if name in ('ConnectionResetError', 'TimeoutError', 'BrokenPipeError', 'OSError'):
        return 'OSError'
    return name


def _authn(params, key, ref):
    if key not in params:
        return 'absent'
    v = params[key]
    if v is False:
        return 'mismatch'
    return 'matched' if str(v) == str(ref) else 'other:%r' % (v,)


def canon_impl(sc, obs):
    p = obs['params']
    params = None
    if 'established' in obs['states']:
        params = {'peer_dns': 'peer_dnsid' in p,
                  'ip': _authn(p, 'authn_ipaddrid', ipaddress.ip_address(sc['sock_peer'])),
                  'dns': _authn(p, 'authn_dnsid', sc['peer_name']),
                  'node': _authn(p, 'authn_nodeid', sc['peer_node'])}
    return {'clear': [_msg(m) for m in obs['clear']], 'secured': [_msg(m) for m in obs['secured']],
            'state': obs['state'], 'closed': obs['closed'], 'is_secure': obs['is_secure'],
            'attempted': obs['tls_attempted'], 'escaped': [_esc(e) for e in obs['escaped']], 'params': params}


CMP_KEYS = ('clear', 'secured', 'state', 'closed', 'is_secure', 'attempted', 'escaped', 'params')


# ------------------------------------------------------------------------------------------ monitors (property text)
def cert_facts(sc):
    ''' What the certificate presents and what the peer must be, straight from the scenario. '''
    cert = sc.get('cert') or {}
    has_san = bool(sc.get('cert')) and cert.get('san', True)
    ips = set(cert.get('ip', [])) if has_san else set()
    dns = set(cert.get('dns', [])) if has_san else set()
    uris = set(cert.get('uri', [])) if has_san else set()
    addr = T.ip_bytes(sc['sock_peer']).hex()
    # the DNS name by which the peer was reached: only the connecting side has one, and only when it
    # did not dial a literal address
    name = None
    if not sc['passive'] and sc['peer_name'] != sc['sock_peer']:
        name = sc['peer_name']
    contradictions = []
    if ips and addr not in ips:
        contradictions.append('address')
    if name is not None and dns and name not in dns:
        contradictions.append('dns-name')
    if uris and sc['peer_node'] not in uris:
        contradictions.append('node-id')
    return dict(contradictions=contradictions,
                host_ok=(addr in ips) or (name is not None and name in dns),
                node_ok=sc['peer_node'] in uris,
                ips=ips, dns=dns, uris=uris, addr=addr, name=name)


def monitors(chk, sc, obs, replay):
    ''' independent predicates over the implementation's observable behaviour '''
    hits = []

    def hit(sig, what):
        hits.append(sig)
        chk.violation(sig, what, replay)

    require = sc['require_tls']
    our = [m for m in obs['clear'] if m['k'] == 'contact']
    this_offers = bool(our[0]['flags'] & 1) if our else bool(sc['tls_enable'])
    both = this_offers and bool(sc['peer_flags'] & 1)
    acceptable = require is None or require == both
    init_clear = any(m['k'] == 'sess_init' for m in obs['clear'])
    init_sec = any(m['k'] == 'sess_init' for m in obs['secured'])
    established = 'established' in obs['states']
    proceeds = init_clear or init_sec or established
    if our and this_offers != bool(sc['tls_enable']):
        hit('C15:contact-header-offer-differs-from-config', 'CAN_TLS in our contact header is not tls_enable')
    # --- TLS is attempted exactly when both contact headers offer it (and that is acceptable)
    if obs['tls_attempted'] and not both:
        hit('C15:tls-attempted-without-both-offering', 'handshake started although a contact header lacks CAN_TLS')
    if obs['tls_attempted'] and not acceptable:
        hit('C15:tls-attempted-against-policy', 'handshake started although require_tls forbids TLS')
    if both and acceptable and not obs['tls_attempted']:
        hit('C15:tls-not-attempted-though-both-offer', 'both contact headers offer TLS, policy accepts it, no handshake')
    # --- a node that requires TLS never proceeds in the clear; one that forbids it never proceeds secured
    if require is True and (init_clear or (established and not obs['is_secure'])):
        hit('C15:clear-despite-require-tls', 'require_tls=True yet SESS_INIT sent / session established without TLS')
    if require is False and (obs['is_secure'] or obs['secured'] or obs['tls_attempted']):
        hit('C15:secured-despite-forbid', 'require_tls=False yet TLS was started / used')
    if proceeds and not acceptable:
        hit('C15:proceeds-against-tls-policy', 'SESS_INIT sent or session established although the negotiated TLS use violates require_tls')
    if proceeds and (init_clear and both or init_sec and not both or established and obs['is_secure'] != both):
        hit('C15:tls-use-differs-from-negotiation', 'session negotiation went on with a TLS use other than the AND of the two CAN_TLS flags')
    if init_sec and sc['handshake'] not in ('ok',):
        hit('C15:sess-init-after-failed-handshake', 'SESS_INIT sent although the handshake failed')
    if obs['closed'] and established:
        hit('C15:established-and-closed', 'session established on a closed connection')
    # --- under TLS: established only if nothing contradicts and the required identifiers match
    f = cert_facts(sc)
    # a decision is due when the peer's SESS_INIT was delivered over the TLS socket (a SESS_INIT that came in the
    # clear ahead of the handshake need not be answered; acting on it is flagged separately)
    tls_session = obs['is_secure'] and not sc.get('pipelined')
    auth_ok = not f['contradictions'] and (not sc['require_host'] or f['host_ok']) and (not sc['require_node'] or f['node_ok'])
    if established and obs['is_secure']:
        if f['contradictions']:
            hit('C15:established-with-contradicting-id', 'established although the certificate contradicts: %s' % ','.join(f['contradictions']))
        if sc['require_host'] and not f['host_ok']:
            hit('C15:established-without-required-host-authn',
                'require_host_authn yet neither the peer address nor its DNS name is among the certificate identifiers')
        if sc['require_node'] and not f['node_ok']:
            hit('C15:established-without-required-node-authn', 'require_node_authn yet the peer node ID is not a URI of the certificate')
        if sc.get('pipelined'):
            hit('C15:clear-sess-init-accepted-under-tls',
                'the SESS_INIT on which the session was established had been received in the clear, before the TLS handshake')
    # --- otherwise the endpoint terminates with contact-failure
    terms = [m for m in obs['secured'] + obs['clear'] if m['k'] == 'sess_term']
    for m in terms:
        if m['reason'] != T.CONTACT_FAILURE or m['flags'] != 0:
            hit('C15:wrong-termination', 'SESS_TERM reason %d flags %d instead of contact failure' % (m['reason'], m['flags']))
    if tls_session and not auth_ok and not obs['escaped']:
        if established or not terms or obs['state'] != 'ending':
            if not established:
                hit('C15:no-contact-failure-termination', 'authentication policy not met, yet no SESS_TERM(contact failure)')
    if terms and auth_ok and tls_session:
        chk.count('over-rejection')          # not demanded by the property; recorded
        chk.notes.append('policy met but terminated: %s' % json.dumps(sc, default=str)[:300]) if len(chk.notes) < 5 else None
    if terms and not obs['is_secure']:
        hit('C15:contact-failure-without-tls', 'SESS_TERM(contact failure) sent on a session without TLS')
    # --- what get_session_parameters() claims
    p = obs['params']
    if not obs['is_secure'] and any(k.startswith('authn_') for k in p):
        hit('C15:authn-reported-without-tls', 'authn_* reported on a session without TLS')
    if obs['is_secure'] and established:
        if p.get('authn_ipaddrid') not in (None, False) and f['addr'] not in f['ips']:
            hit('C15:reported-authn-not-in-certificate', 'authn_ipaddrid reported but the address is not in the certificate')
        if p.get('authn_dnsid') not in (None, False) and p.get('authn_dnsid') not in f['dns']:
            hit('C15:reported-authn-not-in-certificate', 'authn_dnsid reported but the name is not in the certificate')
        if p.get('authn_nodeid') not in (None, False) and p.get('authn_nodeid') not in f['uris']:
            hit('C15:reported-authn-not-in-certificate', 'authn_nodeid reported but the node ID is not in the certificate')
    # --- the endpoint decides: no exception leaves the receive callback
    for e in obs['escaped']:
        if obs['closed']:
            ctx = 'after-close'
        elif obs['tls_attempted'] and not obs['is_secure']:
            ctx = 'in-handshake'
        else:
            ctx = 'on-sess-init'
        what = {'AttributeError-on-sess-init': 'AttributeError in merge_session_params (regression of D27: ssl.match_hostname does not exist in Python >= 3.12?)',
                'TypeError-on-sess-init': 'peer presented no certificate: load_der_x509_certificate(None) raises instead of treating every identifier as absent',
                'AttributeError-after-close': 'recv_raw goes on with buffered octets after close(): SESS_INIT handled on a torn-down connection',
                }.get('%s-%s' % (e, ctx), 'exception leaves the receive callback; the endpoint neither establishes, terminates nor closes')
        hit('C15:escape-%s-%s' % (e, ctx), what)
    return hits


# ------------------------------------------------------------------------------------------ running
class Batch(object):
    def __init__(self, chk):
        self.chk = chk
        self.native = T.native_available()
        self.recs = []

    def add(self, sc, tag, probe=False):
        obs = T.run_scenario(sc, probe_transfer=probe)
        self.recs.append((sc, tag, obs))

    def flush(self):
        chk = self.chk
        if not self.recs:
            return
        answers = chk.driver([model_request(sc, self.native) for (sc, _t, _o) in self.recs])
        broken = []
        for (sc, tag, obs), ans in zip(self.recs, answers):
            replay = {'scenario': sc, 'observed': obs, 'tag': tag}
            impl = canon_impl(sc, obs)
            model = {k: ans.get(k) for k in CMP_KEYS}
            chk.case({'sc': sc}, nontrivial=True,
                     sample=(tag == 'session' and obs['state'] == 'established' and obs['is_secure']))
            chk.count('tier-part:%s' % tag)
            chk.count('contact:%s' % ans.get('contact'))
            chk.count('sess:%s' % ans.get('sess'))
            chk.count('side:%s' % ('passive' if sc['passive'] else 'active'))
            if 'error' in ans:
                chk.corr_break('model driver error: %s' % ans['error'], replay)
            elif impl != model:
                broken.append((sc, impl, model, dict(replay, model=ans)))
                chk.count('corr-break')
            else:
                chk.cov['traces_validated_against_impl'] += 1
            intended = sc.get('intended')
            if intended is not None and 'peer' in ans and intended['cert_present']:
                if ans['peer'] != intended:
                    chk.corr_break('certificate -> IdResult abstraction differs from the intended row: %s vs %s'
                                   % (json.dumps(ans['peer']), json.dumps(intended)), replay)
            if 'config_file' in sc:
                check_loaded(chk, sc['config_file'], sc.get('config_file_form', 'section'), obs['loaded_cfg'], replay)
            if obs.get('transfer_accepted') and obs['state'] == 'ending':
                chk.count('transfer-accepted-after-contact-failure')
            monitors(chk, sc, obs, replay)
        # name a regression: does the implementation behave like the model with one former defect switched on?
        for (sc, impl, model, replay) in broken[:40]:
            names = list(QUIRK_NAMES)
            alts = chk.driver([model_request(sc, self.native, quirks={q: True}) for q in names])
            like = [q for q, a in zip(names, alts) if {k: a.get(k) for k in CMP_KEYS} == impl]
            diff = {k: {'impl': impl[k], 'model': model[k]} for k in CMP_KEYS if impl[k] != model[k]}
            what = 'negotiation outcome differs from the model: %s' % json.dumps(diff)
            if like:
                what += ' -- behaves like the former defect: ' + '; '.join(QUIRK_NAMES[q] for q in like)
                chk.count('regression-like:%s' % like[0])
            chk.corr_break(what, replay)
        for (sc, impl, model, replay) in broken[40:]:
            chk.corr_break('negotiation outcome differs from the model', replay)
        self.recs = []


def match_id_unit(chk, n):
    ''' match_id alone, on real certificate objects with free-form SAN lists, against `tls.match` '''
    rng = chk.rng
    log = logging.getLogger('verif.c15')
    pool = {'ip': [T.ip_bytes(a).hex() for a in list(ADDR.values()) + FOREIGN_IP] + FOREIGN_NET,
            'dns': [NAME] + FOREIGN_DNS, 'uri': [NODE] + FOREIGN_URI}
    types = {'ip': x509.IPAddress, 'dns': x509.DNSName, 'uri': x509.UniformResourceIdentifier}
    reqs, impl = [], []
    for _ in range(n):
        r = rng.random()
        lists = {k: [rng.choice(pool[k]) for _ in range(rng.choice([0, 0, 1, 2, 3, 8]))] for k in pool}
        spec = dict(san=r >= 0.1, other=['x@example.org'] * rng.randint(0, 2), order=rng.randint(0, 1), **lists)
        cert = x509.load_der_x509_certificate(T.make_cert(spec))
        kind = rng.choice(['ip', 'dns', 'uri'])
        ref = rng.choice(pool[kind] + ([None] if kind == 'dns' else []))
        pyref = ref
        if kind == 'ip':
            pyref = T.ip_obj(bytes.fromhex(ref))
        got = session.match_id(pyref, cert, types[kind], log, kind)
        res = 'absent' if got is None else ('mismatch' if got is False else ('matched' if got == pyref else 'other'))
        san = None if not spec['san'] else ([['ip', h] for h in lists['ip']] + [['dns', d] for d in lists['dns']] +
                                            [['uri', u] for u in lists['uri']] + [['other']] * len(spec['other']))
        reqs.append({'op': 'tls.match', 'kind': kind, 'ref': ref, 'san': san})
        impl.append(res)
        # independent oracle (property text): absent = nothing of the kind presented; matched = reference among them
        vals = lists[kind] if spec['san'] else []
        want = 'absent' if not vals else ('matched' if ref in vals else 'mismatch')
        if res != want:
            chk.violation('C15:match-id-wrong', 'match_id result %s, expected %s' % (res, want), {'spec': spec, 'kind': kind, 'ref': ref})
        chk.count('match_id:%s:%s' % (kind, res))
    for req, res, ans in zip(reqs, impl, chk.driver(reqs)):
        chk.case(req, nontrivial=True)
        if ans.get('result') != res:
            chk.corr_break('match_id differs from the model: impl %s model %s' % (res, ans.get('result')), req)
        else:
            chk.cov['traces_validated_against_impl'] += 1


# witnesses of the six former defects (same constants as the regression `example`s of Props/C15.lean), replayed on the
# implementation on every run; the monitors decide
WITNESSES = [
    ('D13-passive-dns-only', dict(passive=True, tls_enable=True, require_tls=True, require_host=True, require_node=False,
                                  peer_flags=1, handshake='ok', pipelined=False, peer_name='192.0.2.1', sock_peer='192.0.2.1',
                                  peer_node='dtn://peer/', cert=dict(san=True, dns=['evil.example.net']))),
    ('D13-active-literal-dns-only', dict(passive=False, tls_enable=True, require_tls=True, require_host=True, require_node=False,
                                         peer_flags=1, handshake='ok', pipelined=False, peer_name='192.0.2.1', sock_peer='192.0.2.1',
                                         peer_node='dtn://peer/', cert=dict(san=True, dns=['evil.example.net']))),
    ('D27-all-matching', dict(passive=False, tls_enable=True, require_tls=True, require_host=True, require_node=True,
                              peer_flags=1, handshake='ok', pipelined=False, peer_name='peer.example.org', sock_peer='192.0.2.1',
                              peer_node='dtn://peer/', cert=dict(san=True, ip=['c0000201'], dns=['peer.example.org'], uri=['dtn://peer/']))),
    ('no-peer-certificate', dict(passive=True, tls_enable=True, require_tls=None, require_host=False, require_node=False,
                                 peer_flags=1, handshake='ok', pipelined=False, peer_name='192.0.2.1', sock_peer='192.0.2.1',
                                 peer_node='dtn://peer/', cert=None)),
    ('plaintext-sess-init', dict(passive=True, tls_enable=True, require_tls=True, require_host=False, require_node=False,
                                 peer_flags=1, handshake='ok', pipelined=True, peer_name='192.0.2.1', sock_peer='192.0.2.1',
                                 peer_node='dtn://peer/', cert=dict(san=True, ip=['c0000201']))),
    ('handshake-reset', dict(passive=False, tls_enable=True, require_tls=None, require_host=False, require_node=False,
                             peer_flags=1, handshake='reset', pipelined=False, peer_name='192.0.2.1', sock_peer='192.0.2.1',
                             peer_node='dtn://peer/', cert=dict(san=True, ip=['c0000201']))),
]


def config_defaults(chk):
    ''' defaults of tcpcl.config.Config the property speaks about (not in Generated/Facts.lean) '''
    from tcpcl.config import Config
    c = Config()
    got = dict(tls_enable=c.tls_enable, require_tls=c.require_tls, require_host_authn=c.require_host_authn,
               require_node_authn=c.require_node_authn)
    want = dict(tls_enable=True, require_tls=None, require_host_authn=False, require_node_authn=False)
    if got != want:
        chk.corr_break('Config defaults changed: %s' % json.dumps(got), got)


def one_pass(chk):
    rng = chk.rng
    thorough = chk.tier != 'quick'
    b = Batch(chk)
    for name, sc in WITNESSES:
        b.add(dict(sc), 'witness:' + name, probe=True)
    for row in contact_rows():
        for rh, rn in (((False, False), (True, True)) if not thorough else ((False, False), (False, True), (True, False), (True, True))):
            b.add(concretise(dict(row, require_host=rh, require_node=rn), rng), 'contact')
    b.flush()
    # the configured requirement as a configuration file gives it: every file content through the real Config.from_file
    for opts in file_contents():
        for passive in (False, True):
            for flags in (0, 1):
                b.add(file_scenario(opts, 'section', passive, flags), 'config-file')
    for form in ('with-others', 'no-section', 'empty'):
        for opts in ({'require_tls': False}, {'tls_enable': False}, {'require_tls': True, 'require_host_authn': True}, {}):
            b.add(file_scenario(opts, form, True, 1), 'config-file')
    if thorough:
        for opts in file_contents():
            for hs in ('sslerror', 'reset'):
                b.add(file_scenario(opts, 'with-others', bool(len(opts) % 2), 1, handshake=hs), 'config-file')
    b.flush()
    for row in session_rows():
        b.add(concretise(row, rng), 'session', probe=True)
    b.flush()
    if thorough:
        for row in session_rows():
            for _ in range(24):
                b.add(concretise(row, rng, rich=True), 'session-rich')
            if len(b.recs) > 4000:
                b.flush()
        b.flush()
        for row in contact_rows():
            for flags in (2, 3, 0x80, 0xfe, 0xff):
                for hs in ('certerror', 'eof'):
                    b.add(concretise(dict(row, peer_flags=flags, handshake=hs if row['handshake'] == 'sslerror' else row['handshake']), rng, rich=True), 'contact-rich')
        b.flush()
    for _ in range(300 if not thorough else 20000):
        b.add(free_scenario(rng), 'free')
        if len(b.recs) > 4000:
            b.flush()
    b.flush()


def run(chk):
    chk.prove('DtnVerif.Props.C15')
    chk.cov['rule'] = ('full abstract decision table (config x contact flags x handshake x pipelining; for TLS sessions: certificate none / '
                       'no SAN / {absent,matched,mismatch}^3 x DNS name known) on the real ContactHandler with a fake ssl context and real DER '
                       'certificates || tls.negotiate; match_id on random SAN lists || tls.match; property monitors on every case; '
                       'witnesses of the six repaired defects replayed')
    chk.assumptions += [
        'TLS handshake, chain validation and the ssl module are parameters: a fake ssl context scripts the handshake result and returns the generated certificate from getpeercert(True)',
        'ipaddress.ip_address parsing of getpeername()[0] is not modelled (the model receives the packed address)',
        'configuration files are read through harness/stubs/yaml.py (PyYAML is not installed): the JSON-compatible subset of YAML; option values have their declared types',
        'peer names are non-empty; node IDs are valid UTF-8; the OtherName (NODE-ID as otherName) branch of match_id is not reachable from merge_session_params and not exercised',
    ]
    config_defaults(chk)
    config_file_unit(chk)
    one_pass(chk)
    match_id_unit(chk, 400 if chk.tier == 'quick' else 20000)
    n = chk.cov['distribution'].get('transfer-accepted-after-contact-failure', 0)
    if n:
        chk.notes.append('%d cases: after SESS_TERM(contact failure) the endpoint still accepted a new transfer from the unauthenticated peer '
                         '(_in_sess stays true); recorded, not counted as a C15 violation' % n)


def replay(chk, path):
    obj = json.load(open(path))
    r = obj.get('replay', obj)
    if 'scenario' not in r:
        # Config.from_file alone
        cfg = T.config_from_file(r['config_file'], r.get('form', 'section'))
        got = {k: getattr(cfg, k) for k in T.POLICY_OPTIONS}
        print('file     :', r.get('text'))
        print('recorded :', json.dumps(r.get('loaded')))
        print('now      :', json.dumps(got))
        before = len(chk.violations)
        check_loaded(chk, r['config_file'], r.get('form', 'section'), got, r)
        bad = len(chk.violations) > before
        print('REPRODUCED' if bad else 'not reproduced')
        return 1 if bad else 0
    sc = r['scenario']
    obs = T.run_scenario(sc, probe_transfer=True)
    print('scenario :', json.dumps(sc, default=str))
    print('recorded :', json.dumps(canon_impl(sc, r['observed'])) if 'observed' in r else None)
    print('now      :', json.dumps(canon_impl(sc, obs)))
    hits = monitors(chk, sc, obs, r)
    if 'config_file' in sc:
        before = len(chk.violations)
        check_loaded(chk, sc['config_file'], sc.get('config_file_form', 'section'), obs['loaded_cfg'], r)
        hits += [v['signature'] for v in chk.violations[before:]]
    print('monitors :', hits)
    want = obj.get('signature')
    bad = (want in hits) if want else bool(hits)
    print('REPRODUCED' if bad else 'not reproduced')
    return 1 if bad else 0
