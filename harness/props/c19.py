''' C19 — status reports are sent exactly when requested and say what happened.
proof: DtnVerif.Props.C19; correspondence: every report-flag set x report-to value x routing
outcome through the real Agent against the Lean model; monitors written against the property
text on the administrative-record bundles captured at the convergence layer. '''
import json

import agentlib as A

RX = [(r'dtn://node/.*', 'deliver'), (r'dtn://far/.*', 'forward'), (r'dtn://frag/.*', 'forward'),
      (r'dtn://lost/.*', 'forward'), (r'dtn://tiny/.*', 'forward'), (r'dtn://del/.*', 'delete')]
FRAG_MTU = 150
TX = [(r'dtn://far/.*', None), (r'dtn://frag/.*', FRAG_MTU), (r'dtn://tiny/.*', 40), (r'dtn://rpt/.*', None),
      (r'dtn://node/.*', None)]
OUTCOMES = {'deliver': '//node/app', 'forward': '//far/x', 'fwdfrag': '//frag/x', 'delete': '//del/x',
            'noroute': '//nowhere/x', 'fwdnotx': '//lost/x', 'fwdunsend': '//tiny/x', 'secfail': '//node/sec'}
LATE = {'fwdlate': '//lost/x',      # only inside histories: the route for dtn://lost/ has appeared by then
        'fraghold': '//node/app',   # a fragment at its destination, held for reassembly
        'fragfinal': '//node/app'}  # the fragment that completes the reassembly
SEC_REASONS = (12, 13, 14, 15, 16)


def bcb_unknown_context():
    ''' Block Confidentiality Block (type 12) over the payload, security context 99 which no node implements:
    RFC 9172 3.6 ASB sequence  targets [1], context id 99, flags 0, source, results [[]] '''
    btsd = A.enc([1]) + A.enc(99) + A.enc(0) + A.enc(A.eid_item(SRC)) + A.enc([[]])
    return A.mk_blk(12, 2, btsd, ct=2)

RPTS = ['null', 'none', 'eid']
RPT_EID = A.dtn('//rpt/')
SRC = A.dtn('//src/')
REQBITS = [A.F_DEL, A.F_DLV, A.F_FWD, A.F_RCV, A.F_TIME]
ANYREQ = A.F_DEL | A.F_DLV | A.F_FWD | A.F_RCV


def mk_case(flags, rpt, outcome, seq=0, ct=0, ts=None, extra=None, dwell=0, plen=None, bct=0):
    if plen is None:
        plen = 400 if outcome == 'fwdfrag' else 5
    p = A.mk_pri(A.dtn(dict(OUTCOMES, **LATE)[outcome]), SRC, ts or [A.T0 - 40, seq], flags=flags, ct=ct,
                 rpt=RPT_EID if rpt == 'eid' else 'none')
    extra = list(extra or [])
    params = {}
    if outcome == 'secfail':
        # security failure: delivery route, but the BCB step fails with "unknown security operation" (13);
        # the outcome of the BPSec step is a parameter of the model
        extra = [k for k in extra if k['n'] != 2] + [bcb_unknown_context()]
        params = {'bcb': 13}
    blocks = extra + [A.mk_blk(1, 1, bytes((i * 7 + 3) & 0xff for i in range(plen)), ct=bct)]
    b = {'pri': p, 'rpt_none': rpt == 'null', 'blocks': blocks}
    return {'flags': flags, 'rpt': rpt, 'outcome': outcome,
            'items': [{'b': b, 'now': A.T0 + 10, 'crc_ok': True, 'dwell': dwell, 'params': params}]}


def decode_report(d):
    ''' payload of an administrative-record bundle -> dict or None '''
    pay = [k for k in d.blocks if k['t'] == 1]
    if len(pay) != 1 or pay[0]['btsd'] is None:
        return None
    try:
        rec, end = A.dec(bytes.fromhex(pay[0]['btsd']))
    except A.CborError:
        return None
    if end != len(pay[0]['btsd']) // 2 or not isinstance(rec, list) or len(rec) != 2 or rec[0] != 1:
        return None
    body = rec[1]
    if not isinstance(body, list) or len(body) < 4 or not isinstance(body[0], list) or len(body[0]) != 4:
        return None
    names = ['receive', 'forward', 'deliver', 'delete']
    infos = {}
    for n, inf in zip(names, body[0]):
        if not isinstance(inf, list) or not inf or not isinstance(inf[0], bool) or len(inf) > 2:
            return None
        infos[n] = (inf[0], inf[1] if len(inf) == 2 else None)
    return {'infos': infos, 'reason': body[1], 'src': A.eid_from_item(body[2]), 'ts': list(body[3]),
            'extra': body[4:]}


def observe(case, obs):
    ''' what left the node, read off the CL octets '''
    delivered = sum(len(o['delivered']) for o in obs)
    whole, frags, reports = [], [], []
    for o in obs:
        for h in o['tx'] + o.get('frag_tx', []):
            d = A.dec_bundle(bytes.fromhex(h))
            if (d.pri['flags'] & A.F_ADMIN) and d.pri['src'] == A.NODE:
                reports.append(d)
            elif d.pri['flags'] & A.F_FRAG:
                frags.append(d)
            else:
                whole.append(d)
    return delivered, whole, frags, reports


def monitors(chk, case, obs):
    ''' every bundle of the case (most cases have one) against the property text, on its own window of
    observations (reception + the idle sources drained after it) '''
    delivered_subjects = []
    for ix, it in enumerate(case['items']):
        earlier = [(A.eid_text(j['b']['pri']['src']), list(j['b']['pri']['ts'])) for j in case['items'][:ix]]
        win = [o for o in obs if o['item'] == ix]
        _monitor_item(chk, case, it, win, it.get('outcome', case['outcome']), earlier, delivered_subjects)
        for o in win:
            for h in o['tx']:
                d = A.dec_bundle(bytes.fromhex(h))
                rec = decode_report(d) if (d.pri['flags'] & A.F_ADMIN and d.pri['src'] == A.NODE) else None
                if rec and rec['infos']['deliver'][0]:
                    delivered_subjects.append(A.report_subject(d))


def _monitor_item(chk, case, it, obs, outcome, earlier, earlier_delivered=()):
    p = it['b']['pri']
    flags = p['flags']
    rj = replay_obj(case)
    delivered, whole, frags, reports = observe(case, obs)
    left = bool(whole or frags)
    occurred = {'receive'}
    if delivered:
        occurred.add('deliver')
    if left:
        occurred.add('forward')
    route_act = dict((('//node/app', 'deliver'), ('//far/x', 'forward'), ('//frag/x', 'forward'),
                      ('//lost/x', 'forward'), ('//tiny/x', 'forward'), ('//del/x', 'delete'),
                      ('//node/sec', 'deliver'))).get(dict(OUTCOMES, **LATE)[outcome])
    if route_act == 'delete' or (route_act == 'forward' and not left):
        occurred.add('delete')
    if outcome == 'secfail' and not delivered:
        occurred.add('delete')      # deleted for the security failure, never delivered
    enabled = (not it['b'].get('rpt_none')) and p['rpt'] != 'none'
    expected = set(a for a in occurred if flags & A.REQ[a])
    chk.count('outcome:%s' % outcome)
    chk.count('reports:%d' % len(reports))
    tag = 'flags=%#x rpt=%s outcome=%s' % (flags, case['rpt'], outcome)
    if outcome == 'fraghold':
        # held for reassembly: nothing happened to the bundle yet (the code as it stands sends no report at all,
        # not even a requested reception report: counted, the property says "only if")
        for r in reports:
            rec = decode_report(r)
            if rec and rec['infos']['deliver'][0]:
                chk.violation('C19:fragment-held-for-reassembly-reported-delivered',
                              '%s: fragment offset %d of %d held for reassembly, yet a report asserts delivered: %s'
                              % (tag, p['foff'], p['tlen'], rec['infos']), rj)
            else:
                chk.violation('C19:report-content-wrong', '%s: report for a fragment held for reassembly: %s'
                              % (tag, rec and rec['infos']), rj)
        if not reports and flags & A.F_RCV:
            chk.count('fraghold:requested-reception-report-not-sent')
        return
    if outcome == 'fragfinal':
        said = [r for r in reports if (decode_report(r) or {'infos': {'deliver': (False, None)}})['infos']['deliver'][0]]
        if len(said) > 1 or (said and (A.eid_text(p['src']), list(p['ts'])) in earlier_delivered):
            chk.violation('C19:subject-reported-delivered-twice',
                          '%s: %d reports assert delivery of the reassembled bundle' % (tag, len(said)), rj)
    for r in reports:
        subj = A.report_subject(r)
        if subj in earlier and outcome != 'fragfinal':
            chk.violation('C19:second-report-for-earlier-bundle',
                          '%s: while this bundle was processed a status report about the EARLIER bundle %s was sent: %s'
                          % (tag, subj, decode_report(r) and decode_report(r)['infos']), rj)
    if whole and any((A.eid_text(w.pri['src']), list(w.pri['ts'])) in earlier for w in whole):
        chk.violation('C19:earlier-bundle-sent-late',
                      '%s: an earlier bundle of the history was handed to the CL in this bundle\'s turn' % tag, rj)
        return
    # a forwarded bundle is never reported deleted
    for r in reports:
        rec = decode_report(r)
        if rec and left and rec['infos']['delete'][0]:
            sig = 'C19:forward-fragmented-reported-deleted' if frags else 'C19:forwarded-reported-deleted'
            chk.violation(sig, '%s: the bundle left the node (%d whole, %d fragments) and the report asserts '
                          'deleted with reason %s' % (tag, len(whole), len(frags), rec['reason']), rj)
    if not enabled:
        if reports:
            if it['b'].get('rpt_none'):
                chk.violation('C19:absent-report-to-yet-reported',
                              '%s: report-to absent (null) but a report was sent to %s'
                              % (tag, A.eid_text(reports[0].pri['dest'])), rj)
            else:
                chk.violation('C19:unrequested-report', '%s: report-to dtn:none but a report was sent' % tag, rj)
        return
    if not expected:
        if reports:
            rec = decode_report(reports[0])
            sig = 'C19:unrequested-report'
            if rec and rec['infos']['forward'][0] and not left:
                sig = 'C19:not-forwarded-reported-forwarded'
            chk.violation(sig, '%s: nothing requested occurred (%s) yet a report was sent: %s'
                          % (tag, sorted(occurred), rec and rec['infos']), rj)
        return
    if len(reports) != 1:
        if not reports and outcome == 'noroute':
            # No matching route: _finish_bundle is never reached, so a requested reception report is not sent.
            # The property says "only if": not demanded. Counted, not a violation.
            chk.count('noroute:requested-reception-report-not-sent')
        else:
            chk.violation('C19:missing-or-duplicate-report', '%s: expected one report asserting %s, saw %d'
                          % (tag, sorted(expected), len(reports)), rj)
        return
    r = reports[0]
    rec = decode_report(r)
    problems = []
    if rec is None:
        problems.append('payload is not a status-report record')
    else:
        asserted = set(a for a, (st, _t) in rec['infos'].items() if st)
        if rec['src'] != p['src'] or rec['ts'] != p['ts']:
            problems.append('subject %s %s != received %s %s' % (rec['src'], rec['ts'], p['src'], p['ts']))
        if not asserted <= occurred:
            problems.append('asserts %s but only %s occurred' % (sorted(asserted - occurred), sorted(occurred)))
        if not asserted <= set(a for a in A.REQ if flags & A.REQ[a]):
            problems.append('asserts unrequested %s' % sorted(asserted))
        if (asserted & occurred) != expected:
            problems.append('asserted %s != requested-and-occurred %s' % (sorted(asserted), sorted(expected)))
        for a, (st, t) in rec['infos'].items():
            if st and bool(flags & A.F_TIME) != (t is not None):
                problems.append('time of %s present=%s, status-time flag=%s' % (a, t is not None, bool(flags & A.F_TIME)))
            if st and t is not None and not (it['now'] <= t <= it['now'] + it.get('dwell', 0)):
                problems.append('time of %s = %s outside [%s, %s]' % (a, t, it['now'], it['now'] + it.get('dwell', 0)))
            if not st and t is not None:
                problems.append('time on an unasserted entry')
        if rec['extra']:
            problems.append('unexpected fragment fields %s' % rec['extra'])
        if outcome == 'secfail' and rec['reason'] not in SEC_REASONS:
            problems.append('reason %s is not a security reason' % rec['reason'])
    if r.pri['dest'] != p['rpt']:
        problems.append('addressed to %s, report-to is %s' % (r.pri['dest'], p['rpt']))
    if not r.pri['flags'] & A.F_ADMIN:
        problems.append('not flagged as administrative record')
    if r.pri['flags'] & ANYREQ or r.pri['rpt'] != 'none':
        problems.append('the report itself requests reports (flags %#x report-to %s)' % (r.pri['flags'], r.pri['rpt']))
    if not all(r.crc_ok) or r.pri['ct'] == 0 or any(k['ct'] == 0 for k in r.blocks):
        problems.append('CRCs missing or invalid %s' % r.crc_ok)
    if r.pri['ver'] != 7 or [k['n'] for k in r.blocks] != [1]:
        problems.append('malformed report bundle')
    if problems:
        only_fwd = all(q.startswith('asserts [\'forward\']') or q.startswith('asserted') for q in problems)
        sig = 'C19:report-content-wrong'
        if rec and 'forward' in set(a for a, (st, _t) in rec['infos'].items() if st) and not left and only_fwd:
            sig = 'C19:not-forwarded-reported-forwarded'
        elif rec and rec['infos']['deliver'][0] and not delivered and 'delete' in occurred:
            sig = 'C19:deleted-bundle-reported-delivered'
        elif rec and p['ts'][0] == 0 and any(q.startswith('subject') for q in problems):
            sig = 'C19:create-time-zero-subject-rewritten'
        chk.violation(sig, '%s: %s' % (tag, '; '.join(problems)), rj)


def replay_obj(case):
    return {'flags': case['flags'], 'rpt': case['rpt'], 'outcome': case['outcome'], 'rx': RX, 'tx': TX,
            'items': [dict({'b': it['b'], 'now': it['now'], 'crc_ok': True, 'dwell': it.get('dwell', 0),
                            'params': it.get('params', {})},
                           **{k: it[k] for k in ('add_tx', 'outcome', 'reasm_b') if k in it}) for it in case['items']]}


def run_cases(chk, cases):
    runs = []
    for case in cases:
        fix = A.Fixture(RX, TX)
        for it in case['items']:
            it['data'] = A.enc_bundle(it['b'])
        events, obs = A.run_real(fix, case['items'])
        runs.append((case, fix, events, obs))
    answers = A.model_answers(chk, [(RX, fix, ev) for (_c, fix, ev, _o) in runs])
    for (case, fix, events, obs), ans in zip(runs, answers):
        diffs = A.compare(events, obs, ans)
        if diffs:
            chk.corr_break('flags=%#x rpt=%s outcome=%s: %s' % (case['flags'], case['rpt'], case['outcome'],
                                                               '; '.join(diffs[:3])), replay_obj(case))
        chk.cov['traces_validated_against_impl'] += 1
        monitors(chk, case, obs)
        chk.case({'f': case['flags'], 'r': case['rpt'], 'o': case['outcome'],
                  'x': json.dumps([it['b'] for it in case['items']], sort_keys=True), 'n': len(case['items'])},
                 nontrivial=True, sample=(case['flags'] == 0x74040 and case['rpt'] == 'eid'))


def mk_history(flags_a, flags_b, late_route=True, seq=60):
    ''' A is routed forward to a destination without transmit route (deleted, reported); then a route for it
    appears (peer_node_seen) and B for the same destination arrives; then C on an ordinary route. Every bundle
    gets its own report set, A is not touched again. '''
    a = mk_case(flags_a, 'eid', 'fwdnotx', seq=seq)
    b = mk_case(flags_b, 'eid', 'fwdnotx', seq=seq + 1)['items'][0]
    c = mk_case(flags_b, 'eid', 'forward', seq=seq + 2)['items'][0]
    b['now'] += 5
    c['now'] += 9
    b['outcome'] = 'fwdlate' if late_route else 'fwdnotx'
    c['outcome'] = 'forward'
    if late_route:
        b['add_tx'] = [(r'dtn://lost/.*', None)]
    a['items'] += [b, c]
    a['outcome'] = 'fwdnotx'
    return a


def mk_fragments(flags, nfrag=2, order=None, seq=90, rpt='eid'):
    ''' A bundle arriving at its destination (delivery route) as `nfrag` fragments, in the given order. A fragment
    held for reassembly is not delivered: no report may say so; the reassembled bundle is delivered once. '''
    total = 4 * nfrag
    order = list(order or range(nfrag))
    items = []
    for pos, k in enumerate(order):
        it = mk_case(flags | A.F_FRAG, rpt, 'deliver', seq=seq, plen=4)['items'][0]
        it['b']['pri']['foff'], it['b']['pri']['tlen'] = 4 * k, total
        it['b']['blocks'][-1]['btsd'] = bytes(range(4 * k, 4 * k + 4)).hex()
        it['now'] += 3 * pos
        it['outcome'] = 'fragfinal' if pos == nfrag - 1 else 'fraghold'
        items.append(it)
    # what Fragment._reassemble re-injects when the last fragment arrives: the first fragment's primary block
    # without the fragment flag (a parameter of the model, like the reassembly step itself)
    first = [it for it in items if it['b']['pri']['foff'] == 0][0]
    q = dict(first['b']['pri'])
    q['flags'] &= ~A.F_FRAG
    q['foff'] = q['tlen'] = 0
    items[-1]['reasm_b'] = {'pri': q, 'rpt_none': first['b'].get('rpt_none', False),
                            'blocks': [dict(k) for k in first['b']['blocks']]}
    return {'flags': flags, 'rpt': rpt, 'outcome': 'fraghold', 'items': items}


def d14_witness():
    ''' the former D14 witness (Props/C19.lean, d14Ctr) on the real agent: deletion and forwarding reports
    requested, routed forward, transmit route whose MTU makes the fragment step consume the bundle '''
    return mk_case(A.F_DEL | A.F_FWD, 'eid', 'fwdfrag', ts=[700, 0], plen=400)


def run(chk):
    chk.prove('DtnVerif.Props.C19')
    chk.cov['rule'] = ('all 2^5 report-flag sets x report-to {null, dtn:none, EID} x outcomes {deliver, forward, '
                       'forward with fragmentation (route MTU 150), forward where fragmentation is impossible (route MTU '
                       '40), delete route, no route, forward without TX route}; thorough adds CRC types, creation time 0, extra blocks, dwell time between '
                       'reception and forwarding; each case through the real Agent and the Lean model (all CL '
                       'octets compared), monitors on the decoded administrative records')
    chk.assumptions += [
        'security failure is exercised with a BCB naming a security context no node implements (no BPSec '
        'configuration needed); the outcome of the BPSec step is a parameter of the model; cryptographic failures '
        'are C12\'s subject',
        'fragment creation is a parameter of the model (none / consumed / raises / unsendable); the harness '
        'decides it independently of the implementation from the size of the model\'s own unfragmented output versus '
        'the route MTU (agentlib.model_answers); fragment octets themselves are C05\'s subject and are not compared',
        'CRC values of transmitted blocks are parameters of the model (taken from the captured octets); their '
        'validity is checked by the independent bitwise CRC-16/X.25 / CRC-32C monitor',
    ]
    cases = [{'flags': r['replay']['flags'], 'rpt': r['replay']['rpt'], 'outcome': r['replay']['outcome'],
              'items': r['replay']['items']} for r in A.corpus('C19')]
    cases.append(d14_witness())
    for fa in (A.F_DEL | A.F_FWD, ANYREQ | A.F_TIME, A.F_DEL):
        for fb in (A.F_FWD | A.F_DEL, ANYREQ, 0):
            for late in (True, False):
                cases.append(mk_history(fa, fb, late))
    for fl in (A.F_DLV, A.F_DLV | A.F_RCV | A.F_TIME, ANYREQ, A.F_RCV, 0):
        cases.append(mk_fragments(fl, 2))
        cases.append(mk_fragments(fl, 2, order=[1, 0], seq=91))
        cases.append(mk_fragments(fl, 3, order=[2, 0, 1], seq=92))
    for bits in range(32):
        flags = sum(b for i, b in enumerate(REQBITS) if bits >> i & 1)
        for rpt in RPTS:
            for outcome in OUTCOMES:
                cases.append(mk_case(flags, rpt, outcome))
    if chk.tier != 'quick':
        rng = chk.rng
        for _ in range(6000):
            flags = sum(b for b in REQBITS if rng.random() < 0.5) | rng.choice([0, 0, A.F_NOFRAG])
            extra = []
            if rng.random() < 0.4:
                extra.append(A.mk_blk(10, 2, A.enc([rng.randrange(40), rng.randrange(9)]), ct=rng.choice([0, 1, 2])))
            if rng.random() < 0.3:
                extra.append(A.mk_blk(7, 3, A.enc(rng.randrange(1000))))
            if rng.random() < 0.3:
                extra.append(A.mk_blk(192, 5, bytes(rng.randrange(256) for _ in range(rng.randrange(6))),
                                      f=rng.choice([0, 1]), ct=rng.choice([0, 2])))
            ts = [0, rng.randrange(3)] if rng.random() < 0.1 else [A.T0 - rng.randrange(1, 90000), rng.randrange(3)]
            if ts[0] == 0 and not any(k['t'] == 7 for k in extra):
                extra.append(A.mk_blk(7, 3, A.enc(5)))
            rpt = rng.choice(RPTS + ['eid'])
            # (a CBOR null report-to under a primary CRC is rejected at the CRC gate: D20, C08's subject)
            cases.append(mk_case(flags, rpt, rng.choice(list(OUTCOMES)), ct=0 if rpt == 'null' else rng.choice([0, 1, 2]),
                                 ts=ts, extra=extra, dwell=rng.choice([0, 0, 3, 1000]),
                                 plen=rng.choice([None, None, 1, 160, 700]), bct=rng.choice([0, 1, 2])))
    for i in range(0, len(cases), 200):
        run_cases(chk, cases[i:i + 200])


def replay(chk, path):
    rec = json.load(open(path))
    r = rec.get('replay', rec)
    case = {'flags': r['flags'], 'rpt': r['rpt'], 'outcome': r['outcome'], 'items': r['items']}
    fix = A.Fixture(RX, TX)
    for it in case['items']:
        it['data'] = A.enc_bundle(it['b'])
    events, obs = A.run_real(fix, case['items'])
    delivered, whole, frags, reports = observe(case, obs)
    print('delivered=%d whole=%d fragments=%d reports=%d' % (delivered, len(whole), len(frags), len(reports)))
    for r_ in reports:
        print('report to %s: %s' % (A.eid_text(r_.pri['dest']), decode_report(r_)))
    monitors(chk, case, obs)
    for v in chk.violations:
        print('VIOLATION %s: %s' % (v['signature'], v['what']))
    return 1 if chk.violations else 0
