''' C18 — The D-Bus view of transfers is type-correct and consistent with reality. '''
import json

import facts
import tcpcl_scen as sc
import tcpcl_monitors as tm

MODULE = ['DtnVerif.Props.C18', 'DtnVerif.Props.C18Udpcl']


def udpcl_polling_cases(chk, sigtable):
    ''' UDPCL: peer-controlled values reaching the polling_received signal (signature xissq) '''
    import boot
    boot.boot()
    import ipaddress
    import udpcl.agent as ua
    import udpcl.config as uc
    from datetime import datetime, timezone
    cfg = uc.Config()
    cfg._bus_conn = None
    cfg.node_id = 'dtn://me/'
    bad = []
    ent = sigtable.get('udpcl.Agent.polling_received')
    cases = [
        ('plain', {3: 1000, 4: 'dtn://peer/'}),
        ('nodeid-int', {3: 1000, 4: 12345}),
        ('nodeid-bytes', {3: 1000, 4: b'\x01\x02'}),
        ('nodeid-missing', {3: 1000}),
        ('interval-huge', {3: 2 ** 40, 4: 'dtn://peer/'}),
        ('interval-negative', {3: -5, 4: 'dtn://peer/'}),
        ('interval-zero', {3: 0, 4: 'dtn://peer/'}),
        ('interval-minus-one', {3: -1, 4: 'dtn://peer/'}),
        ('interval-int32-max', {3: 2 ** 31 - 1, 4: 'dtn://peer/'}),
        ('interval-int32-max-plus-1', {3: 2 ** 31, 4: 'dtn://peer/'}),
        ('interval-int32-max-plus-2', {3: 2 ** 31 + 1, 4: 'dtn://peer/'}),
        ('interval-uint32-max', {3: 2 ** 32 - 1, 4: 'dtn://peer/'}),
        ('interval-float', {3: 1.5, 4: 'dtn://peer/'}),
        ('interval-text', {3: '1000', 4: 'dtn://peer/'}),
        ('interval-bytes', {3: b'\x01', 4: 'dtn://peer/'}),
        ('interval-list', {3: [1], 4: 'dtn://peer/'}),
        ('interval-null', {3: None, 4: 'dtn://peer/'}),
        ('interval-inf', {3: float('inf'), 4: 'dtn://peer/'}),
        ('interval-nan', {3: float('nan'), 4: 'dtn://peer/'}),
        ('interval-bool', {3: True, 4: 'dtn://peer/'}),
        ('nodeid-empty', {3: 1000, 4: ''}),
        ('nodeid-list', {3: 1000, 4: ['dtn://peer/']}),
    ]
    for name, extmap in cases:
        agent = ua.Agent(cfg, bus_kwargs=dict(conn=None, object_path='/verif/udpcl'))
        conv = ua.Conversation(family=2, peer_address=ipaddress.ip_address('192.0.2.9'), peer_port=4556,
                               local_address=ipaddress.ip_address('192.0.2.1'), local_port=4556)
        n0 = len(agent._verif_signals)
        esc = None
        try:
            agent._recv_ext_map(None, extmap, conv, datetime(2024, 1, 1, tzinfo=timezone.utc))
        except Exception as err:
            esc = type(err).__name__
        chk.case({'udpcl_polling': name}, sample=(name == 'nodeid-int'))
        if esc is not None:
            bad.append(('C18:udpcl-polling-escape-%s' % name, 'exception %s escapes the receive path for a peer-supplied extension map %r' % (esc, extmap),
                        {'extmap': repr(extmap)}))
        chk.count('udpcl:' + name)
        import tcpcl_sim as ts
        for (_p, sname, _s, args) in agent._verif_signals[n0:]:
            if sname != 'polling_received':
                continue
            cargs = [ts.canon_val(a) for a in args]
            parts = tm.split_sig(ent[1])
            if len(parts) != len(cargs) or not all(tm.conforms(a, p) for a, p in zip(cargs, parts)):
                bad.append(('C18:udpcl-polling-%s' % name, 'polling_received%r does not conform to "%s" (peer-controlled value forwarded unchecked)' % (cargs, ent[1]),
                            {'extmap': repr(extmap)}))
    return bad


def session_parameter_cases(chk, sigtable):
    ''' get_session_parameters() returns a{sv}: every value must be marshallable as a variant, whatever the
    peer's address family, node ID and announced values are. '''
    import tcpcl_sim as ts
    rng = chk.rng
    out = []
    ent = sigtable.get('tcpcl.ContactHandler.get_session_parameters')
    peers = [('192.0.2.1', 4556), ('2001:db8::1', 4556, 0, 0), ('::1', 4556, 0, 0), ('fe80::1%eth0', 4556, 0, 3), ('127.0.0.1', 1)]
    for peername in peers:
        for (node_b, ka_b) in (('dtn://b/', 0), ('', 30), ('ipn:5.0', 65535)):
            sim = ts.Sim({'keepalive': rng.choice([0, 7])}, {'node_id': node_b, 'keepalive': ka_b, 'seg_mru': rng.choice([1, 2 ** 64 - 1])})
            sim.a.sock.peername = peername
            sim.b.sock.peername = peername
            sim.establish(rng)
            chk.case({'session_parameters': True, 'peer': peername[0], 'node': node_b, 'keepalive': ka_b})
            chk.count('session-parameters')
            for ep in sim.eps():
                if ep.closed() or ep.h._state != 'established':
                    continue
                try:
                    val = ts.canon_val(dict(ep.h.get_session_parameters()))
                except Exception as err:
                    out.append(('C18:get_session_parameters-raises-%s' % type(err).__name__, 'get_session_parameters() raised %r with peer %s' % (err, peername[0]),
                                {'peer': list(peername), 'node': node_b}))
                    continue
                if ent and not tm.conforms(val, ent[2]):
                    badkeys = [k for k, v in val.get('dict', {}).items() if not tm.conforms(v, 'v')]
                    out.append(('C18:return-type-get_session_parameters',
                                'get_session_parameters() of %s with peer address %s returns values which cannot be marshalled as "%s": %s'
                                % (ep.name, peername[0], ent[2], {k: val['dict'][k] for k in badkeys}),
                                {'peer': list(peername), 'node': node_b, 'value': val}))
    return out


def file_method_cases(chk, sigtable):
    ''' the file-based twins of the transfer methods (send_bundle_file, recv_bundle_pop_file), is_secure and the
    tcpcl Agent's own methods and signals: same types, same queue semantics. The runs are recorded as plain
    send/pop events so that they are compared with the model too. '''
    import os
    import tempfile
    import tcpcl_sim as ts
    rng = chk.rng
    out, sims = [], []
    tmpd = tempfile.mkdtemp(prefix='verif_c18_')
    try:
        for case in range(6 if chk.tier == 'quick' else 60):
            sim = ts.Sim(sc.gen_cfg(rng), sc.gen_cfg(rng))
            for ep in sim.eps():
                ep.popped = {}
            sim.establish(rng)
            if sim.a.closed() or sim.b.closed():
                continue
            datas = [bytes(rng.getrandbits(8) for _ in range(rng.choice([0, 1, 17, 300]))) for _ in range(rng.choice([1, 2, 3]))]
            for i, d in enumerate(datas):
                path = os.path.join(tmpd, 'tx%d_%d' % (case, i))
                with open(path, 'wb') as f:
                    f.write(d)
                sim.a.call({'e': 'send', 'data': d.hex()}, lambda p=path: sim.a.h.send_bundle_file(p))
                sim._after(sim.a)
                ent = sigtable.get('tcpcl.ContactHandler.send_bundle_file')
                ret = sim.a.obs[-1].get('ret')
                if sim.a.obs[-1].get('raised') or (ent and (ret is None or not tm.conforms(ret, ent[2]))):
                    out.append(('C18:return-type-send_bundle_file', 'send_bundle_file returned %r (raised %s), declared "%s"' % (ret, sim.a.obs[-1].get('raised'), ent and ent[2]),
                                {'len': len(d)}))
            sim.run_quiescent(rng)
            sec = sim.a.h.is_secure()
            if not isinstance(sec, bool):
                out.append(('C18:return-type-is_secure', 'is_secure returned %r' % (sec,), {}))
            sim.query(sim.b, 'rxq')
            listed = (sim.b.obs[-1].get('ret') or {}).get('ss') or []
            got = []
            for t in listed:
                path = os.path.join(tmpd, 'rx%d_%s' % (case, t))

                def pop_file(t=t, path=path):
                    sim.b.h.recv_bundle_pop_file(str(t), path)
                    with open(path, 'rb') as f:
                        return f.read()
                sim.b.call({'e': 'pop', 'tid': int(t)}, pop_file)
                r = sim.b.obs[-1].get('ret')
                got.append(bytes.fromhex(r['b']) if r and 'b' in r else None)
                if got[-1] is not None:
                    sim.b.popped[int(t)] = got[-1]
                # the same id a second time must fail
                sim.b.call({'e': 'pop', 'tid': int(t)}, pop_file)
                if sim.b.obs[-1].get('raised') is None:
                    out.append(('C18:pop-twice', 'recv_bundle_pop_file returned transfer %s a second time' % t, {'tid': t}))
            if got != datas:
                out.append(('C18:pop-file-data-differs', 'bundles sent from files %s, popped into files %s' % ([len(d) for d in datas], [None if g is None else len(g) for g in got]),
                            {'sent': [d.hex() for d in datas]}))
            chk.case({'file_methods': True, 'lens': [len(d) for d in datas]})
            chk.count('file-methods')
            for b in tm.mon_types(sim, sigtable) + tm.mon_c18_queues(sim):
                out.append((b[0], b[1], sc.sim_replay(sim, {'a': datas, 'b': []}, {'flavour': 'file-methods'})))
            sims.append((sim, 'file methods %d' % case))
        sc.compare_with_model(chk, sims)
        # the agent object: connection_opened / connection_closed ('o'), get_connections ('ao')
        import tcpcl.agent as tagent
        from tcpcl_util import FakeSock
        import tcpcl_util as tu
        cfg = tu.make_config()
        ag = tagent.Agent(cfg, bus_kwargs=dict(conn=None, object_path='/verif/c18agent'))
        hs = [ag._bind_handler(config=cfg, sock=FakeSock('k%d' % i), toaddr=('192.0.2.1', 4556)) for i in range(3)]
        conns = ts.canon_val(list(ag.get_connections()))
        ent = sigtable.get('tcpclagent.Agent.get_connections')
        if ent and not (conns.get('ss') is not None and all(x.startswith('/') for x in conns['ss']) and len(conns['ss']) == 3):
            out.append(('C18:return-type-get_connections', 'get_connections returned %r, declared "%s"' % (conns, ent[2]), {}))
        hs[1].close()
        for (_p, name, sig, args) in ag._verif_signals:
            cv = [ts.canon_val(a) for a in args]
            if not (len(cv) == 1 and 's' in cv[0] and cv[0]['s'].startswith('/')):
                out.append(('C18:signal-type-%s' % name, 'agent signal %s%r does not conform to "%s"' % (name, cv, sig), {}))
        names = [n for (_p, n, _s, _a) in ag._verif_signals]
        if names.count('connection_opened') != 3 or names.count('connection_closed') != 1:
            out.append(('C18:agent-connection-signals', 'three contacts opened and one closed gave signals %s' % names, {}))
        chk.count('agent-methods')
    finally:
        import shutil
        shutil.rmtree(tmpd, ignore_errors=True)
    return out


def run(chk):
    chk.prove(MODULE)
    rng, tier = chk.rng, chk.tier
    sigtable = facts.collect()['dbus']
    n = 80 if tier == 'quick' else 1500
    chk.cov['rule'] = ('TCPCL: the C01/C09 scenario generator with D-Bus method calls (send, pop incl. unknown ids and double pops, queue/idle/state queries, terminate) '
                       'interleaved with protocol progress; every recorded signal argument list and return value is typed against the signature extracted from the '
                       'decorators; queue views are replayed against the announced signals. UDPCL: peer-controlled extension-map values reaching polling_received. '
                       'non-trivial = at least one signal with arguments checked')
    sims = []
    for i in range(n):
        flavour = rng.choice(['transfer', 'transfer', 'terminate', 'abort'])
        sim, sent, meta = sc.run_scenario(rng, flavour, tier, nqueries=rng.choice([2, 6, 10, 16]))
        nsig = sum(len(o['sigs']) for (_w, _e, o) in sim.log)
        chk.case({'cfg': [meta['cfg_a'], meta['cfg_b']], 'flavour': flavour, 'signals': nsig,
                  'h': hash(json.dumps(sim.a.events) + json.dumps(sim.b.events))}, nontrivial=nsig > 2, sample=(i < 2))
        for (_w, ev, o) in sim.log:
            for s in o['sigs']:
                chk.count('sig:' + s['sig'])
            if ev['e'] in ('pop', 'query'):
                chk.count('call:' + ev['e'])
        bad = tm.mon_types(sim, sigtable) + tm.mon_c18_queues(sim)
        if flavour == 'terminate' and meta['quiescent'] and meta['term'] and not meta['hard']:
            # nothing more can happen and termination was requested: every started transfer has its finished signal
            for (sig, what) in tm.mon_c09(sim, sent, meta['term'], meta['hard']):
                if sig in ('C09:started-transfer-not-completed', 'C09:finished-twice', 'C09:unstarted-not-reported', 'C09:send-queue-not-empty'):
                    bad.append((sig.replace('C09:', 'C18:at-end-'), what))
        sc.report(chk, 'C18', bad, sim, sent, meta)
        sims.append((sim, '%s %d' % (flavour, i)))
        if len(sims) >= 40:
            sc.compare_with_model(chk, sims)
            sims = []
    sc.compare_with_model(chk, sims)
    # an uncooperative peer (refusals, early/unknown acknowledgements, out-of-place messages) against one
    # endpoint: the D-Bus view must stay typed and consistent there too
    from props import c17
    advs = []
    msgs = dict(c17.adversarial_msgs())
    combos = [(st, nm) for st in ('two_tx', 'await_ack', 'mid_tx', 'mid_rx', 'established')
              for nm in ('refuse_own', 'refuse_unknown', 'ack_unknown', 'ack_own_end_early', 'seg_nostart_unknown', 'msg_reject') if nm in msgs]
    for passive in (False, True):
        for (st, nm) in combos:
            res = c17.run_case(chk, rng, passive, st, [(nm, msgs[nm])], cuts=None)
            if res is None:
                continue
            adv = res[0]
            chk.case({'adversary': True, 'passive': passive, 'state': st, 'msg': nm})
            chk.count('adversary:' + st)
            bad = tm.mon_types(adv.sim, sigtable) + tm.mon_c18_queues(adv.sim)
            for (sig, what) in bad:
                chk.violation(sig, what, {'passive': passive, 'state': st, 'msg': nm, 'x_cfg': adv.x.model_cfg(), 'x_events': adv.x.events})
            advs.append((adv, '%s %s %s' % ('passive' if passive else 'active', st, nm)))
    c17.compare(chk, advs)
    for (sig, what, rep) in file_method_cases(chk, sigtable):
        chk.violation(sig, what, rep)
    for (sig, what, rep) in session_parameter_cases(chk, sigtable):
        chk.violation(sig, what, rep)
    for (sig, what, rep) in udpcl_polling_cases(chk, sigtable):
        chk.violation(sig, what, rep)
    from props import c13
    for (sig, what, rep) in c13.rx_queue_cases(chk, chk.rng, chk.tier, 'C18'):
        chk.violation(sig, what, rep)
    for (sig, what, rep) in c13.tx_queue_cases(chk, chk.rng, chk.tier, 'C18'):
        chk.violation(sig, what, rep)
    for (sig, what, rep) in c13.dbus_view_cases(chk, chk.rng, chk.tier, 'C18'):
        chk.violation(sig, what, rep)
    chk.assumptions += ['conformance is to a transcription of dbus-python marshalling rules (the library is absent from the sandbox)',
                        'bp.cla adaptor upcalls are covered by the correspondence of the UDPCL/BTP-U checks (C13, C20)']


def replay(chk, path):
    print('replay: event lists in', path)
    return 0
