''' C12  A bundle with an unverifiable security block is never delivered.

proof      : DtnVerif.Props.C12 (receive-chain fragment, Model/SecChain.lean)
corr       : harness-made malformed / valid security blocks through the real receiving agent; the same
             bundle (independently decoded) + the observed per-target outcomes through `sec.chain`;
             compared: delivered?, deleted?, reason, remaining blocks, payload octets
regression : the kinds second-bib-bad-after-good (D15), missing-target / results-shorter / mixed-exception
             (D16), undecodable-asb (D22), valid-bib-no-parameters (D29) are the implementation-side twins of
             the four defects repaired in /repo; their signatures stay armed
monitors   : defective (by construction) => no application reached (probe step, order 25) AND marked
             deleted with a security reason 12..16 (AND reported when a deletion report is requested);
             non-defective => delivered, payload exact, accepted blocks removed iff acceptance configured
'''
import json
import cbor2

import seclib as S

KW_HEX = {}
KINDS_QUICK = 3
KINDS_THOROUGH = 30


def _to_cbor2(v):
    if isinstance(v, S.T):
        return bytes(v).decode('utf8')
    if isinstance(v, S.M):
        return {_to_cbor2(k): _to_cbor2(x) for k, x in v}
    if isinstance(v, list):
        return [_to_cbor2(x) for x in v]
    return v


def rewrite_asb(block, fn):
    ''' Decode the ASB of a crafted block, let `fn` edit its components, re-encode. '''
    a = S.IAsb(bytes.fromhex(block['btsd']))
    comp = dict(targets=list(a.targets), ctx_id=a.ctx_id, source=a.source,
                params=[(p[0], _to_cbor2(p[1])) for p in a.params] if a.flags & 1 else None,
                results=[[(r[0], _to_cbor2(r[1])) for r in rl] for rl in a.results])
    fn(comp)
    out = dict(block)
    out['btsd'] = S.build_asb(comp['targets'], comp['results'], ctx_id=comp['ctx_id'], source=comp['source'],
                              params=comp['params']).hex()
    return out


def flip_tag(value):
    msg = cbor2.loads(value)
    msg[3] = bytes([msg[3][0] ^ 1]) + msg[3][1:]
    return cbor2.dumps(msg)


class Case(object):
    def __init__(self, kind, blocks, defective, orc, rkeys='same', extract_bad=(), plain=(), d=None, payload=None):
        self.kind = kind
        self.blocks = blocks
        self.defective = defective
        self.orc = orc              # expected-by-construction outcomes [(sec, tgt, outcome)]
        self.rkeys = rkeys
        self.extract_bad = extract_bad
        self.plain = plain
        self.defect_id = d          # 'D15' | 'D16' | 'D22' | None : which known quirk this kind can exhibit
        self.payload = payload      # expected payload octets when delivered (hex), None = unchanged


def make_cases(chk, rng, ib, kmac, kenc, accept):
    ''' All malformation kinds for one base bundle. `ib` has payload block 1 and extension block 2. '''
    nums = [b['num'] for b in ib.blocks]
    n1 = max(nums) + 1
    n2 = n1 + 1
    iv = lambda: bytes(rng.getrandbits(8) for _ in range(12))  # noqa: E731
    ext = [b['num'] for b in ib.blocks if b['type'] != 1]
    pay = [b for b in ib.blocks if b['type'] == 1][0]
    sc = [[0, 1], [-1, 1]]
    bib = S.craft_bib(chk, ib, kmac, [1], n1, scope=sc)
    bcb, encblocks = S.craft_bcb(chk, ib, kenc, [1], n1, [iv()], scope=sc)
    plain = [(n1, 1, pay['btsd'])]
    cases = []

    def add(kind, secs, defective, orc, base=None, **kw):
        cases.append(Case(kind, S.insert_before_payload(base if base is not None else ib.blocks, secs), defective, orc, **kw))

    # --- pass cases
    add('none', [], False, [])
    add('valid-bib', [bib], False, [(n1, 1, 'ok')])
    add('valid-bcb', [bcb], False, [(n1, 1, 'ok')], base=encblocks, plain=plain,
        payload=pay['btsd'] if accept else None)
    if ext:
        bib2 = S.craft_bib(chk, ib, kmac, [1, ext[0]], n1, scope=sc)
        add('valid-bib-two-targets', [bib2], False, [(n1, 1, 'ok'), (n1, ext[0], 'ok')])
    # a BIB without the optional parameters field (RFC 9172 §3.6; the COSE context then uses its default AAD scope)
    add('valid-bib-no-parameters', [S.craft_bib(chk, ib, kmac, [1], n1, scope=None)], False, [(n1, 1, 'ok')], d='noparams')
    # --- key
    add('wrong-key', [bib], True, [(n1, 1, 'fail')], rkeys='wrong')
    add('missing-key', [bib], True, [(n1, 1, 'fail')], rkeys='missing')
    add('bcb-wrong-key', [bcb], True, [(n1, 1, 'fail')], base=encblocks, rkeys='wrong')
    add('bcb-missing-key', [bcb], True, [(n1, 1, 'fail')], base=encblocks, rkeys='missing')
    # --- altered content
    alt = [dict(b, btsd=(bytes([1 ^ (bytes.fromhex(b['btsd']) or b'\x00')[0]]) + bytes.fromhex(b['btsd'])[1:]).hex()) if b['type'] == 1 else b
           for b in ib.blocks]
    add('altered-content', [bib], True, [(n1, 1, 'fail')], base=alt)
    altc = [dict(b, btsd=(bytes([1 ^ bytes.fromhex(b['btsd'])[0]]) + bytes.fromhex(b['btsd'])[1:]).hex()) if b['type'] == 1 else b
            for b in encblocks]
    add('bcb-altered-ciphertext', [bcb], True, [(n1, 1, 'fail')], base=altc)
    add('altered-tag', [rewrite_asb(bib, lambda c: c['results'].__setitem__(0, [(17, flip_tag(c['results'][0][0][1]))]))],
        True, [(n1, 1, 'fail')])
    # --- structure
    add('unknown-context', [rewrite_asb(bib, lambda c: c.__setitem__('ctx_id', 7))], True, [(n1, 1, 'ok')])
    add('bcb-unknown-context', [rewrite_asb(bcb, lambda c: c.__setitem__('ctx_id', 99))], True, [(n1, 1, 'ok')], base=encblocks)
    add('missing-target', [rewrite_asb(bib, lambda c: c.__setitem__('targets', [n2 + 5]))], True, [], d='D16')
    add('bcb-missing-target', [rewrite_asb(bcb, lambda c: c.__setitem__('targets', [n2 + 5]))], True, [], base=encblocks, d='D16')
    add('dup-param-ids', [rewrite_asb(bib, lambda c: c['params'].append(c['params'][0]))], True, [(n1, 1, 'ok')])
    add('dup-result-ids', [rewrite_asb(bib, lambda c: c['results'][0].append(c['results'][0][0]))], True, [(n1, 1, 'ok')])
    add('result-count-0', [rewrite_asb(bib, lambda c: c.__setitem__('results', [[]]))], True, [(n1, 1, 'ok')])
    add('result-count-2', [rewrite_asb(bib, lambda c: c['results'][0].append((18, c['results'][0][0][1])))], True, [(n1, 1, 'ok')])
    add('results-shorter-than-targets', [rewrite_asb(bib, lambda c: c.__setitem__('results', []))], True, [], d='D16')
    add('undecodable-cose', [rewrite_asb(bib, lambda c: c['results'].__setitem__(0, [(17, b'\xff\x00\x9f')]))], True, [(n1, 1, 'fail')])
    add('bcb-undecodable-cose', [rewrite_asb(bcb, lambda c: c['results'].__setitem__(0, [(16, b'\x83\x40')]))], True,
        [(n1, 1, 'fail')], base=encblocks)
    add('cose-wrong-message-type', [rewrite_asb(bib, lambda c: c['results'].__setitem__(0, [(16, c['results'][0][0][1])]))], True, [(n1, 1, 'fail')])
    add('undecodable-asb', [dict(bib, btsd='ff0001')], True, [], d='D22')
    add('bcb-undecodable-asb', [dict(bcb, btsd='8101')], True, [], base=encblocks, d='D22')
    add('undecodable-additional-protected', [rewrite_asb(bib, lambda c: c['params'].append((3, b'\xff')))], True, [], d='D16',
        extract_bad=(n1,))
    # --- several blocks
    if ext:
        biba = S.craft_bib(chk, ib, kmac, [ext[0]], n1, scope=sc)
        bibb = rewrite_asb(S.craft_bib(chk, ib, kmac, [1], n2, scope=sc),
                           lambda c: c['results'].__setitem__(0, [(17, flip_tag(c['results'][0][0][1]))]))
        add('second-bib-bad-after-good', [biba, bibb], True, [(n1, ext[0], 'ok'), (n2, 1, 'fail')], d='D15')
        add('first-bib-bad-second-good', [rewrite_asb(S.craft_bib(chk, ib, kmac, [ext[0]], n1, scope=sc),
                                                      lambda c: c['results'].__setitem__(0, [(17, flip_tag(c['results'][0][0][1]))])),
                                          S.craft_bib(chk, ib, kmac, [1], n2, scope=sc)], True,
            [(n1, ext[0], 'fail'), (n2, 1, 'ok')])
        add('two-bibs-good', [biba, S.craft_bib(chk, ib, kmac, [1], n2, scope=sc)], False, [(n1, ext[0], 'ok'), (n2, 1, 'ok')], d='D15')
        add('mixed-exception-and-failure', [rewrite_asb(biba, lambda c: c.__setitem__('targets', [n2 + 7])), bibb], True,
            [(n2, 1, 'fail')], d='D16')
    # --- two BCBs: the first decrypts (and is removed on acceptance while the step iterates), the second must still be looked at
    if ext:
        e0 = ext[0]
        ca, bla = S.craft_bcb(chk, ib, kenc, [e0], n1, [iv()], scope=sc)
        cb, blab = S.craft_bcb(chk, ib, kenc, [1], n2, [iv()], scope=sc, blocks=bla)
        cz, blaz = S.craft_bcb(chk, ib, kenc, [1], n2, [iv()], scope=sc, blocks=bla, kid=b'zz')
        e0plain = [b for b in ib.blocks if b['num'] == e0][0]['btsd']
        pl2 = [(n1, e0, e0plain), (n2, 1, pay['btsd'])]
        add('two-bcbs-good', [ca, cb], False, [(n1, e0, 'ok'), (n2, 1, 'ok')], base=blab, plain=pl2,
            payload=pay['btsd'] if accept else None, d='D15')
        add('second-bcb-bad-after-good', [ca, cb], True, [(n1, e0, 'ok'), (n2, 1, 'fail')], base=S.alter_btsd(blab, 1), plain=pl2, d='D15')
        add('second-bcb-unknown-key-after-good', [ca, cz], True, [(n1, e0, 'ok'), (n2, 1, 'fail')], base=blaz, plain=pl2, d='D15')
        add('first-bcb-bad-second-good', [ca, cb], True, [(n1, e0, 'fail'), (n2, 1, 'ok')], base=S.alter_btsd(blab, e0), plain=pl2)
    # --- AAD scope naming another block with flags 3 (metadata AND data): built by a conforming source (the Lean model)
    if ext:
        sc3 = [[0, 1], [ext[0], 3], [-1, 1]]
        b3 = S.craft_bib(chk, ib, kmac, [1], n1, scope=sc3)
        add('scope-flags-3-valid', [b3], False, [(n1, 1, 'ok')])
        add('scope-flags-3-covered-data-altered', [b3], True, [(n1, 1, 'fail')], base=S.alter_btsd(ib.blocks, ext[0]))
        c3, enc3 = S.craft_bcb(chk, ib, kenc, [1], n1, [iv()], scope=sc3)
        add('bcb-scope-flags-3-valid', [c3], False, [(n1, 1, 'ok')], base=enc3, plain=plain, payload=pay['btsd'] if accept else None)
        add('bcb-scope-flags-3-covered-data-altered', [c3], True, [(n1, 1, 'fail')], base=S.alter_btsd(enc3, ext[0]), plain=plain)
    # --- duplicated parameter / second result, BCB as well, in front of and behind the genuine one
    add('dup-param-ids-in-front', [rewrite_asb(bib, lambda c: c['params'].insert(0, (5, {0: 0, -1: 3})))], True, [(n1, 1, 'ok')])
    add('bcb-dup-param-ids', [rewrite_asb(bcb, lambda c: c['params'].append(c['params'][0]))], True, [(n1, 1, 'ok')], base=encblocks, plain=plain)
    add('bcb-dup-param-ids-in-front', [rewrite_asb(bcb, lambda c: c['params'].insert(0, (5, {0: 0, -1: 3})))], True, [(n1, 1, 'ok')],
        base=encblocks, plain=plain)
    add('bcb-result-count-2', [rewrite_asb(bcb, lambda c: c['results'][0].append((17, b'\x80')))], True, [(n1, 1, 'ok')], base=encblocks, plain=plain)
    add('bcb-result-count-2-in-front', [rewrite_asb(bcb, lambda c: c['results'][0].insert(0, (17, b'\x80')))], True, [(n1, 1, 'ok')],
        base=encblocks, plain=plain)
    add('bcb-dup-result-ids', [rewrite_asb(bcb, lambda c: c['results'][0].append(c['results'][0][0]))], True, [(n1, 1, 'ok')], base=encblocks, plain=plain)
    add('bcb-result-count-0', [rewrite_asb(bcb, lambda c: c.__setitem__('results', [[]]))], True, [(n1, 1, 'ok')], base=encblocks, plain=plain)
    # --- COSE_Sign1 with an x5chain certificate: the key is usable only if the certificate names the security source
    mat = S._sign1_material()
    add('sign1-valid', [S.craft_bib_sign1(chk, ib, mat['key'], mat['match'], [1], n1, sc)], False, [(n1, 1, 'ok')])
    for cert in ('other-node-id', 'dns-only', 'no-san'):
        add('sign1-certificate-%s' % cert, [S.craft_bib_sign1(chk, ib, mat['key'], mat[cert], [1], n1, sc)], True, [(n1, 1, 'fail')])
    add('sign1-wrong-signing-key', [S.craft_bib_sign1(chk, ib, mat['other_key'], mat['match'], [1], n1, sc)], True, [(n1, 1, 'fail')])
    # --- COSE_Encrypt with several key-wrap recipients, ours at every position / absent
    cek = bytes(rng.getrandbits(8) for _ in range(32))
    for name, recips, has_ours in S.recipient_orders(KW_HEX, rng):
        rb, rblocks = S.craft_bcb_kw(chk, ib, recips, cek, [1], n1, [iv()], sc)
        add('recipients-%s' % name, [rb], not has_ours, [(n1, 1, 'ok' if has_ours else 'fail')], base=rblocks, plain=plain,
            payload=pay['btsd'] if (accept and has_ours) else None)
    # --- a security result with an ATTACHED payload (copy of the original target data): the block in the bundle counts
    def _attach(c):
        rid, val = c['results'][0][0]
        msg = cbor2.loads(val)
        msg[2] = bytes.fromhex(pay['btsd'])
        c['results'][0] = [(rid, cbor2.dumps(msg))]
    add('attached-payload-target-altered', [rewrite_asb(bib, _attach)], True, [(n1, 1, 'fail')], base=S.alter_btsd(ib.blocks, 1))
    # --- several targets in one block: the failing target at every position, the others intact
    if len(ext) >= 2:
        for order_name, T in (('asc', [1, ext[0], ext[1]]), ('mixed', [ext[1], 1, ext[0]])):
            mb = S.craft_bib(chk, ib, kmac, T, n1, scope=sc)
            mc, menc = S.craft_bcb(chk, ib, kenc, T, n1, [iv() for _ in T], scope=sc)
            mplain = [(n1, t, [b for b in ib.blocks if b['num'] == t][0]['btsd']) for t in T]
            add('multi-bib-valid-%s' % order_name, [mb], False, [(n1, t, 'ok') for t in T])
            add('multi-bcb-valid-%s' % order_name, [mc], False, [(n1, t, 'ok') for t in T], base=menc, plain=mplain,
                payload=pay['btsd'] if accept else None)
            for pos, bad in enumerate(T):
                where = ('first', 'middle', 'last')[pos]
                orc = [(n1, t, 'fail' if t == bad else 'ok') for t in T]
                add('multi-bib-%s-altered-%s' % (order_name, where), [mb], True, orc, base=S.alter_btsd(ib.blocks, bad))
                add('multi-bcb-%s-altered-%s' % (order_name, where), [mc], True, orc, base=S.alter_btsd(menc, bad), plain=mplain)
                add('multi-bib-%s-bad-tag-%s' % (order_name, where),
                    [rewrite_asb(mb, lambda c, pos=pos: c['results'].__setitem__(pos, [(17, flip_tag(c['results'][pos][0][1]))]))],
                    True, orc)
    # --- BCB + BIB: the BIB is made over the plaintext, then the payload is encrypted
    bibp = S.craft_bib(chk, ib, kmac, [1], n1, scope=sc)
    bcb2, enc2 = S.craft_bcb(chk, ib, kenc, [1], n2, [iv()], scope=sc)
    # without acceptance the payload stays ciphertext when the BIB step runs: the BIB cannot verify
    add('bcb+bib-valid', [bibp, bcb2], not accept, [(n2, 1, 'ok'), (n1, 1, 'ok' if accept else 'fail')], base=enc2,
        plain=[(n2, 1, pay['btsd'])], payload=pay['btsd'] if accept else None)
    add('bcb+bib-bad-tag', [rewrite_asb(bibp, lambda c: c['results'].__setitem__(0, [(17, flip_tag(c['results'][0][0][1]))])), bcb2],
        True, [(n2, 1, 'ok'), (n1, 1, 'fail')], base=enc2, plain=[(n2, 1, pay['btsd'])])
    alt2 = [dict(b, btsd=(bytes.fromhex(b['btsd'])[:-1] + bytes([bytes.fromhex(b['btsd'])[-1] ^ 0x80])).hex()) if b['type'] == 1 else b
            for b in enc2]
    add('bcb+bib-altered-ciphertext', [bibp, bcb2], True, [(n2, 1, 'fail'), (n1, 1, 'fail')], base=alt2)
    return cases


def admin_cases(chk, rng, ib, kenc, accept):
    """ An administrative-record bundle (a status report made by a real agent) whose payload is put under a BCB. """
    n1 = max(b['num'] for b in ib.blocks) + 1
    pay = [b for b in ib.blocks if b['type'] == 1][0]
    sc = [[0, 1], [-1, 1]]
    bcb, enc = S.craft_bcb(chk, ib, kenc, [1], n1, [bytes(rng.getrandbits(8) for _ in range(12))], scope=sc)
    plain = [(n1, 1, pay['btsd'])]
    return [
        Case('admin-under-bcb', S.insert_before_payload(enc, [bcb]), False, [(n1, 1, 'ok')], plain=plain,
             payload=pay['btsd'] if accept else None),
        Case('admin-under-bcb-altered', S.insert_before_payload(S.alter_btsd(enc, 1), [bcb]), True, [(n1, 1, 'fail')], plain=plain),
        Case('admin-plain', list(ib.blocks), False, []),
    ]


def receivers(keys, kmac_bytes, kenc_bytes, rng, accept):
    from pycose.keys import SymmetricKey
    from pycose.keys.keyparam import KpAlg, KpKid, KpKeyOps
    from pycose.keys.keyops import MacCreateOp, MacVerifyOp, EncryptOp, DecryptOp
    from pycose.algorithms import HMAC256, A256GCM
    wrong = {
        b'mac': SymmetricKey(k=bytes(x ^ 0x55 for x in kmac_bytes), optional_params={KpAlg: HMAC256, KpKid: b'mac', KpKeyOps: [MacCreateOp, MacVerifyOp]}),
        b'enc': SymmetricKey(k=bytes(x ^ 0x55 for x in kenc_bytes), optional_params={KpAlg: A256GCM, KpKid: b'enc', KpKeyOps: [EncryptOp, DecryptOp]}),
    }
    out = {'same': S.Receiver(keys, accept=accept), 'wrong': S.Receiver(wrong, accept=accept),
           'missing': S.Receiver({}, accept=accept)}
    for r in out.values():
        r.ctx._ca_certs = [S._sign1_material()['ca']]
    return out


def run_case(chk, case, ib, accept, rcvs, keyhex=None):
    data = S.assemble(ib, case.blocks)
    vib = S.IBundle(data)
    rcv = rcvs[case.rkeys]
    S.OBSERVER.active = True
    out = rcv.feed(data)
    S.OBSERVER.active = False
    seen = S.OBSERVER.take()
    replay = dict(kind=case.kind, accept=accept, receiver_keys=case.rkeys, keys=keyhex, data=data.hex(),
                  defective_by_construction=case.defective, observed=out.summary(), target_outcomes=seen)
    chk.count('kind:%s' % case.kind)
    chk.count('accept:%s' % accept)
    chk.case({'kind': case.kind, 'accept': accept, 'data': data.hex()}, nontrivial=True, sample=(case.kind == 'valid-bib'))

    # --- observed per-target outcomes agree with the construction
    exp = {(s, t): o for (s, t, o) in case.orc}
    for (s, t, o) in seen:
        if (s, t) in exp and exp[(s, t)] != o:
            chk.corr_break('per-target outcome differs from the construction (%s)' % case.kind,
                           dict(replay, expected=exp[(s, t)], sec=s, tgt=t, got=o))
    orc = dict(exp)
    orc.update({(s, t): o for (s, t, o) in seen})

    # --- model request (answered in one batch per base bundle)
    req = S.chain_request(vib, accept, [(s, t, o) for (s, t), o in orc.items()], plain=case.plain,
                          extract_bad=case.extract_bad)
    return dict(case=case, out=out, vib=vib, req=req, replay=replay, accept=accept)


def judge(chk, rec, ans):
    case, out, vib, req, replay, accept = rec['case'], rec['out'], rec['vib'], rec['req'], rec['replay'], rec['accept']
    impl = dict(delivered=out.delivered, deleted=bool(out.actions and 'delete' in out.actions),
                reason=(int(out.reason) if isinstance(out.reason, int) else (None if out.reason is None else 'str')))
    model = dict(delivered=ans.get('delivered'), deleted=ans.get('deleted'), reason=ans.get('reason'))
    if impl['deleted'] is False and impl['reason'] is not None:
        impl['reason'] = None
    if out.ctr is not None:
        impl['blocks'] = [(int(b.type_code), int(b.block_num)) for b in out.ctr.bundle.blocks]
        impl['payload'] = bytes(out.ctr.block_num(1).getfieldval('btsd') or b'').hex()
        model['blocks'] = [(b['type'], b['num']) for b in ans.get('blocks', [])]
        model['payload'] = ([b['btsd'] for b in ans.get('blocks', []) if b['num'] == 1] or [None])[0]
    if impl != model:
        chk.corr_break('receive chain differs from the model (%s, accept=%s)' % (case.kind, accept),
                       dict(replay, impl=impl, model=model, request=req))
    else:
        chk.count('chain-agree')
        chk.cov['traces_validated_against_impl'] += 1

    # --- property monitors (independent of the model)
    if case.defective:
        if out.delivered:
            if case.defect_id == 'D15':
                sig = 'C12:second-%s-skipped-after-accept' % ('bcb' if 'bcb' in case.kind else 'bib')
                what = 'the security block after an accepted (removed) one is never verified; its unverifiable target is delivered (D15)'
            elif case.defect_id == 'D22':
                sig, what = 'C12:unparseable-asb-ignored', 'a type 11/12 block whose BTSD is not an ASB is ignored and the bundle delivered (D22)'
            else:
                sig, what = 'C12:unverifiable-delivered:%s' % case.kind, 'bundle with an unverifiable security block reached the application step'
            chk.violation(sig, what, replay)
        elif not out.sec_marked():
            if isinstance(out.reason, str) or out.escaped is not None or not impl['deleted']:
                chk.violation('C12:verify-exception-not-marked-deleted',
                              'exception inside verify_*: not delivered, but not marked deleted with a security reason; the report cannot be built (D16)', replay)
            else:
                chk.violation('C12:not-marked-security:%s' % case.kind, 'deleted without a security reason', replay)
        elif S.wants_deletion_report(vib) and not any(r in S.SEC_REASONS for r in out.reports):
            chk.violation('C12:failure-not-reported:%s' % case.kind, 'requested deletion report with a security reason not sent', replay)
        else:
            chk.count('fail-closed-ok')
    else:
        if not out.delivered:
            what = 'all security blocks verify, yet not delivered'
            if case.kind == 'admin-under-bcb':
                what = ('an administrative-record bundle whose payload is under a verifiable BCB is not delivered (%s escapes while the '
                        'ciphertext is dissected as a record, before the receive chain runs)' % (type(out.escaped).__name__,))
            if case.defect_id == 'noparams':
                what = ('a security block without the optional parameters field can never be verified: check_secblk iterates '
                        'payload.parameters = None (TypeError), so the bundle is dropped (and, D16, not marked with a security reason)')
            chk.violation('C12:verified-bundle-not-delivered:%s' % case.kind, what, replay)
        else:
            got = {b[1]: b for b in out.delivered_blocks}
            want_pay = case.payload if case.payload is not None else [b['btsd'] for b in case.blocks if b['num'] == 1][0]
            if got[1][2].hex() != want_pay:
                chk.violation('C12:delivered-payload-differs:%s' % case.kind, 'delivered payload is not the expected one', replay)
            secs = [b for b in out.delivered_blocks if b[0] in (11, 12)]
            if accept and secs:
                if case.defect_id == 'D15':
                    chk.violation('C12:second-%s-skipped-after-accept' % ('bcb' if 'bcb' in case.kind else 'bib'),
                                  'with acceptance configured the security block after an accepted one is neither verified nor removed (D15)', replay)
                else:
                    chk.violation('C12:accepted-block-not-removed:%s' % case.kind, 'acceptance configured but security block still present', replay)
            if not accept and len(secs) != len([b for b in case.blocks if b['type'] in (11, 12)]):
                chk.violation('C12:block-removed-without-acceptance:%s' % case.kind, 'security block removed although acceptance is off', replay)
            others = [(b[0], b[1], b[2].hex()) for b in out.delivered_blocks if b[0] not in (11, 12) and b[1] != 1]
            dec = {t: p for (_s, t, p) in case.plain} if accept else {}
            want = [(b['type'], b['num'], dec.get(b['num'], b['btsd'])) for b in case.blocks if b['type'] not in (11, 12) and b['num'] != 1]
            if others != want:
                chk.violation('C12:delivered-bundle-changed:%s' % case.kind, 'non-security blocks changed', replay)
            chk.count('pass-ok')


def run(chk):
    chk.prove('DtnVerif.Props.C12')
    chk.cov['rule'] = ('for each base bundle x {accept on, off} x every malformation kind: real receiver || sec.chain model, '
                       'monitors: fail-closed + marked + reported / pass + payload exact + removal iff acceptance')
    chk.assumptions += [
        'cryptographic outcome per (security block, target) is an input of the chain model (observed on the real run and cross-checked against the construction)',
        'security blocks are harness-made (COSE_Mac0 HMAC 256/256, COSE_Encrypt0 A256GCM) with MAC/AEAD inputs computed by the Lean model (sec.macinput / sec.encinput): a valid one verifying on the real receiver is itself a correspondence check',
        'COSE_Mac with key-wrap recipients is not exercisable with upstream pycose 1.1.0 (no MacMessage.verify_tag(recipient)); Sign1 needs the certificate stub and is not exercised here',
    ]
    S.OBSERVER.install()
    rng = chk.rng
    nb = KINDS_QUICK if chk.tier == 'quick' else KINDS_THOROUGH
    kmac = bytes(rng.getrandbits(8) for _ in range(32))
    kenc = bytes(rng.getrandbits(8) for _ in range(32))
    keys = S.keyset(rng)
    KW_HEX['kw'] = bytes(keys[b'kw'].k).hex()
    from pycose.keys import SymmetricKey
    from pycose.keys.keyparam import KpAlg, KpKid, KpKeyOps
    from pycose.keys.keyops import MacCreateOp, MacVerifyOp, EncryptOp, DecryptOp
    from pycose.algorithms import HMAC256, A256GCM
    keys[b'mac'] = SymmetricKey(k=kmac, optional_params={KpAlg: HMAC256, KpKid: b'mac', KpKeyOps: [MacCreateOp, MacVerifyOp]})
    keys[b'enc'] = SymmetricKey(k=kenc, optional_params={KpAlg: A256GCM, KpKid: b'enc', KpKeyOps: [EncryptOp, DecryptOp]})
    adm = {}
    for bi in range(nb):
        ib, _payload = S.plain_bundle(rng, chk.tier, payload=None if bi else b'attack at dawn', extra=2 - (bi % 2))
        if not [b for b in ib.blocks if b['type'] == 1][0]['btsd']:
            ib, _payload = S.plain_bundle(rng, chk.tier, payload=b'\x00', extra=1)
        for accept in (False, True):
            rcvs = receivers(keys, kmac, kenc, rng, accept)
            recs = [run_case(chk, case, ib, accept, rcvs, keyhex=dict(mac=kmac.hex(), enc=kenc.hex(), kw=KW_HEX['kw']))
                    for case in make_cases(chk, rng, ib, kmac, kenc, accept)]
            if bi < 2:
                if bi not in adm:
                    adm[bi] = S.plain_status_report(rng)
                recs += [run_case(chk, case, adm[bi], accept, rcvs, keyhex=dict(mac=kmac.hex(), enc=kenc.hex(), kw=KW_HEX['kw']))
                         for case in admin_cases(chk, rng, adm[bi], kenc, accept)]
            for rec, ans in zip(recs, chk.driver([r['req'] for r in recs])):
                judge(chk, rec, ans)


def _keys_from(keyhex, variant):
    return S.keys_from_hex({k: v for k, v in keyhex.items() if k in ('mac', 'enc', 'kw')}, variant)


def replay(chk, path):
    obj = json.load(open(path))
    r = obj.get('replay', obj)
    rcv = S.Receiver(_keys_from(r['keys'], r.get('receiver_keys', 'same')), accept=bool(r.get('accept')))
    rcv.ctx._ca_certs = [S._sign1_material()['ca']]
    S.install_mac_kw_shim()
    out = rcv.feed(bytes.fromhex(r['data']))
    print('kind=%s accept=%s defective_by_construction=%s' % (r.get('kind'), r.get('accept'), r.get('defective_by_construction')))
    print('recorded :', json.dumps(r.get('observed')))
    print('now      :', json.dumps(out.summary()))
    bad = (r.get('defective_by_construction') and (out.delivered or not out.sec_marked())) or \
          (not r.get('defective_by_construction') and not out.delivered)
    print('REPRODUCED' if bad else 'not reproduced')
    return 1 if bad else 0
