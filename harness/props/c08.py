''' C08 — Block CRCs are always valid on output and always checked on input.

Proof: DtnVerif.Props.C08 (catalogue check values of the bitwise CRCs, check∘update, what is on the
wire after update_all_crc, the receive gate, GF(2) linearity and burst detection of the CRC).
Correspondence / monitors, all against the real code in-process:
  OUT-1  generated bundles -> real update_all_crc + bytes()      vs Lean bp.updatecrc, and the
         independent verdict over the octets (bp_gen.octet_crc_verdict: RFC 9171 block splitter +
         bit-at-a-time CRC with the CRC field zeroed; type 0 = no CRC item)
  OUT-2  the same bundles through a real bp.agent.Agent.send_bundle (ctr.sender = capture)
  IN     every single-bit flip and bursts of span <= CRC width inside CRC-protected blocks, fed to
         agent._cl_recv_bundle_finish: decode class, check_all_crc set and "anything happened"
         (seen set, idle sources = reports/forwards, queues, D-Bus signals, application state)
         vs Lean bp.gate; monitor = "accepted although the CRC over the received octets is wrong".
'''
import json
import re

from . import bp_gen as G

OWN = 'dtn://node/'
# D20 (known finding): block types which have a payload class bound to them. There the bound class may swallow
# surplus array items of the canonical block instead of raising — measured on the unchanged tree over 1 800
# crafted heads: type 7 (Bundle Age) takes any number, type 10 (Hop Count) exactly two (they are read as its
# two fields), type 6 none; 11 and 12 were not measured. Those acceptances are instances of the known finding.
# For a block type with NO bound class (unassigned and private types) the unchanged tree rejects every surplus
# item, so an acceptance there is something new (it is what a `post_dissect` that drops them would cause).
SURPLUS_TOLERATED_TYPES = (6, 7, 10, 11, 12)


class Rx(object):
    ''' one real agent, reset between cases '''

    def __init__(self):
        self.agent = G.boot_agent(OWN)
        self.R = G.real()
        self.recv = self.agent._cl_recv_bundle_finish('test')

    def feed(self, data):
        ''' -> dict(decode_error, escaped, accepted, crc_fail, reenc) '''
        out = {'decode_error': None, 'escaped': None, 'accepted': False, 'crc_fail': None, 'reenc': None,
               'subset': False, 'utf8': False, 'audit': [], 'text_slots': []}
        try:
            probe = self.R['Bundle'](data)
        except Exception as e:  # noqa
            out['decode_error'] = type(e).__name__
            out['utf8'] = type(e).__name__ == 'CBORDecodeError' and 'text string' in str(e)
            probe = None
        if probe is not None:
            try:
                out['crc_fail'] = sorted(set(int(x) if x is not None else -1 for x in probe.check_all_crc()))
            except Exception as e:  # noqa
                out['crc_fail'] = 'raised %s' % type(e).__name__
            try:
                out['reenc'] = bytes(probe)
                obs = G.real_observable(probe)
                out['subset'] = G.in_subset(obs)
                out['audit'] = G.reencoded_crc_audit(out['reenc'], obs)
                out['text_slots'] = G.slot_text_audit(data, obs)
            except Exception as e:  # noqa
                out['reenc'] = None
        G.agent_reset(self.agent)
        before = G.agent_snapshot(self.agent)
        try:
            self.recv(data, {})
        except Exception as e:  # noqa
            out['escaped'] = type(e).__name__
        after = G.agent_snapshot(self.agent)
        out['accepted'] = after != before
        out['delta'] = {k: (before[k], after[k]) for k in after if after[k] != before[k]}
        return out

    def send(self, bundle):
        ''' real agent transmit path; returns the octets handed to the convergence layer '''
        from bp.util import BundleContainer
        cap = []
        ctr = BundleContainer(bundle)
        ctr.sender = cap.append
        self.agent.send_bundle(ctr)
        return cap


def flip_bits(data, bits):
    d = bytearray(data)
    for k in bits:
        d[k // 8] ^= 1 << (k % 8)      # bit k of the serial (LSB-first, reflected CRC) bit stream
    return bytes(d)


def protected_spans(data):
    ''' [(start, end, crc_type)] of blocks that carry a CRC, read independently from the octets '''
    return [(b['start'], b['end'], b['crc_type']) for b in G.split_blocks(data) if b['crc_type'] in (1, 2)]


def corruption_patterns(rng, data, spans, bursts_per_pos, all_single=True, stride=1):
    ''' bit sets: every single-bit flip, and bursts (first and last bit set, random interior, span <=
    CRC width) at every (stride-th) position of every protected block '''
    for (s, e, ct) in spans:
        w = 16 * ct
        lo, hi = 8 * s, 8 * e
        for k in range(lo, hi):
            if all_single:
                yield ('single', [k])
            if (k - lo) % stride:
                continue
            for j in range(bursts_per_pos):
                span = rng.randrange(2, w + 1) if j else w
                if k + span > hi:
                    span = hi - k
                if span < 2:
                    continue
                bits = [k, k + span - 1]
                if j % 3 == 1:
                    bits += list(range(k + 1, k + span - 1))          # solid burst
                else:
                    bits += [i for i in range(k + 1, k + span - 1) if rng.random() < 0.5]
                yield ('burst%d' % (16 if ct == 1 else 32), sorted(set(bits)))


def check_crc_functions(chk, n):
    ''' three CRC implementations on the same octets: Lean bit-at-a-time over BitVec (the proved one),
    Python bit-at-a-time (the octet oracle of this harness) and what the repository calls
    (AbstractBlock.CRC_DEFN: crcmod stand-in + struct.pack) '''
    R = G.real()
    from bp.encoding.blocks import AbstractBlock
    rng = chk.rng
    msgs = [b'123456789', b'', b'\x00', b'\xff' * 4]
    for _ in range(n):
        msgs.append(bytes(rng.randrange(256) for _ in range(G.gen_len(rng) + rng.randrange(3))))
    outs = chk.driver([{'op': 'bp.crc', 'type': t, 'hex': m.hex()} for m in msgs for t in (1, 2)])
    k = 0
    for m in msgs:
        for t in (1, 2):
            o = outs[k]
            k += 1
            defn = AbstractBlock.CRC_DEFN[AbstractBlock.CrcType(t)]
            real = defn['encode'](defn['func'](m))
            py = G.crc_octets(t, m)
            chk.case({'crc': t, 'hex': m.hex()})
            chk.count('CRC:function agreement')
            if not (o['hex'] == py.hex() == real.hex()):
                rp = {'crc_type': t, 'hex': m.hex(), 'lean': o['hex'], 'python_bitwise': py.hex(), 'real': real.hex()}
                chk.corr_break('CRC functions disagree', rp)
                if py.hex() == o['hex']:
                    chk.violation('C08:crc-function-wrong', 'the repository CRC of type %d differs from the catalogue algorithm' % t, rp)


def check_keep_existing(chk, specs):
    ''' update_crc(keep_existing=True), the documented variant of the CRC update: a block without a CRC
    value gets the CRC of its own encoding, a block that has a value keeps it untouched '''
    rng = chk.rng
    todo = []
    for spec in specs:
        sp = {'primary': dict(spec['primary']), 'blocks': [dict(b) for b in spec['blocks']], 'crc_mode': 'given'}
        for blk in [sp['primary']] + sp['blocks']:
            if blk['crc_type'] and (blk['crc'] is None or rng.random() < 0.5):
                blk['crc'] = None if rng.random() < 0.6 else bytes(rng.randrange(256) for _ in range(2 * blk['crc_type']))
        todo.append(sp)
    outs = chk.driver([{'op': 'bp.updatecrckeep', 'bundle': G.spec_json(sp)} for sp in todo])
    for sp, o in zip(todo, outs):
        replay = {'stream': 'KEEP', 'spec': G.spec_json(sp)}
        chk.case(replay)
        b = G.real_bundle(sp, use_payload_classes=False)
        try:
            b.primary.update_crc(keep_existing=True)
            for blk in b.blocks:
                blk.update_crc(keep_existing=True)
            data = bytes(b)
        except Exception as e:  # noqa
            chk.violation('C08:update-keep-existing', 'update_crc(keep_existing=True) raised %r' % e, replay)
            continue
        replay['real_hex'] = data.hex()
        chk.count('KEEP:bundles')
        if o.get('hex') != data.hex():
            chk.corr_break('KEEP: real update_crc(keep_existing=True) differs from the model', dict(replay, lean_hex=o.get('hex')))
        _ok, detail = G.octet_crc_verdict(data)
        try:
            blocks = G.split_blocks(data)
        except (ValueError, IndexError):
            blocks = []
        wrong = []
        for i, (blk, want) in enumerate(zip(blocks, [sp['primary']] + sp['blocks'])):
            if not want['crc_type']:
                continue
            if want['crc'] is None:
                chk.count('KEEP:block without a value')
                if i >= len(detail) or detail[i] != 'ok':
                    wrong.append((i, 'had no CRC value, after the update the octets give %s' % (detail[i] if i < len(detail) else '?')))
            else:
                chk.count('KEEP:block with a value')
                s, e = blk['items'][-1]
                if data[s:e] != G.cb_bstr(want['crc']):
                    wrong.append((i, 'had CRC value %s, now %s' % (want['crc'].hex(), data[s:e].hex())))
        if wrong:
            replay['wrong'] = wrong
            chk.violation('C08:update-keep-existing', 'update_crc(keep_existing=True) must compute the CRC of blocks without a '
                          'value and leave present values alone: %s' % wrong, replay)
        chk.cov['traces_validated_against_impl'] += 1


def check_output(chk, rx, specs):
    R = rx.R
    outs = chk.driver([{'op': 'bp.updatecrc', 'bundle': G.spec_json(s)} for s in specs])
    captured = []
    for spec, o in zip(specs, outs):
        replay = {'stream': 'OUT', 'spec': G.spec_json(spec)}
        chk.case(replay, sample=len(chk.cov['samples']) < 2)
        b = G.real_bundle(spec)
        b.update_all_crc()
        data = bytes(b)
        replay['real_hex'] = data.hex()
        for blk in [spec['primary']] + spec['blocks']:
            chk.count('OUT:block crc_type=%d' % blk['crc_type'])
        ok, detail = G.octet_crc_verdict(data)
        if not ok:
            replay['verdict'] = detail
            chk.violation('C08:output-crc-wrong', 'update_all_crc()+bytes() emits a block whose CRC is not the '
                          'bitwise CRC of the block with a zeroed CRC field (or a type-0 block with a CRC item): %s' % detail, replay)
        if o.get('hex') != data.hex():
            replay['lean_hex'] = o.get('hex')
            chk.corr_break('OUT-1: real update_all_crc+bytes differs from the model', replay)
        if b.check_all_crc():
            chk.violation('C08:check-after-update', 'check_all_crc() not empty right after update_all_crc()', replay)
        # OUT-2: the agent's transmit path (fresh object: send_bundle mutates it)
        b2 = G.real_bundle(spec)
        try:
            cap = rx.send(b2)
        except Exception as e:  # noqa
            chk.count('OUT-2:send_bundle raised %s' % type(e).__name__)
            cap = []
        for sent in cap:
            chk.count('OUT-2:captured')
            ok2, detail2 = G.octet_crc_verdict(sent)
            rp = {'stream': 'OUT-2', 'spec': G.spec_json(spec), 'sent_hex': sent.hex()}
            if not ok2:
                rp['verdict'] = detail2
                chk.violation('C08:transmit-crc-wrong', 'Agent.send_bundle handed octets to the CL in which a block '
                              'CRC is not valid over the octets: %s' % detail2, rp)
            captured.append((rp, sent))
        chk.cov['traces_validated_against_impl'] += 1
    # the model's view of what was transmitted: decodes and passes the gate
    if captured:
        gs = chk.driver([{'op': 'bp.gate', 'hex': sent.hex(), 'own': {'dtn': b'//other/'.hex()}} for _rp, sent in captured])
        for (rp, sent), g in zip(captured, gs):
            if not g.get('decoded') or g.get('fail') != []:
                rp['lean'] = g
                chk.corr_break('OUT-2: model CRC check rejects octets transmitted by the agent', rp)


def gate_requests(chk, cases):
    own = {'dtn': b'//node/'.hex()}
    return chk.driver([{'op': 'bp.gate', 'hex': c[2].hex(), 'own': own} for c in cases])


def judge_batches(chk, rx, batches, stream):
    ''' batches = [(valid octets, cases)]: one driver call for all of them (process start-up dominates) '''
    flat = [c for _d, cases in batches for c in cases]
    gates = gate_requests(chk, flat) if flat else []
    k = 0
    for data, cases in batches:
        judge_cases(chk, rx, data, cases, stream, gates[k:k + len(cases)])
        k += len(cases)
    return len(flat)


def judge_cases(chk, rx, data, cases, stream, gates=None):
    ''' cases = [(kind, bits-or-None, corrupted octets)] of the valid bundle `data`: run each through the real
    receive path and the model, apply the monitors '''
    if gates is None:
        gates = gate_requests(chk, cases)
    for (kind, bits, bad), g in zip(cases, gates):
        r = rx.feed(bad)
        verdict, detail = G.octet_crc_verdict(bad)
        replay = {'stream': stream, 'kind': kind, 'bits': bits, 'original_hex': data.hex(), 'corrupted_hex': bad.hex()}
        chk.case(replay, nontrivial=True)
        chk.count(stream + ':%s' % kind)
        if verdict:
            # impossible for a burst of span <= width in the covered part (C08_burst); can only be a
            # pattern straddling the covered octets and the CRC field
            chk.count(stream + ':corruption leaves the octet CRC valid (straddles the CRC field)')
        if r['decode_error']:
            chk.count(stream + ':undecodable (raises before recv_bundle) %s' % r['decode_error'])
            if r['accepted']:
                chk.violation('C08:undecodable-but-effects', 'decoding raised yet the agent state changed', replay)
        elif r['accepted']:
            chk.count(stream + ':decodes, accepted')
        else:
            chk.count(stream + ':decodes, dropped')
        # ----- monitor on the implementation
        if r['accepted'] and not verdict:
            replay['delta'] = r['delta']
            replay['octet_verdict'] = detail
            replay['real_check_all_crc'] = r['crc_fail']
            if r['reenc'] != bad:
                replay['reencoded_hex'] = r['reenc'].hex() if r['reenc'] is not None else None
                cls = d20_class(data, bad, detail)
                replay['class'] = cls
                chk.count(stream + ':accepted-corruption class=%s' % cls)
                if cls not in _D20_SEEN:
                    _D20_SEEN[cls] = True
                    chk.notes.append('accepted corruption, class %s: original %s corrupted %s' % (cls, data.hex(), bad.hex()))
                chk.violation('C08:reencode-normalises-corruption',
                              'a bundle with a corrupted CRC-protected block was accepted (recorded as seen / '
                              'processed): the CRC is checked over a re-encoding of the decoded fields, which '
                              'differs from the received octets', replay)
            else:
                chk.violation('C08:bad-crc-accepted', 'a bundle whose block CRC is wrong over the received '
                              'octets was accepted', replay)
        if r['accepted'] and r['audit']:
            replay['delta'] = r['delta']
            replay['failing_blocks'] = r['audit']
            replay['real_check_all_crc'] = r['crc_fail']
            chk.violation('C08:gate-passed-failing-block',
                          'the agent accepted a bundle in which a block with a non-zero CRC type has no CRC value, a '
                          'value of the wrong length, or a value that is not the CRC of the block\'s own encoding '
                          '(independent bit-at-a-time CRC over the re-encoded block): %s' % r['audit'], replay)
        if r['accepted']:
            sur = [x for x in G.surplus_items(bad) if x[1] not in SURPLUS_TOLERATED_TYPES]
            if sur:
                replay['delta'] = r['delta']
                replay['surplus'] = sur
                chk.violation('C08:surplus-array-items-accepted',
                              'a corrupted bundle was accepted in which a canonical block has more array items than its '
                              'CRC type allows (CRC type corrupted to 0 with the CRC value still there, or an array head '
                              'that swallows the following block); (block index, type, items, allowed): %s' % sur, replay)
        if r['accepted'] and r['text_slots']:
            replay['delta'] = r['delta']
            replay['text_slots'] = r['text_slots']
            chk.violation('C08:text-string-accepted-as-octets',
                          'a corrupted bundle was accepted in which a byte-string field (block data / CRC value) arrived '
                          'as a CBOR text string and was taken for the same octets (block, field): %s' % r['text_slots'], replay)
        # ----- correspondence with the model
        m_dec = bool(g.get('decoded'))
        if m_dec != (r['decode_error'] is None):
            if not m_dec and g.get('raw') and r['decode_error'] is None:
                chk.count(stream + ':outside-model EID authority (non-ASCII or brackets: urlsplit NFKC / IPv6 checks)')
            elif m_dec and r['utf8']:
                chk.count(stream + ':outside-model text string that is not UTF-8')
            elif not m_dec and r['decode_error'] is None and (r['reenc'] != bad or not r['subset']):
                chk.count(stream + ':lenient real decoder (outside the supported subset)')
            else:
                replay['lean'] = g
                replay['real'] = {k: r[k] for k in ('decode_error', 'crc_fail', 'accepted')}
                chk.corr_break(stream + ': decode class differs (real %s, model %s)' % (r['decode_error'], m_dec), replay)
            continue
        if not m_dec:
            continue
        m_fail = sorted(set(g.get('fail', [])))
        m_acc = g.get('seen') == 1
        if m_fail != r['crc_fail'] or m_acc != r['accepted']:
            replay['lean'] = {k: g.get(k) for k in ('fail', 'seen', 'effects')}
            replay['real'] = {k: r[k] for k in ('crc_fail', 'accepted')}
            chk.corr_break(stream + ': CRC gate outcome differs between the agent and the model', replay)
        chk.cov['traces_validated_against_impl'] += 1


def check_input(chk, rx, spec, bursts_per_pos, stride, budget=None):
    ''' flips / bursts of one bundle through the real receive path and the model '''
    b = G.real_bundle(spec)
    b.update_all_crc()
    data = bytes(b)
    base = rx.feed(data)
    own = {'dtn': b'//node/'.hex()}
    rp0 = {'stream': 'IN', 'hex': data.hex()}
    chk.case(rp0)
    if base['decode_error'] or base['crc_fail'] != [] or not base['accepted']:
        src = G.eid_uri(spec['primary']['src'])
        if src != OWN:
            rp0['baseline'] = {k: base[k] for k in ('decode_error', 'escaped', 'crc_fail', 'accepted')}
            chk.corr_break('IN: uncorrupted bundle is not accepted by the agent (monitor would be vacuous)', rp0)
        return None
    chk.count('IN:baseline accepted')
    spans = protected_spans(data)
    pats = list(corruption_patterns(chk.rng, data, spans, bursts_per_pos, stride=stride))
    if budget is not None and len(pats) > budget:
        singles = [p for p in pats if p[0] == 'single']
        others = [p for p in pats if p[0] != 'single']
        chk.rng.shuffle(others)
        pats = singles + others[:max(0, budget - len(singles))]
    cases = [(kind, bits, flip_bits(data, bits)) for kind, bits in pats]
    nb = len(cases)
    cases = [c for c in cases if not G.bomb_screen(c[2])]
    if nb != len(cases):
        chk.count('IN:not run: uint >= 2^17 in a byte-string slot (BstrField.m2i would allocate that many octets)', nb - len(cases))
    return (data, cases)


_D20_SEEN = {}
# `example : toHex d20Orig.enc = …` in lean/DtnVerif/Props/C08.lean (witness of C08_burst_counterexample)
D20_LEAN_HEX = ('9f89071a000640000282016a2f2f6e6f64652f7376638201662f2f7372632f8201662f2f7372632f821903e8051a000493e0'
                '44b1443e228618c002000140429e9786010100014568656c6c6f424bf3ff')
D20_LEAN_POS = 61      # d20Corrupted = d20Orig.enc.set 61 0x00


def d20_class(orig, bad, detail):
    ''' which normalisation made the corruption invisible (for the report; one signature for all) '''
    if len(orig) != len(bad):
        return 'other'
    diffs = [i for i in range(len(orig)) if orig[i] != bad[i]]
    if any(str(d).startswith('shape:') and 'arity' in str(d) for d in detail):
        return 'array-head-count-changed (following item absorbed / ignored)'
    if 'arity' in detail:
        return 'crc-type-cleared (CRC item ignored, type 0 accepted)'
    if len(diffs) == 1 and orig[diffs[0]] == 0x2f:
        return 'eid-final-slash (-> TAB/CR/LF removed by urlsplit, "/" re-inserted)'
    if len(diffs) == 1 and 0x40 <= orig[diffs[0]] <= 0x5b and bad[diffs[0]] < 0x20:
        return 'bstr-slot-holds-uint (bytes(int) -> zero octets)'
    if len(diffs) == 1 and orig[diffs[0]] == 0x82 and bad[diffs[0]] == 0x42:
        return 'eid-array-as-bstr (2-octet byte string indexed like the [scheme, ssp] array)'
    if len(diffs) == 1 and orig[diffs[0]] == 0x01 and bad[diffs[0]] == 0xf5:
        return 'python-equality-coercion (CBOR true == 1 accepted as the integer)'
    return 'other'


def _ascii_crc_spec(rng, pct, ct):
    ''' a small bundle with a UTF-8 text payload in which the CRC octets of the payload block (type pct)
    and, when it has one, of the primary block (type ct) are ASCII, i.e. valid UTF-8: then a field whose
    CBOR head says "text" instead of "bytes" still decodes '''
    def ascii_crc(items, t):
        z = G.cb_head(4, len(items) + 1) + b''.join(items) + G.cb_bstr(bytes(2 * t))
        return all(x < 0x80 for x in G.crc_octets(t, z))
    text = rng.choice(['hello world', 'attack at dawn', 'x', 'ping 42', '{"k": 1}']).encode()
    for _ in range(400):
        btsd = text + G.gen_name(rng, rng.randrange(0, 6)).encode()
        if ascii_crc([G.cb_uint(1), G.cb_uint(1), G.cb_uint(0), G.cb_uint(pct), G.cb_bstr(btsd)], pct):
            break
    else:
        return None
    dest = ('dtn', '//node/' + G.gen_name(rng, 3))
    src = ('ipn', [rng.randrange(1, 9999), 1])
    flags = 0x40 if rng.random() < 0.5 else 0
    for _ in range(2000):
        time, seq = rng.randrange(1, 2 ** 40), rng.randrange(2 ** 16)
        items = [G.cb_uint(7), G.cb_uint(flags), G.cb_uint(ct), G.eid_cbor(dest), G.eid_cbor(src), G.eid_cbor(('none',)),
                 G.cb_arr([G.cb_uint(time), G.cb_uint(seq)]), G.cb_uint(3600000)]
        if not ct or ascii_crc(items, ct):
            break
    else:
        return None
    return {'primary': {'version': 7, 'flags': flags, 'crc_type': ct, 'dest': dest, 'src': src, 'rpt': ('none',),
                        'time': time, 'seq': seq, 'lifetime': 3600000, 'frag_off': 0, 'total_len': 0, 'crc': None},
            'blocks': [{'type': 1, 'num': 1, 'flags': 0, 'crc_type': pct, 'crc': None, 'extra': None, 'btsd': btsd}],
            'crc_mode': 'update'}


def c02_with_crcs(spec):
    from . import c02
    return c02._with_crcs(spec)


def check_crc_field_forms(chk, rx, n):
    ''' CRC fields that are not a byte string of the right width: the bstr head turned into a tstr head
    by one bit (0x42 -> 0x62, 0x44 -> 0x64) alone and inside short bursts reaching into the preceding
    octets, and fields a sender could put there (null, text, wrong length, empty). All must be dropped. '''
    rng = chk.rng
    done = 0
    batches = []
    for k in range(n):
        spec = _ascii_crc_spec(rng, 1 + k % 2, [0, 2, 1][k % 3])
        if spec is None:
            continue
        b = G.real_bundle(spec)
        b.update_all_crc()
        data = bytes(b)
        base = rx.feed(data)
        if not base['accepted']:
            chk.corr_break('CRCFIELD: uncorrupted bundle is not accepted', {'hex': data.hex()})
            continue
        cases = []
        for blk in G.split_blocks(data):
            ct = blk['crc_type']
            if ct not in (1, 2):
                continue
            s, e = blk['items'][-1]
            w = 2 * ct
            if 'type' in blk:
                # the block data (UTF-8 valid text) with its byte-string head turned into a text-string head
                bs = blk['items'][4][0]
                cases.append(('btsd-head-bstr->tstr', [8 * bs + 5], flip_bits(data, [8 * bs + 5])))
                cases.append(('btsd-head-burst', [8 * bs - 2, 8 * bs + 5], flip_bits(data, [8 * bs - 2, 8 * bs + 5])))
            cases.append(('crc-head-bstr->tstr', [8 * s + 5], flip_bits(data, [8 * s + 5])))
            for back in (1, 3, 4, 6, 9):
                bits = [8 * s - back, 8 * s + 5]
                cases.append(('crc-head-burst', bits, flip_bits(data, bits)))
            bits = [8 * s - 2, 8 * s - 1, 8 * s + 5]
            cases.append(('crc-head-burst', bits, flip_bits(data, bits)))
            val = data[s + 1:e]
            for name, item in [('crc-field-null', b'\xf6'), ('crc-field-text', G.cb_tstr(val.decode('ascii'))),
                               ('crc-field-short', G.cb_bstr(val[:w - 1])), ('crc-field-long', G.cb_bstr(val + b'\x00')),
                               ('crc-field-empty', G.cb_bstr(b'')), ('crc-field-undefined', b'\xf7'),
                               ('crc-field-false', b'\xf4')]:
                cases.append((name, None, data[:s] + item + data[e:]))
        batches.append((data, cases))
        done += 1
    judge_batches(chk, rx, batches, 'CRCFIELD')
    chk.count('CRCFIELD:bundles', done)


class TxAgent(object):
    ''' a second real agent whose only TX route has a small MTU over a recording convergence layer '''

    def __init__(self):
        self.agent = G.boot_agent('dtn://txnode/', path='/tx')

    def send(self, bundle, mtu, as_source=True):
        from bp.util import BundleContainer
        from gi.repository import GLib
        GLib.LOOP.sources.clear()
        cl = G.agent_tx_route(self.agent, mtu)
        err = None
        try:
            self.agent.send_bundle(BundleContainer(bundle), as_source)
        except Exception as e:  # noqa
            err = e
        G.agent_run_idle(self.agent)
        GLib.LOOP.sources.clear()
        return cl.sent, err


def check_fragments(chk, n):
    ''' OUT-3: bundles larger than the route MTU through Agent.send_bundle -> the fragment application ->
    send_bundle(fragment, as_source=False); also relayed (as_source=False) unfragmented bundles whose
    primary block was altered after reception. Every transmitted block, the rewritten primary block
    of each fragment included, must carry a valid CRC over the transmitted octets. '''
    rng = chk.rng
    tx = TxAgent()
    R = G.real()
    sent_all = []
    for k in range(n):
        spec = G.gen_bundle(rng, 0, crc_mode='update', max_time=2 ** 40, nblocks=rng.choice([0, 1, 2]), sec=False)
        p = spec['primary']
        p['flags'] = rng.choice([0, 0x40, 0x4000, 0x60000]) | (0x20 if rng.random() < 0.3 else 0)
        p['crc_type'] = [1, 2, 2, 1, 0][k % 5]
        p['version'] = 7
        p['time'] = max(1, p['time'])
        p['lifetime'] = max(1, p['lifetime'])
        p['frag_off'] = p['total_len'] = 0
        if p['dest'][0] == 'none':
            p['dest'] = ('dtn', '//dst/svc')
        for b in spec['blocks'][:-1]:
            b['btsd'] = b['btsd'][:40]
        pay = spec['blocks'][-1]
        pay['extra'] = None
        pay['btsd'] = bytes(rng.randrange(256) for _ in range(rng.choice([60, 200, 300, 700])))
        base_len = len(G.spec_rfc_bytes(c02_with_crcs(spec))) - len(pay['btsd'])
        relay = (k % 4 == 3)
        mtu = None if relay else base_len + 30 + rng.choice([1, 10, 24, 60])
        bundle = G.real_bundle(spec)
        if relay:
            # a relayed bundle: received with valid CRCs, then a hop-by-hop change of the primary block
            bundle.update_all_crc()
            bundle = R['Bundle'](bytes(bundle))
            bundle.primary.setfieldval('lifetime', bundle.primary.getfieldval('lifetime') + 1)
        sent, err = tx.send(bundle, mtu, as_source=not relay)
        replay = {'stream': 'OUT-3', 'spec': G.spec_json(spec), 'mtu': mtu, 'relayed': relay,
                  'sent_hex': [s.hex() for s in sent]}
        chk.case(replay, sample=(k == 0))
        chk.count('OUT-3:%s primary crc_type=%d' % ('relayed' if relay else 'fragmented', p['crc_type']))
        if err is not None:
            chk.count('OUT-3:send_bundle raised %s' % type(err).__name__)
        if not relay and len(sent) < 2:
            chk.count('OUT-3:not fragmented (%d sent)' % len(sent))
        else:
            chk.count('OUT-3:transmissions', len(sent))
        for j, s in enumerate(sent):
            ok, detail = G.octet_crc_verdict(s)
            if not ok:
                rp = dict(replay, index=j, verdict=detail, sent_hex=s.hex())
                chk.violation('C08:transmit-crc-wrong', 'Agent.send_bundle handed octets to the CL in which a block CRC '
                              'is not valid over the octets (%s %d of %d): %s' % (
                                  'relayed bundle' if relay else 'fragment', j + 1, len(sent), detail), rp)
            sent_all.append((replay, s))
        chk.cov['traces_validated_against_impl'] += 1
    if sent_all:
        gs = chk.driver([{'op': 'bp.gate', 'hex': s.hex(), 'own': {'dtn': b'//other/'.hex()}} for _rp, s in sent_all])
        for (rp, s), g in zip(sent_all, gs):
            if g.get('decoded') and g.get('fail') != []:
                chk.corr_break('OUT-3: model CRC check rejects octets transmitted by the agent',
                               dict(rp, sent_hex=s.hex(), lean=g))


def check_tx_steps(chk, n):
    ''' OUT-4: TX-chain steps that change blocks after send_bundle has prepared the bundle: (a) a harness
    step (order 15) standing for any application — replaces the payload data as an encryption would,
    changes block flags, appends a CRC-bearing block, touches the primary block; (b) the repository's
    own BPSec application with a BCB source association (COSE context, A256GCM key of the test data)
    on the payload block. Every block handed to the convergence layer must carry the CRC of the
    octets actually sent. '''
    rng = chk.rng
    R = G.real()
    from bp.util import BundleContainer, ChainStep
    from gi.repository import GLib
    have_sec = False
    try:
        import bp.app.bpsec as appsec
        from pycose.keys import SymmetricKey
        have_sec = True
    except Exception as e:  # noqa
        chk.count('OUT-4:bpsec application not importable (%s)' % type(e).__name__)
    mode = {'what': None}

    def step(ctr):
        what = mode['what']
        if what is None:
            return
        pay = ctr.block_num(1)
        if what == 'payload' and pay is not None:
            d = pay.getfieldval('btsd') or b''
            pay.setfieldval('btsd', bytes(x ^ 0x5a for x in d) + b'\x00' * 16)
        elif what == 'flags' and pay is not None:
            pay.setfieldval('block_flags', int(pay.getfieldval('block_flags')) ^ 1)
        elif what == 'primary':
            ctr.bundle.primary.setfieldval('lifetime', ctr.bundle.primary.getfieldval('lifetime') + 7)
        elif what == 'add':
            ctr.bundle.blocks.insert(0, R['CanonicalBlock'](type_code=193, crc_type=rng.choice([1, 2]), btsd=b'added'))
            ctr.reload()
        elif what == 'every':
            for blk in ctr.bundle.blocks:
                blk.setfieldval('block_flags', int(blk.getfieldval('block_flags')) | 0x10)

    agent = G.boot_agent('dtn://txstep/', path='/txs')
    # in front of the first step of order > 15, WITHOUT re-sorting the chain (the agent's own order is what runs)
    pos = next((i for i, st in enumerate(agent._tx_chain) if st.order > 15), len(agent._tx_chain))
    agent._tx_chain.insert(pos, ChainStep(order=15, name='verif: a step altering blocks', action=step))
    if have_sec and 'bpsec' in agent._app:
        try:
            ctx = agent._app['bpsec'].get_context(appsec.BPSEC_COSE_CONTEXT_ID)
            import os
            key = SymmetricKey.decode(open(os.path.join(G.repo_root(), 'src', 'bp', 'test', 'data', 'key-ExampleA.4.cbor'), 'rb').read())
            ctx.sym_key_store[key.kid] = key
            secop = appsec.SecOperation(sec_type='bcb', role='source', priv_key_id=key.kid, content_iv=[])
            assoc = appsec.SecAssociation(src_pat=re.compile('.*'), dst_pat=re.compile('dtn://secure/.*'), tgt_blk_types=[1],
                                          templates=[secop])
            ctx.sec_assoc.append(assoc)
        except Exception as e:  # noqa
            have_sec = False
            chk.count('OUT-4:bpsec association not set up (%s)' % type(e).__name__)
    else:
        have_sec = False
    whats = ['payload', 'flags', 'primary', 'add', 'every'] + (['bcb'] if have_sec else [])
    sent_all = []
    for k in range(n):
        what = whats[k % len(whats)]
        spec = G.gen_bundle(rng, 0, crc_mode='update', force_crc=True, max_time=2 ** 40, nblocks=rng.choice([0, 1, 2]), sec=False)
        p = spec['primary']
        p.update({'flags': rng.choice([0, 0x40, 0x4, 0x60000]), 'version': 7, 'time': max(1, p['time']),
                  'lifetime': max(1, min(p['lifetime'], 2 ** 40)), 'frag_off': 0, 'total_len': 0,
                  'crc_type': rng.choice([1, 2])})
        p['dest'] = ('dtn', '//secure/svc') if what == 'bcb' else ('dtn', '//plain/svc')
        pay = spec['blocks'][-1]
        pay.update({'extra': None, 'crc_type': rng.choice([1, 2]), 'btsd': bytes(rng.randrange(256) for _ in range(rng.randrange(1, 60)))})
        mode['what'] = None if what == 'bcb' else what
        if what == 'bcb':
            # the association consumes one content IV per encryption
            secop.content_iv[:] = [bytes(rng.randrange(256) for _ in range(12))]
        GLib.LOOP.sources.clear()
        cl = G.agent_tx_route(agent, None)
        err = None
        try:
            agent.send_bundle(BundleContainer(G.real_bundle(spec)))
        except Exception as e:  # noqa
            err = e
        G.agent_run_idle(agent)
        GLib.LOOP.sources.clear()
        replay = {'stream': 'OUT-4', 'tx_step': what, 'spec': G.spec_json(spec), 'sent_hex': [s.hex() for s in cl.sent]}
        chk.case(replay, sample=(k < 1))
        chk.count('OUT-4:step=%s' % what)
        if err is not None:
            chk.count('OUT-4:send_bundle raised %s' % type(err).__name__)
        if not cl.sent:
            chk.count('OUT-4:nothing sent')
        for s in cl.sent:
            ok, detail = G.octet_crc_verdict(s)
            if what == 'bcb':
                chk.count('OUT-4:bcb present=%s' % any(b.get('type') == 12 for b in G.split_blocks(s)[1:]))
            if not ok:
                rp = dict(replay, verdict=detail, sent_hex=s.hex())
                chk.violation('C08:transmit-crc-wrong', 'Agent.send_bundle handed octets to the CL in which a block CRC is not '
                              'valid over the octets sent (a TX step "%s" changed the bundle after preparation): %s'
                              % (what, detail), rp)
            sent_all.append((replay, s))
        chk.cov['traces_validated_against_impl'] += 1
    mode['what'] = None
    if sent_all:
        gs = chk.driver([{'op': 'bp.gate', 'hex': s.hex(), 'own': {'dtn': b'//other/'.hex()}} for _rp, s in sent_all])
        for (rp, s), g in zip(sent_all, gs):
            if g.get('decoded') and g.get('fail') != []:
                chk.corr_break('OUT-4: model CRC check rejects octets transmitted by the agent', dict(rp, sent_hex=s.hex(), lean=g))


def d20_witness():
    ''' witness of C08_burst_counterexample (Props/C08.lean d20Orig): extension block 192 with empty
    BTSD; its `40` with bit 6 flipped is `00`, which BstrField.m2i turns back into b'' '''
    spec = {'primary': {'version': 7, 'flags': 0x40000 | 0x20000 | 0x4000, 'crc_type': 2,
                        'dest': ('dtn', '//node/svc'), 'src': ('dtn', '//src/'), 'rpt': ('dtn', '//src/'),
                        'time': 1000, 'seq': 5, 'lifetime': 300000, 'frag_off': 0, 'total_len': 0, 'crc': None},
            'blocks': [{'type': 192, 'num': 2, 'flags': 0, 'crc_type': 1, 'btsd': b'', 'crc': None, 'extra': None},
                       {'type': 1, 'num': 1, 'flags': 0, 'crc_type': 1, 'btsd': b'hello', 'crc': None,
                        'extra': None}], 'crc_mode': 'update'}
    return spec


def check_d20(chk, rx):
    spec = d20_witness()
    b = G.real_bundle(spec)
    b.update_all_crc()
    data = bytes(b)
    if data.hex() != D20_LEAN_HEX:
        chk.corr_break('D20: real encoding of the witness differs from the octets pinned in Props/C08.lean (d20Orig)',
                       {'real_hex': data.hex(), 'lean_hex': D20_LEAN_HEX})
    pos = D20_LEAN_POS
    assert data[pos] == 0x40
    bad = flip_bits(data, [8 * pos + 6])
    assert bad[pos] == 0x00
    own = {'dtn': b'//node/'.hex()}
    r = rx.feed(bad)
    verdict, detail = G.octet_crc_verdict(bad)
    g = chk.driver([{'op': 'bp.gate', 'hex': bad.hex(), 'own': own}])[0]
    replay = {'stream': 'D20', 'original_hex': data.hex(), 'corrupted_hex': bad.hex(), 'bit': 8 * pos + 6,
              'octet_verdict': detail, 'real_check_all_crc': r['crc_fail'], 'accepted': r['accepted'],
              'delta': r.get('delta'), 'reencoded_hex': r['reenc'].hex() if r['reenc'] else None,
              'class': 'bstr-slot-holds-uint (bytes(int) -> zero octets)'}
    chk.case(replay, sample=True)
    chk.count('D20:directed witness')
    if (g.get('seen') == 1) != r['accepted'] or sorted(set(g.get('fail', [None]))) != r['crc_fail']:
        replay['lean'] = g
        chk.corr_break('D20: model and agent disagree on the witness', replay)
    if r['accepted'] and not verdict:
        chk.violation('C08:reencode-normalises-corruption',
                      'one-bit corruption of a CRC-16 protected block (empty BTSD 40 -> 00, unsigned 0) is accepted: '
                      'BstrField.m2i makes bytes(0) of it and check_crc() runs over the re-encoding, not over the '
                      'received octets', replay)
    else:
        chk.corr_break('D20: the Lean counterexample witness is no longer accepted by the agent '
                       '(C08_burst_counterexample out of date)', replay)
    # former witness (D19 fixed): '/' -> '?' at the end of the report-to EID must now be dropped
    blocks = G.split_blocks(data)
    s, e = blocks[0]['items'][5]
    old = flip_bits(data, [8 * (e - 1) + 4])
    assert old[e - 1] == 0x3f
    r2 = rx.feed(old)
    g2 = chk.driver([{'op': 'bp.gate', 'hex': old.hex(), 'own': own}])[0]
    rp2 = {'stream': 'D20-old', 'original_hex': data.hex(), 'corrupted_hex': old.hex(),
           'real_check_all_crc': r2['crc_fail'], 'accepted': r2['accepted']}
    chk.case(rp2)
    chk.count('D20:former witness (EID final slash)')
    if (g2.get('seen') == 1) != r2['accepted'] or sorted(set(g2.get('fail', [None]))) != r2['crc_fail']:
        rp2['lean'] = g2
        chk.corr_break('D20-old: model and agent disagree on the former witness', rp2)
    if r2['accepted']:
        rp2['class'] = 'eid-final-slash'
        chk.violation('C08:reencode-normalises-corruption', 'former D20 witness (EID final "/" -> "?") accepted again', rp2)


def run(chk):
    _D20_SEEN.clear()
    chk.cov['rule'] = ('generated bundles with per-block CRC types (update_all_crc) -> octet-level independent CRC verdict '
                       'and the agent transmit path; every single-bit flip and sampled bursts (first/last bit set, solid '
                       'or random interior, span <= CRC width) at every bit position of every CRC-protected block '
                       'through Agent._cl_recv_bundle_finish, compared with the Lean gate')
    chk.assumptions += [
        'bursts of span <= width are sampled per position (all 2^(w-2) interiors cannot be enumerated); the theorem C08_burst covers all of them for the covered octets',
        'the admin-record payload is opaque in the Lean model (re-encoded from parsed form by the real code)',
        'the CRC oracle is bit-at-a-time (Lean Crc.crc / bp_gen.crc_bitwise), the repository uses the table-driven crcmod stub',
    ]
    chk.prove('DtnVerif.Props.C08')
    rng = chk.rng
    quick = chk.tier == 'quick'
    G.limit_memory()
    rx = Rx()
    t_in = 110 if quick else 1000
    check_crc_functions(chk, 150 if quick else 3000)
    # ---- output
    n_out = 300 if quick else 4000
    specs = [G.gen_bundle(rng, i, crc_mode=('update' if i % 4 else 'given'), force_crc=(i % 3 != 0)) for i in range(n_out)]
    for k in range(0, len(specs), 500):
        check_output(chk, rx, specs[k:k + 500])
    check_keep_existing(chk, specs[:120 if quick else 2000])
    check_fragments(chk, 40 if quick else 600)
    check_tx_steps(chk, 36 if quick else 600)
    # ---- input
    check_d20(chk, rx)
    check_crc_field_forms(chk, rx, 6 if quick else 60)
    n_in = 12 if quick else 50
    total = 0
    i = 0
    tries = 0
    pending = []
    t_start = chk.elapsed()
    while i < n_in and tries < 10 * n_in and chk.elapsed() - t_start < t_in:
        tries += 1
        spec = G.gen_bundle(rng, rng.randrange(512), crc_mode='update', force_crc=True, max_time=2 ** 47)
        if spec['primary']['flags'] & 1:
            # the reassembly step allocates the advertised total length at once: keep it small here
            spec['primary']['total_len'] = min(spec['primary']['total_len'], 1 << 16)
            spec['primary']['frag_off'] = min(spec['primary']['frag_off'], spec['primary']['total_len'])
        # keep corrupted inputs small enough to enumerate every bit
        if len(G.spec_rfc_bytes(spec)) > (150 if quick else 400):
            continue
        if G.eid_uri(spec['primary']['src']) == OWN:
            continue
        got = check_input(chk, rx, spec, bursts_per_pos=(1 if quick else 3), stride=(3 if quick else 1),
                          budget=(2500 if quick else 10000))
        if got:
            i += 1
            pending.append(got)
            if len(pending) >= 12:
                total += judge_batches(chk, rx, pending, 'IN')
                pending = []
    if pending:
        total += judge_batches(chk, rx, pending, 'IN')
    chk.count('IN:bundles', i)
    chk.notes.append('corruptions fed to the real receive path: %d' % total)


def replay(chk, path):
    rec = json.load(open(path))
    rp = rec.get('replay', rec)
    rx = Rx()
    if 'corrupted_hex' in rp:
        bad = bytes.fromhex(rp['corrupted_hex'])
        r = rx.feed(bad)
        verdict, detail = G.octet_crc_verdict(bad)
        print('octet verdict', verdict, detail)
        print('real', {k: r[k] for k in ('decode_error', 'escaped', 'crc_fail', 'accepted', 'delta')})
        if r['accepted'] and not verdict:
            sig = 'C08:reencode-normalises-corruption' if r['reenc'] != bad else 'C08:bad-crc-accepted'
            chk.violation(sig, 'replayed corrupted bundle accepted', rp)
    elif 'real_hex' in rp or 'sent_hex' in rp:
        data = bytes.fromhex(rp.get('sent_hex') or rp['real_hex'])
        ok, detail = G.octet_crc_verdict(data)
        print('octet verdict', ok, detail)
        if not ok:
            chk.violation('C08:output-crc-wrong', 'replayed output octets carry a wrong CRC', rp)
    return chk.finish()
