''' C10 — BP agent processes each received bundle at most once and routes by first match.
proof: DtnVerif.Props.C10; correspondence: histories of received bundles through the real
bp.agent.Agent (in-process) against the Lean model `agent.run`; monitors written against the
property text. '''
import json
import re

import agentlib as A

PATTERNS = [r'dtn://a/.*', r'dtn://ab/.*', r'dtn://a', r'.*', r'dtn://[ab]/x', r'ipn:1\..*', r'^dtn://b/',
            r'dtn://node/.*', r'dtn://a/svc$', r'dtn:none', r'dtn://.*/x$', r'ipn:.*']
ACTIONS = ['deliver', 'forward', 'delete', 'drop', 'deliver', 'forward']
DESTS = [A.dtn('//a/x'), A.dtn('//a/svc'), A.dtn('//ab/x'), A.dtn('//b/'), A.NODE, A.dtn('//node/app'),
         {'ipn': [1, 2]}, 'none', A.dtn('//c/x')]
SOURCES = [A.dtn('//s1/'), A.dtn('//s2/'), {'ipn': [5, 1]}, A.dtn('//s1/x')]
RPT = A.dtn('//rpt/')


def gen_table(rng):
    n = rng.choice([0, 1, 2, 2, 3, 4])
    return [(rng.choice(PATTERNS), rng.choice(ACTIONS)) for _ in range(n)]


def gen_bundle(rng, hist):
    ''' fresh / repeat / look-alike / own-source bundle structure '''
    mode = rng.choice(['fresh'] * 4 + ['repeat'] * 3 + ['alike'] * 3 + ['own'] + ['frag'] * 2) if hist else 'fresh'
    flags = rng.choice([0, 0, A.F_RCV | A.F_DLV | A.F_FWD | A.F_DEL, A.F_DLV | A.F_TIME, A.F_NOFRAG])
    if mode in ('repeat', 'alike'):
        base = rng.choice(hist)
        p = dict(base['pri'])
        p['ts'] = list(p['ts'])
        if mode == 'repeat':
            # same identity, possibly different destination / payload / flags other than the fragment bit
            if rng.random() < 0.5:
                p['dest'] = rng.choice(DESTS)
            if rng.random() < 0.3:
                p['flags'] = (p['flags'] & A.F_FRAG) | (flags & ~A.F_FRAG)
        else:
            which = rng.choice(['src', 'time', 'seq', 'fragbit', 'foff', 'tlen'])
            if which == 'src':
                p['src'] = rng.choice([s for s in SOURCES if s != p['src']])
            elif which == 'time':
                p['ts'][0] += rng.choice([1, 1000])
            elif which == 'seq':
                p['ts'][1] += 1
            elif which == 'fragbit':
                p['flags'] ^= A.F_FRAG
                if p['flags'] & A.F_FRAG:
                    p['foff'], p['tlen'] = rng.choice([0, 3]), 9
            elif which == 'foff':
                p['flags'] |= A.F_FRAG
                p['foff'] = p.get('foff', 0) + 2
                p['tlen'] = max(p.get('tlen', 0), 9)
            else:
                p['flags'] |= A.F_FRAG
                p['tlen'] = max(p.get('tlen', 0), 9) + 1
    else:
        src = A.NODE if mode == 'own' else rng.choice(SOURCES)
        p = A.mk_pri(rng.choice(DESTS), src, [A.T0 - rng.choice([0, 5, 5000]), rng.randrange(3)], flags=flags,
                     ct=rng.choice([0, 1, 2]), rpt=rng.choice(['none', RPT, RPT]))
        if mode == 'frag':
            p['flags'] |= A.F_FRAG
            p['tlen'] = 6
            p['foff'] = rng.choice([0, 0, 3])
    p['ct'] = rng.choice([0, 1, 2])
    if p['flags'] & A.F_FRAG:
        rem = max(p['tlen'] - p['foff'], 1)
        plen = rng.choice([rem, min(3, rem)])
        if mode == 'repeat' and rng.random() < 0.7:
            # a true repeat of a fragment has the same payload length (part of the identity)
            plen = len(base['blocks'][-1]['btsd']) // 2
        elif mode == 'alike' and which == 'tlen':
            # total length is not part of the identity: differ in the payload length instead half of the time
            plen = rng.choice([plen, plen + 1])
    else:
        plen = rng.randrange(1, 6)
    payload = bytes(rng.randrange(256) for _ in range(plen))
    blocks = []
    if rng.random() < 0.3:
        blocks.append(A.mk_blk(10, 2, A.enc([30, rng.randrange(5)]), ct=rng.choice([0, 1])))
    blocks.append(A.mk_blk(1, 1, payload, ct=rng.choice([0, 1, 2])))
    return {'pri': p, 'rpt_none': False, 'blocks': blocks}


def gen_history(rng, n):
    hist, items = [], []
    now = A.T0 + 10
    for _ in range(n):
        b = gen_bundle(rng, hist)
        crc_ok = True
        bad = None
        has_crc = [-1] if b['pri']['ct'] else []
        has_crc += [i for i, k in enumerate(b['blocks']) if k['ct']]
        if has_crc and rng.random() < 0.12:
            bad = rng.choice(has_crc)
            crc_ok = False
        data = A.enc_bundle(b, bad)
        now += rng.choice([0, 1, 7])
        items.append({'b': b, 'data': data, 'now': now, 'crc_ok': crc_ok})
        hist.append(b)
    return items


def long_history(rng):
    ''' The seen-identity memory must not forget: two bundles, then some 300 bundles with other new
    identities (more than any plausible bounded cache), then the first two again (same octets). '''
    act = rng.choice(['deliver', 'forward'])
    flags = rng.choice([0, A.F_DLV | A.F_FWD | A.F_RCV])
    items = []
    now = A.T0 + 10

    def add(src, t, seq):
        b = {'pri': A.mk_pri(A.dtn('//a/x'), src, [t, seq], flags=flags, rpt=RPT), 'rpt_none': False,
             'blocks': [A.mk_blk(1, 1, bytes([seq & 0xff, t & 0xff]))]}
        items.append({'b': b, 'data': A.enc_bundle(b), 'now': now + len(items), 'crc_ok': True})

    add(SOURCES[0], A.T0 - 7, 0)
    add(SOURCES[1], A.T0 - 7, 1)
    for i in range(rng.randrange(270, 330)):
        add(SOURCES[i % 3], A.T0 - 6 + i // 50, 10 + i)
    first = items[0], items[1]
    for it in first:
        items.append(dict(it, now=now + len(items)))
    return {'rx': [(r'.*', act)], 'tx': [(r'.*', None)], 'items': items}


def _item(b, now, **kw):
    it = {'b': b, 'data': A.enc_bundle(b), 'now': now, 'crc_ok': True}
    it.update(kw)
    return it


def blocked_queue_history(rng):
    ''' A forwarding attempt that fails (no transmit route for the destination at that moment) must not
    stand in the way of later bundles: A fails; optionally a route for A's destination appears (what
    peer_node_seen does); B to the same destination and C to a routed one follow. '''
    flags = rng.choice([A.F_DEL | A.F_FWD | A.F_RCV, A.F_DEL, 0])
    now = A.T0 + 10

    def mk(dest, seq):
        return {'pri': A.mk_pri(A.dtn(dest), rng.choice(SOURCES), [A.T0 - 9, seq], flags=flags, rpt=RPT,
                        ct=rng.choice([0, 1, 2])), 'rpt_none': False,
                'blocks': [A.mk_blk(1, 1, bytes([seq, 7]))]}
    items = [_item(mk('//c/x', 40), now)]
    late = rng.random() < 0.6
    nxt = [('//c/x', 41), ('//a/x', 42), ('//c/y', 43)]
    rng.shuffle(nxt)
    for n, (dest, seq) in enumerate(nxt[:rng.choice([1, 2, 3])]):
        kw = {'add_tx': [(r'dtn://c/.*', None)]} if (late and n == 0) else {}
        items.append(_item(mk(dest, seq), now + 3 + n, **kw))
    return {'rx': [(r'.*', 'forward')], 'tx': [(r'dtn://a/.*', None), (r'dtn://rpt/.*', None)], 'items': items}


def embedded_history(rng):
    ''' A route pattern applies from the START of the destination (re.match): a destination that merely
    contains text an earlier route's pattern describes — another EID in its query or path — is routed by the
    first route that matches it from the start. '''
    me = rng.choice([(r'dtn://a/.*', '//a/inbox'), (r'dtn://node/.*', '//node/app'), (r'ipn:1\..*', 'ipn:1.2')])
    inner = me[1] if me[1].startswith('ipn:') else 'dtn:' + me[1]
    first = rng.choice(['deliver', 'delete'])
    rx = [(me[0], first), (r'.*', rng.choice(['forward', 'forward', 'deliver' if first == 'delete' else 'forward']))]
    dests = ['//c/relay?reply-to=' + inner, '//c/x/' + inner, '//ab/x#' + inner, '//b/' + inner + '/tail']
    items = []
    now = A.T0 + 10
    for n in range(rng.choice([1, 2, 3])):
        b = {'pri': A.mk_pri(A.dtn(rng.choice(dests)), rng.choice(SOURCES), [A.T0 - 9, 70 + n],
                             flags=rng.choice([0, A.F_DLV | A.F_FWD | A.F_DEL]), rpt=RPT), 'rpt_none': False,
             'blocks': [A.mk_blk(1, 1, bytes([n, 9]))]}
        items.append(_item(b, now + 2 * n))
    return {'rx': rx, 'tx': [(r'.*', None)], 'items': items}


def burst_history(rng):
    ''' Back-to-back arrivals: several bundles routed forward (and others) are received before the main loop
    goes idle; every one of them is then handed over. '''
    n = rng.choice([2, 3, 3, 5])
    items = []
    now = A.T0 + 10
    for k in range(n):
        dest = rng.choice(['//a/x', '//a/x', '//c/x', '//node/app'])
        b = {'pri': A.mk_pri(A.dtn(dest), rng.choice(SOURCES), [A.T0 - 9, 80 + k],
                             flags=rng.choice([0, A.F_FWD | A.F_RCV]), rpt=RPT, ct=rng.choice([0, 2])),
             'rpt_none': False, 'blocks': [A.mk_blk(1, 1, bytes([k, 3, 3]))]}
        items.append(_item(b, now + k, hold=(k < n - 1)))
    return {'rx': [(r'dtn://node/.*', 'deliver'), (r'.*', 'forward')], 'tx': [(r'.*', None)], 'items': items}


def acme_history(rng):
    ''' A bundle for the node's own administrative endpoint carrying an ACME record nobody expects: the
    administrative handler (receive chain order 30) records 'delete' on a bundle that still carries 'deliver'.
    The bundle must be finished once: one report at most. Followed by an ordinary bundle. '''
    request = rng.random() < 0.5
    flags = A.F_ADMIN | (0x20 if request else 0) | rng.choice([A.F_DLV | A.F_DEL, A.F_DEL, A.F_DLV | A.F_DEL | A.F_RCV])
    rec = A.enc([65536, {1: bytes(rng.randrange(256) for _ in range(4))}])
    b = {'pri': A.mk_pri(A.NODE, rng.choice(SOURCES), [A.T0 - 9, 50], flags=flags, rpt=RPT, ct=rng.choice([0, 2])),
         'rpt_none': False, 'blocks': [A.mk_blk(1, 1, rec)]}
    b2 = {'pri': A.mk_pri(A.dtn('//a/x'), SOURCES[0], [A.T0 - 9, 51], flags=A.F_FWD, rpt=RPT), 'rpt_none': False,
          'blocks': [A.mk_blk(1, 1, b'ok')]}
    now = A.T0 + 10
    return {'rx': [(r'dtn://a/.*', rng.choice(['forward', 'deliver']))], 'tx': [(r'.*', None)],
            'items': [_item(b, now, params={'adm': 'delete'}), _item(b2, now + 2)]}


def reasm_builder(items, ix):
    ''' structure of the bundle `Fragment._reassemble` re-injects: first fragment, flag cleared '''
    cur = items[ix]['b']['pri']
    for j in range(ix, -1, -1):
        p = items[j]['b']['pri']
        if (p['flags'] & A.F_FRAG) and p['foff'] == 0 and p['src'] == cur['src'] and p['ts'] == cur['ts'] \
                and items[j]['crc_ok']:
            q = dict(p)
            q['flags'] &= ~A.F_FRAG
            q['ct'] = 0
            q['crc'] = None
            q['foff'] = q['tlen'] = 0
            blocks = [dict(k, ct=0, crc=None) for k in items[j]['b']['blocks']]
            return {'pri': q, 'rpt_none': False, 'blocks': blocks}
    return None


def expected_action(routes, dest_text):
    ''' the property text: first receive route whose pattern matches the destination '''
    if dest_text == A.NODE_TEXT:
        return 'deliver'
    for (pat, act) in routes:
        if re.compile(pat).match(dest_text) is not None:
            return act
    return None


def classify_tx(hexes):
    fw, rp = [], []
    for h in hexes:
        d = A.dec_bundle(bytes.fromhex(h))
        if (d.pri['flags'] & A.F_ADMIN) and d.pri['src'] == A.NODE:
            rp.append(d)
        else:
            fw.append(d)
    return fw, rp


def monitors(chk, case, items, obs):
    ''' at most once per identity; first match; admin endpoint; no route ⇒ nothing '''
    routes, tx_routes = case['rx'], list(case['tx'])
    accepted = set()
    reported = {}        # report subject (source, timestamp) -> number of status reports seen on the wire
    assigned = set()     # numbers the agent gave to blocks it added in earlier forwards
    attempts = 0         # earlier idle _do_fwd runs in this history
    by_item = {}
    for o in obs:
        by_item.setdefault(o['item'], []).append(o)
    for ix, it in enumerate(items):
        win = by_item.get(ix, [])
        p = it['b']['pri']
        tx_routes = tx_routes + [tuple(r) for r in it.get('add_tx', [])]     # routes that appeared by now
        main = [o for o in win if not o.get('reasm')]
        ndel = sum(len(o['delivered']) for o in main)
        txs = [h for o in main for h in o['tx'] + o.get('frag_tx', [])]
        fw, rp = classify_tx(txs)
        idt = A.ident_of(p, it['b']['blocks'])
        dest = A.eid_text(p['dest'])
        own = A.eid_text(p['src']) == A.NODE_TEXT
        if (not it['crc_ok']) or own or idt in accepted:
            chk.count('mon:ignored')
            if ndel or txs:
                chk.violation('C10:repeat-or-own-source-acted-on',
                              'bundle %s (crc_ok=%s own=%s repeat=%s) caused %d deliveries, %d transmissions'
                              % (idt, it['crc_ok'], own, idt in accepted, ndel, len(txs)), case)
        else:
            accepted.add(idt)
            act = expected_action(routes, dest)
            chk.count('mon:action:%s' % act)
            frag = bool(p['flags'] & A.F_FRAG)
            want_del = 1 if (act == 'deliver' and not frag) else 0
            has_tx = any(re.compile(pt).match(dest) is not None for (pt, _m) in tx_routes)
            want_fw = 1 if (act == 'forward' and has_tx) else 0
            # numbers assigned during an earlier forwarding attempt stick even when that attempt sent nothing
            # (no transmit route): then they cannot be read off the wire; any extension block may clash
            clash = [k['n'] for k in it['b']['blocks'] if k['n'] in assigned or (attempts and k['n'] != 1)]
            if want_fw == 1 and not fw and not ndel and clash:
                chk.violation('C10:forward-dropped-block-number-collision',
                              'bundle %s routed forward (TX route present) was dropped: its block number(s) %s equal '
                              'numbers the agent assigned to the blocks it added to an EARLIER forwarded bundle '
                              '(the number sticks in a class-level scapy dict), add_block raises, delete/NO_ROUTE'
                              % (idt, clash), case)
            elif (ndel != want_del or len(fw) != want_fw) and want_fw == 1 and not fw and not ndel \
                    and not any(o['k'] == 'fwd' for o in main) and any(j.get('hold') for j in items):
                chk.violation('C10:queued-forward-never-attempted',
                              'bundle %s routed forward (TX route present) was queued but no idle _do_fwd ever ran for '
                              'it (burst of back-to-back arrivals: %s)' % (idt, [bool(j.get('hold')) for j in items]),
                              case)
            elif (ndel != want_del or len(fw) != want_fw) and dest != A.NODE_TEXT and act != next(
                    (a for (pt, a) in routes if re.compile(pt).search(dest) is not None), None):
                chk.violation('C10:route-matched-inside-destination',
                              'dest %s routes %s: the first route matching from the start says %s, saw deliver=%d '
                              'forward=%d — the action of a route whose pattern only occurs INSIDE the destination'
                              % (dest, routes, act, ndel, len(fw)), case)
            elif ndel != want_del or len(fw) != want_fw:
                chk.violation('C10:first-match-action-not-taken',
                              'dest %s routes %s: expected %s (deliver=%d forward=%d), saw deliver=%d forward=%d'
                              % (dest, routes, act, want_del, want_fw, ndel, len(fw)), case)
            if len(rp) > 1:
                chk.violation('C10:more-than-one-report', 'identity %s reported %d times' % (idt, len(rp)), case)
            # what is handed over while this bundle is processed is this bundle
            strangers = [A.ident_of(d.pri, d.blocks) for d in fw if A.ident_of(d.pri, d.blocks) != idt]
            if strangers:
                chk.violation('C10:other-bundle-forwarded-instead',
                              'while %s was processed the node transmitted %s' % (idt, strangers), case)
        for d in rp:
            subj = A.report_subject(d)
            key = json.dumps(subj)
            reported[key] = reported.get(key, 0) + 1
            if subj is not None and subj != (A.eid_text(p['src']), list(p['ts'])):
                chk.violation('C10:report-about-another-bundle',
                              'while %s was processed a status report about %s was sent' % (idt, subj), case)
            # a report names source + timestamp only: fragments and look-alikes of one bundle share a subject,
            # so the bound is the number of accepted identities with that source + timestamp
            bound = len([i for i in accepted if subj is not None and i[0] == subj[0] and list(i[1:3]) == subj[1]])
            if reported[key] > max(bound, 1):
                chk.violation('C10:more-than-one-report', 'subject %s reported %d times over the history, %d '
                              'identities with that source and timestamp were accepted' % (subj, reported[key], bound),
                              case)
        if any(o['k'] == 'fwd' for o in main):
            attempts += 1
        for d in fw:
            for k in d.blocks:
                if k['t'] in (6, 7) and not any(r['n'] == k['n'] and r['t'] == k['t'] and r['btsd'] == k['btsd']
                                                for r in it['b']['blocks']):
                    assigned.add(k['n'])
        for o in win:
            if o.get('reasm'):
                rid = idt[:3]
                if rid in accepted:
                    if o['delivered'] or o['tx']:
                        chk.violation('C10:repeat-or-own-source-acted-on',
                                      'reassembled %s repeats a seen identity yet was acted on' % (rid,), case)
                else:
                    accepted.add(rid)
                    chk.count('mon:reassembled')
                    if len(o['delivered']) != 1:
                        chk.violation('C10:first-match-action-not-taken',
                                      'reassembled bundle %s not delivered' % (rid,), case)
    return accepted


def run_case(chk, case):
    fix = A.Fixture(case['rx'], case['tx'])
    items = case['items']
    for it in items:
        it.setdefault('data', A.enc_bundle(it['b'], it.get('bad')))
    # attach the re-injected bundle description lazily
    for ix, it in enumerate(items):
        if it['b']['pri']['flags'] & A.F_FRAG:
            it['reasm_b'] = reasm_builder(items, ix)
    events, obs = A.run_real(fix, items)
    return fix, events, obs


def case_json(case):
    return {'rx': case['rx'], 'tx': case['tx'],
            'items': [dict({'b': it['b'], 'data': it['data'].hex(), 'now': it['now'], 'crc_ok': it['crc_ok']},
                           **{k: it[k] for k in ('add_tx', 'params', 'hold') if k in it}) for it in case['items']]}


def check_batch(chk, batch):
    reqs = [A.model_request(c['rx'], ev) for (c, ev, _o, _f) in batch]
    answers = chk.driver(reqs)
    for (case, events, obs, seen), ans in zip(batch, answers):
        diffs = A.compare(events, obs, ans)
        if 'error' not in ans:
            mseen = sorted(A.ident_json(i) for i in ans['seen'])
            if mseen != seen:
                diffs.append('seen set: model %s real %s' % (mseen, seen))
        cj = case_json(case)
        if diffs:
            chk.corr_break('; '.join(diffs[:4]), cj)
        chk.cov['traces_validated_against_impl'] += 1
        monitors(chk, cj, case['items'], obs)
        nontrivial = any(o['delivered'] or o['tx'] for o in obs)
        chk.case({'rx': case['rx'], 'n': len(case['items']), 'h': hash(json.dumps(cj, sort_keys=True))},
                 nontrivial=nontrivial, sample=nontrivial)
        for o in obs:
            chk.count('ev:%s' % o['k'])
        chk.count('history_len:%d' % len(case['items']))
        chk.count('routes:%d' % len(case['rx']))


def run(chk):
    chk.prove('DtnVerif.Props.C10')
    chk.cov['rule'] = ('directed histories: a failing forward followed by later forwards (a transmit route may '
                       'appear in between); an unexpected ACME record for the own endpoint (the admin handler '
                       'deletes a bundle that carries deliver); destinations that embed text matched by an earlier '
                       'route pattern (routing is anchored at the start); bursts of bundles received back-to-back '
                       'before any idle source fires; one long history per run (two bundles, ~300 other identities, the two again); '
                       'histories of 1..12 received bundles (fresh / exact repeats / look-alikes differing in one '
                       'identity component / fragments incl. complete sets that reassemble / own-source / bad CRC) '
                       'x random receive tables of 0..4 routes over a 12-pattern regex family; every history is '
                       'run through the real Agent (idle sources drained FIFO) and through the Lean model; '
                       'effects (deliveries, CL octets, scheduled sources, seen set) compared; monitors: at most '
                       'once, first match, admin endpoint, no-route-nothing')
    chk.assumptions += [
        'regular-expression matching is a parameter of the model: match bits are computed with Python re',
        'fragment reassembly, BPSec verification and administrative record handling are opaque chain steps '
        '(no security configuration; the reassembled bundle re-enters as a reception supplied by the harness)',
        'EIDs are generated in canonical text form (dtn://…, ipn:a.b, dtn:none)',
        'the delivery observable is a probe chain step at order 25 (the agent has no delivery callback)',
    ]
    rng = chk.rng
    n_cases = 400 if chk.tier == 'quick' else 12000
    batch = []
    for rec in A.corpus('C10'):
        r = rec['replay']
        case = {'rx': [tuple(x) for x in r['rx']], 'tx': [tuple(x) for x in r['tx']],
                'items': [dict(it, data=bytes.fromhex(it['data'])) for it in r['items']]}
        fix, events, obs = run_case(chk, case)
        batch.append((case, events, obs, fix.seen()))
    for _ in range(1 if chk.tier == 'quick' else 6):
        case = long_history(rng)
        fix, events, obs = run_case(chk, case)
        batch.append((case, events, obs, fix.seen()))
        chk.count('long-history')
    directed = [('failed-forward-then-more', blocked_queue_history), ('acme-rejected', acme_history),
                ('destination-embeds-earlier-pattern', embedded_history), ('burst', burst_history)]
    for i in range(24 if chk.tier == 'quick' else 600):
        (name, gen) = directed[i % len(directed)]
        case = gen(rng)
        fix, events, obs = run_case(chk, case)
        batch.append((case, events, obs, fix.seen()))
        chk.count('directed:%s' % name)
    for i in range(n_cases):
        n = rng.choice([1, 2, 3, 4, 6, 8, 12]) if i % 7 else 12
        tx = [('.*', None)] if rng.random() < 0.85 else [(r'dtn://a/.*', None), (r'dtn://rpt/.*', None)]
        case = {'rx': gen_table(rng), 'tx': tx, 'items': gen_history(rng, n)}
        fix, events, obs = run_case(chk, case)
        batch.append((case, events, obs, fix.seen()))
        if len(batch) >= 100:
            check_batch(chk, batch)
            batch = []
    if batch:
        check_batch(chk, batch)


def replay(chk, path):
    rec = json.load(open(path))
    case = rec.get('replay', rec)
    case = {'rx': [tuple(r) for r in case['rx']], 'tx': [tuple(t) for t in case['tx']],
            'items': [dict(it, data=bytes.fromhex(it['data'])) for it in case['items']]}
    fix, events, obs = run_case(chk, case)
    ans = chk.driver([A.model_request(case['rx'], events)])[0]
    print('observations:')
    for o in obs:
        print('  ', json.dumps(o))
    print('model/impl differences:', A.compare(events, obs, ans))
    monitors(chk, case_json(case), case['items'], obs)
    for v in chk.violations:
        print('VIOLATION %s: %s' % (v['signature'], v['what']))
    return 1 if chk.violations else 0
