''' C17 — TCPCL answers out-of-place peer messages without corrupting state. '''
import itertools
import json

import tcpcl_sim as ts
import tcpcl_scen as sc
import tcpcl_monitors as tm
import tcpcl_util as tu

MODULE = 'DtnVerif.Props.C17'

STATES = ['pre_contact', 'in_contact', 'established', 'mid_rx', 'mid_tx', 'await_ack', 'two_tx', 'terminating', 'term_queued', 'queued_second']


class Adversary(object):
    ''' The endpoint under test X against a scripted peer (this object). '''

    def __init__(self, rng, passive, cfg):
        self.rng = rng
        self.sim = ts.Sim(cfg if not passive else {}, cfg if passive else {})
        self.x = self.sim.b if passive else self.sim.a
        self.x.popped = {}
        self.passive = passive
        self.seen = 0           # frames of X's wire already answered
        self.peer_in_sess = False
        self.acked = {}
        self.injected = []
        self.cum = {}
        self.peer_keepalive = 0
        self.peer_flags = rng.choice([0, 0, 1, 1, 3, 0x81])     # CAN_TLS and reserved bits offered by the peer: X has TLS disabled

    def feed(self, data, cut=None):
        if self.x.closed():
            return
        src = [s for s in self.x.sources('io') if s.cond == ts.GLib.IO_IN]
        if not src:
            return
        if cut and 0 < cut < len(data):
            self.sim.rx_bytes(self.x, data[:cut])
            if not self.x.closed():
                self.sim.rx_bytes(self.x, data[cut:])
        else:
            self.sim.rx_bytes(self.x, data)

    def send(self, m):
        self.feed(tu.rfc_encode(m))

    def drain(self, limit=400):
        ''' run X's internal events (pq, pump) until none is enabled '''
        n = 0
        while n < limit:
            en = [k for k in self.sim.enabled(self.x) if k in ('pq', 'pump')]
            if not en:
                break
            k = self.rng.choice(en)
            if k == 'pq':
                self.sim.pq(self.x)
            else:
                self.sim.pump(self.x, ts.CHUNK)
            n += 1

    def frames(self):
        return tm.wire_frames(self.x)[1]

    def coop(self, ack=True, reply_term=True):
        ''' answer X's new messages the way a conformant peer would '''
        self.drain()
        fr = self.frames()
        for m in fr[self.seen:]:
            k = m['k']
            if k == 'contact' and not self.passive:
                self.send({'k': 'contact', 'flags': self.peer_flags})
            elif k == 'sess_init' and not self.passive:
                self.send({'k': 'sess_init', 'keepalive': self.peer_keepalive, 'seg_mru': 2 ** 64 - 1, 'xfer_mru': 2 ** 64 - 1, 'node': b'dtn://peer/'.hex(), 'ext': ''})
            elif k == 'xfer_segment' and ack:
                if m['flags'] & 2:
                    self.cum[m['tid']] = 0
                self.cum[m['tid']] = self.cum.get(m['tid'], 0) + len(m['data']) // 2
                self.send({'k': 'xfer_ack', 'flags': m['flags'], 'tid': m['tid'], 'len': self.cum[m['tid']]})
            elif k == 'sess_term' and reply_term and not (m['flags'] & 1):
                self.send({'k': 'sess_term', 'flags': 1, 'reason': m['reason']})
        self.seen = len(fr)
        self.drain()

    def to_state(self, state, early=None):
        ''' bring X into `state` cooperatively; returns False when not reachable.
        `early`: a bundle the application queues before any session exists. '''
        x, sim = self.x, self.sim
        sim.start(x)
        if early is not None:
            sim.send(x, early)
            self.own = [early]
        if state == 'pre_contact':
            self.drain()
            return True
        if self.passive:
            self.send({'k': 'contact', 'flags': self.peer_flags})
        self.coop()
        if state == 'in_contact':
            return True
        if self.passive:
            self.send({'k': 'sess_init', 'keepalive': self.peer_keepalive, 'seg_mru': 2 ** 64 - 1, 'xfer_mru': 2 ** 64 - 1, 'node': b'dtn://peer/'.hex(), 'ext': ''})
        self.coop()
        self.coop()
        if x.h._state != 'established':
            return False
        if state == 'established':
            return True
        if state == 'mid_rx':
            self.send({'k': 'xfer_segment', 'flags': 2, 'tid': 7, 'ext': tu.ext_blob([(0, 1, (10).to_bytes(8, 'big'))]).hex(), 'data': b'abcde'.hex()})
            self.drain()
            self.seen = len(self.frames())
            return True
        if state in ('mid_tx', 'await_ack'):
            sim.send(x, bytes(range(30)))
            self.own = [bytes(range(30))]
            if state == 'mid_tx':
                sim.pq(x)          # first segment only
                self.seen = len(self.frames())
            else:
                self.drain()
                self.seen = len(self.frames())   # segments seen but deliberately not yet acknowledged
                self.unacked = [m for m in self.frames() if m['k'] == 'xfer_segment']
            return True
        if state == 'two_tx':
            # transfer 1 completely sent and unacknowledged, transfer 2 in the middle of its segments
            sim.send(x, bytes(range(30)))
            self.drain()
            sim.send(x, bytes(range(100, 125)))
            sim.pq(x)
            self.own = [bytes(range(30)), bytes(range(100, 125))]
            self.seen = len(self.frames())
            return True
        if state == 'terminating':
            sim.terminate(x, 0)
            self.drain()
            self.seen = len(self.frames())
            return True
        if state == 'queued_second':
            # transfer 1 in the middle of its segments, transfer 2 queued behind it and not started
            sim.send(x, bytes(range(30)))
            sim.pq(x)
            sim.send(x, bytes(range(100, 125)))
            self.own = [bytes(range(30)), bytes(range(100, 125))]
            self.seen = len(self.frames())
            return True
        if state == 'term_queued':
            # transfer 1 in the middle of its segments, transfer 2 queued and never started, then termination:
            # transfer 2 is reported as not sent and forgotten; the peer may still name its id
            sim.send(x, bytes(range(30)))
            sim.pq(x)
            sim.send(x, bytes(range(100, 125)))
            sim.terminate(x, 0)
            self.own = [bytes(range(30))]
            self.seen = len(self.frames())
            return True
        return False


def adversarial_msgs():
    ''' syntactically valid messages that are out of place in one state or another '''
    ext = tu.ext_blob([(0, 1, (5).to_bytes(8, 'big'))]).hex()
    return [
        ('seg_start', {'k': 'xfer_segment', 'flags': 3, 'tid': 9, 'ext': ext, 'data': b'hello'.hex()}),
        ('seg_nostart_unknown', {'k': 'xfer_segment', 'flags': 0, 'tid': 4242, 'ext': '', 'data': b'zz'.hex()}),
        ('seg_end_unknown', {'k': 'xfer_segment', 'flags': 1, 'tid': 4243, 'ext': '', 'data': b''.hex()}),
        ('ack_unknown', {'k': 'xfer_ack', 'flags': 1, 'tid': 999, 'len': 5}),
        ('ack_unknown_mid', {'k': 'xfer_ack', 'flags': 0, 'tid': 999, 'len': 5}),
        ('ack_own_end_early', {'k': 'xfer_ack', 'flags': 1, 'tid': 1, 'len': 3}),
        ('refuse_unknown', {'k': 'xfer_refuse', 'reason': 2, 'tid': 999}),
        ('refuse_own', {'k': 'xfer_refuse', 'reason': 3, 'tid': 1}),
        ('refuse_second', {'k': 'xfer_refuse', 'reason': 2, 'tid': 2}),
        ('ack_second_end', {'k': 'xfer_ack', 'flags': 1, 'tid': 2, 'len': 25}),
        ('ack_second_mid', {'k': 'xfer_ack', 'flags': 0, 'tid': 2, 'len': 5}),
        ('sess_term', {'k': 'sess_term', 'flags': 0, 'reason': 1}),
        ('sess_term_reply', {'k': 'sess_term', 'flags': 1, 'reason': 0}),
        ('keepalive', {'k': 'keepalive'}),
        ('msg_reject', {'k': 'msg_reject', 'rej_id': 1, 'reason': 3}),
        ('sess_init_again', {'k': 'sess_init', 'keepalive': 5, 'seg_mru': 100, 'xfer_mru': 100, 'node': b'dtn://other/'.hex(), 'ext': ''}),
    ]


RAW_CASES = [
    ('bad_magic', b'dtn?\x04\x00'),
    ('bad_version', b'dtn!\x03\x00\x00\x00\x00'),
    ('bad_version5', b'dtn!\x05\x00'),
    ('unknown_type', bytes([0x7f, 1, 2, 3])),
    ('unknown_type0', bytes([0x00])),
    ('bad_magic_then_good', b'dtn?\x04\x00' + b'dtn!\x04\x00'),
    ('bad_version_then_good', b'dtn!\x03\x00\x00\x00\x00' + b'dtn!\x04\x00'),
    ('bad_version5_then_good_and_init', b'dtn!\x05\x00' + b'dtn!\x04\x00' + bytes([7, 0, 0]) + (2 ** 64 - 1).to_bytes(8, 'big') * 2 + bytes([0, 0, 0, 0, 0, 0])),
]


def run_case(chk, rng, passive, state, seq, cuts):
    cfg = {'seg_init': 10}
    if rng.random() < 0.3:
        cfg['modulate'] = rng.choice([0.001, 1.0])     # adaptive segment size: ACK handling has more to do
    adv = Adversary(rng, passive, cfg)
    x, sim = adv.x, adv.sim
    early = bytes(range(20)) if state in ('pre_contact', 'in_contact') and rng.random() < 0.5 else None
    if not adv.to_state(state, early=early):
        return None
    mark = len(sim.log)
    wire_before = len(adv.frames())
    adv.blame = []
    for (name, m) in seq:
        if x.closed():
            break
        data = m if isinstance(m, bytes) else tu.rfc_encode(m)
        if isinstance(m, bytes) and state != 'pre_contact' and name.startswith('bad_'):
            continue
        n0 = len(x.obs)
        adv.feed(data, cut=rng.choice(cuts) if cuts else None)
        adv.drain()
        for o in x.obs[n0:]:
            if o.get('escaped'):
                adv.blame.append((o['escaped'], 'precontact' if state == 'pre_contact' else name))
    # afterwards behave: acknowledge everything X sent, let it finish
    own = getattr(adv, 'own', [])
    if not x.closed() and state in ('mid_tx', 'await_ack', 'two_tx', 'term_queued', 'queued_second'):
        for m in getattr(adv, 'unacked', []):
            pass
        adv.seen = 0
        adv.cum = {}
        # re-answer from the start but only ACK segments (contact/init already done)
        fr = adv.frames()
        adv.seen = len(fr)
        for m in fr:
            if m['k'] == 'xfer_segment':
                if m['flags'] & 2:
                    adv.cum[m['tid']] = 0
                adv.cum[m['tid']] = adv.cum.get(m['tid'], 0) + len(m['data']) // 2
                if state == 'await_ack' or True:
                    adv.send({'k': 'xfer_ack', 'flags': m['flags'], 'tid': m['tid'], 'len': adv.cum[m['tid']]})
        for _ in range(10):
            adv.coop()
    elif early is not None and not x.closed():
        # the peer now completes the hand-shake properly and acknowledges: the early bundle must go through
        init = {'k': 'sess_init', 'keepalive': 0, 'seg_mru': 2 ** 64 - 1, 'xfer_mru': 2 ** 64 - 1, 'node': b'dtn://peer/'.hex(), 'ext': ''}
        if passive:
            if state == 'pre_contact':
                adv.send({'k': 'contact', 'flags': 0})
            adv.coop()
            if not x.closed() and x.h._state != 'established':
                adv.send(init)
        for _ in range(12):
            adv.coop()
    else:
        for _ in range(3):
            adv.coop()
    if not x.closed():
        for q in ('idle', 'txq', 'rxq'):
            sim.query(x, q)
    return adv, mark, wire_before, own


def judge(chk, adv, mark, wire_before, own, label, seqnames, state):
    sim, x = adv.sim, adv.x
    bad = []
    for (cls, name) in adv.blame:
        bad.append(('C17:escape-%s-on-%s' % (cls, name),
                    'exception %s escapes a callback when the peer sends %s in state %s (sequence %s)' % (cls, name, state, seqnames)))
    blamed = len(adv.blame)
    for (i, who, ev, cls) in tm.escapes(sim):
        if who == x.name and not blamed:
            bad.append(('C17:escape-%s-%s' % (cls, ev['e']), 'exception %s escapes the %s callback (sequence %s, state %s)' % (cls, ev['e'], seqnames, state)))
    # nothing assembled from mismatched transfers
    for (_i, _n, a) in tm.signals(sim, x.name, 'recv_bundle_finished'):
        tid = int(tm.arg(a[0]))
        if tid in (4242, 4243):
            bad.append(('C17:delivered-mismatched-transfer', 'endpoint delivered data for transfer %d which never started' % tid))
    # ... stated independently: what X reports as received is what an ideal receiver (written from the
    # property text: a START opens a transfer, a later segment extends it only if its id matches, END
    # completes it, everything else is ignored) reconstructs from the octets X was given
    try:
        fed = b''.join(bytes.fromhex(e['data']) for e in x.events if e.get('e') == 'rx')
        frames_in = [m for (m, _end) in tu.rfc_frames(fed)[0]]
    except ValueError:
        frames_in = None
    if frames_in is not None:
        in_sess, cur, done = False, None, []
        for m in frames_in:
            if m['k'] == 'sess_init':
                in_sess = True
            elif m['k'] == 'xfer_segment' and in_sess:
                if m['flags'] & 2:
                    cur = [m['tid'], b'']
                elif cur is None or cur[0] != m['tid']:
                    continue
                cur[1] += bytes.fromhex(m['data'])
                if m['flags'] & 1:
                    done.append((cur[0], cur[1]))
                    cur = None
        got = [(int(tm.arg(a[0])), int(tm.arg(a[1]))) for (_i, _n, a) in tm.signals(sim, x.name, 'recv_bundle_finished')]
        want = [(t, len(d)) for (t, d) in done]
        if got != want[:len(got)] or (not x.closed() and got != want):
            bad.append(('C17:delivered-differs-from-ideal-receiver',
                        'endpoint reports received transfers %s, the octets it was given carry %s (sequence %s, state %s)' % (got[:4], want[:4], seqnames, state)))
        else:
            last = {}
            for (t, d) in done[:len(got)]:
                last[t] = d
            for t, d in last.items():
                try:
                    have = bytes(x.h.recv_bundle_pop_data(str(t)))
                except Exception:
                    continue
                if have != d:
                    bad.append(('C17:delivered-data-mismatched', 'transfer %d delivered with %d octets differing from what was sent for it' % (t, len(have))))
    # own transfers unaffected (unless the peer legitimately refused them or terminated the session)
    refused = any(n in ('refuse_own', 'ack_own_end_early', 'sess_term', 'sess_term_reply', 'sess_init_again') for n in seqnames)
    if state in ('two_tx', 'queued_second') and any(n in ('refuse_second', 'ack_second_end') for n in seqnames):
        refused = True          # transfer 2 exists there: the peer may refuse it / acknowledge it early
    if 'refuse_second' in seqnames and state in ('two_tx', 'queued_second', 'term_queued') and not any(
            n in ('sess_term', 'sess_term_reply', 'sess_init_again') for n in seqnames):
        # a refused transfer is over: nothing of it may be written after the refusal was processed
        fed_at = None
        for i2, (who2, ev2, _o2) in enumerate(sim.log):
            # the read which carries the refusal OF TRANSFER 2 (XFER_REFUSE: type 03, reason, 8-octet transfer id) —
            # an earlier refusal of some other id says nothing about transfer 2
            d2 = ev2.get('data', '')
            if who2 == x.name and ev2.get('e') == 'rx' and d2.startswith('03') and d2[4:20] == '%016x' % 2:
                fed_at = i2
                break
        if fed_at is not None:
            late = b''.join(bytes.fromhex(o2['wire']) for (who2, _e2, o2) in sim.log[fed_at + 1:] if who2 == x.name)
            before = b''.join(bytes.fromhex(o2['wire']) for (who2, _e2, o2) in sim.log[:fed_at + 1] if who2 == x.name)
            try:
                nb = len(tu.rfc_frames(before)[0])
                allf = [m for (m, _e) in tu.rfc_frames(before + late)[0]]
                if state == 'queued_second' and any(m['k'] == 'xfer_segment' and m['tid'] == 2 for m in allf[nb:]):
                    bad.append(('C17:refused-transfer-sent-anyway', 'transfer 2 was refused while still queued and its segments were written afterwards'))
            except ValueError:
                pass
    if state in ('pre_contact', 'in_contact'):
        # before the session exists none of these is legitimate: they are rejected and change nothing
        # (a SESS_INIT in the sequence establishes the session: what follows it can be legitimate)
        est = seqnames.index('sess_init_again') if 'sess_init_again' in seqnames else len(seqnames)
        refused = x.h._state != 'established' or any(
            n in ('refuse_own', 'ack_own_end_early', 'sess_term', 'sess_term_reply', 'sess_init_again') for n in seqnames[est + 1:])
    if own and not refused and not x.closed():
        succ = [int(tm.arg(a[0])) for (_i, _n, a) in tm.signals(sim, x.name, 'send_bundle_finished') if tm.arg(a[2]) == 'success']
        if sorted(succ) != list(range(1, len(own) + 1)):
            bad.append(('C17:own-transfer-affected-by-%s' % seqnames[0], 'own transfer did not complete after the peer sent %s in state %s (success for %s)' % (seqnames, state, succ)))
    if own and len(own) > 1 and 'refuse_own' in seqnames and not x.closed() and not any(
            n in ('sess_term', 'sess_term_reply', 'sess_init_again', 'refuse_second') for n in seqnames):
        # (a sequence which also refuses transfer 2 itself says nothing about the isolation of transfer 2)
        succ = [int(tm.arg(a[0])) for (_i, _n, a) in tm.signals(sim, x.name, 'send_bundle_finished') if tm.arg(a[2]) == 'success']
        if 2 not in succ:
            bad.append(('C17:other-transfer-affected-by-refuse', 'the peer refused transfer 1; transfer 2 (in progress) did not complete (success for %s)' % succ))
    # the D-Bus view stays consistent under adversarial input too
    for ep_bad in tm.mon_c18_queues(sim):
        bad.append((ep_bad[0].replace('C18:', 'C17:dbus-'), ep_bad[1]))
    return bad


def run(chk):
    chk.prove(MODULE)
    rng, tier = chk.rng, chk.tier
    chk.cov['rule'] = ('one real ContactHandler against a scripted peer: brought cooperatively into each of 7 session states (active and passive side), '
                       'then every sequence of out-of-place but syntactically valid messages up to length L (L=1 exhaustive in quick, 2 exhaustive in thorough, longer random), '
                       'optionally split across two reads, followed by a cooperative remainder; plus bad magic / bad version / unknown type octets; '
                       'a case = (side, state, sequence)')
    msgs = adversarial_msgs()
    cases = []
    for passive in (False, True):
        for state in STATES:
            for m in msgs:
                cases.append((passive, state, [m]))
            for r in RAW_CASES:
                if (state == 'pre_contact') == r[0].startswith('bad_'):
                    cases.append((passive, state, [r]))
    if tier == 'thorough':
        for passive in (False, True):
            for state in STATES:
                for pair in itertools.product(msgs, repeat=2):
                    cases.append((passive, state, list(pair)))
    n_rand = 60 if tier == 'quick' else 1500
    for _ in range(n_rand):
        cases.append((rng.random() < 0.5, rng.choice(STATES), [rng.choice(msgs) for _ in range(rng.choice([2, 3, 4]))]))
    sims = []
    for ci, (passive, state, seq) in enumerate(cases):
        res = run_case(chk, rng, passive, state, seq, cuts=[None, None, 1, 3] if ci % 3 == 0 else None)
        if res is None:
            chk.count('state-unreachable:' + state)
            continue
        adv, mark, wire_before, own = res
        names = [n for (n, _m) in seq]
        chk.case({'passive': passive, 'state': state, 'seq': names}, sample=(ci in (3, 40)))
        chk.count('state:' + state)
        for n in names:
            chk.count('msg:' + n)
        bad = judge(chk, adv, mark, wire_before, own, 'c17', names, state)
        for (sig, what) in bad:
            chk.violation(sig, what, {'passive': passive, 'state': state, 'seq': [(n, m.hex() if isinstance(m, bytes) else m) for (n, m) in seq],
                                      'x_cfg': adv.x.model_cfg(), 'x_events': adv.x.events})
        # model comparison for X only
        sims.append((adv, '%s %s %s' % ('passive' if passive else 'active', state, names)))
        if len(sims) >= 60:
            compare(chk, sims)
            sims = []
    compare(chk, sims)
    chk.assumptions += ['the peer is adversarial only in message order/ids, not in syntax (malformed octets are C07\'s malformed stream)',
                        'unknown message type octet: cannot be delimited, the connection is closed (response by closure)']


def compare(chk, advs):
    reqs = [ts.model_requests(a.x) for (a, _l) in advs]
    if not reqs:
        return
    try:
        outs = chk.driver(reqs)
    except Exception as err:
        chk.corr_break('model driver unavailable: %s' % str(err)[:200], {})
        return
    for out, (a, label) in zip(outs, advs):
        if 'trace' not in out:
            chk.corr_break('model rejected events: %s' % out, {'label': label})
            continue
        d = ts.diff_trace(a.x, out['trace'])
        chk.cov['traces_validated_against_impl'] += 1
        if d is not None:
            i, det = d
            chk.corr_break('X differs from model at event %d (%s)' % (i, label), {'cfg': a.x.model_cfg(), 'events': a.x.events[:i + 1], 'diff': det})


def replay(chk, path):
    print('replay: event list in', path)
    return 0
