''' C14 — TCPCL negotiates parameters correctly and keeps its timers. '''
import json

import tcpcl_sim as ts
import tcpcl_scen as sc
import tcpcl_monitors as tm
import tcpcl_util as tu

MODULE = 'DtnVerif.Props.C14'
INT32 = 2 ** 31 - 1


def session_params(ep):
    try:
        return dict(ep.h.get_session_parameters())
    except Exception as err:
        return {'error': repr(err)}


def mon_negotiation(sim, cfg_a, cfg_b):
    bad = []
    for x, cx, cy in ((sim.a, cfg_a, cfg_b), (sim.b, cfg_b, cfg_a)):
        if x.h._state not in ('established', 'ending'):
            continue
        p = session_params(x)
        want_ka = min(cx.get('keepalive', 0), cy.get('keepalive', 0))
        if p.get('keepalive') != want_ka:
            bad.append(('C14:keepalive-not-min', '%s negotiated keepalive %r, announced %s and %s' % (x.name, p.get('keepalive'), cx.get('keepalive', 0), cy.get('keepalive', 0))))
        peer = sim.peer(x)
        if p.get('peer_nodeid') != peer.cfg.get('node_id', 'dtn://%s/' % peer.name):
            bad.append(('C14:peer-nodeid-wrong', '%s reports peer node id %r' % (x.name, p.get('peer_nodeid'))))
        want_mru = min(INT32, cy.get('seg_mru', 10485760))
        if p.get('peer_segment_mru') != want_mru:
            bad.append(('C14:peer-segment-mru-wrong', '%s reports peer segment MRU %r, announced %s' % (x.name, p.get('peer_segment_mru'), cy.get('seg_mru', 10485760))))
        if p.get('peer_transfer_mru') != INT32:
            bad.append(('C14:peer-transfer-mru-wrong', '%s reports peer transfer MRU %r' % (x.name, p.get('peer_transfer_mru'))))
    return bad


def timer_scenario(rng, tier):
    cfg_a = sc.gen_cfg(rng, timers=True)
    cfg_b = sc.gen_cfg(rng, timers=True)
    cfg_a['seg_init'] = max(cfg_a['seg_init'], 7)
    cfg_b['seg_init'] = max(cfg_b['seg_init'], 7)
    sim = ts.Sim(cfg_a, cfg_b)
    for ep in sim.eps():
        ep.popped = {}
    sent = {'a': [], 'b': []}
    sim.start(sim.b)
    sim.start(sim.a)
    sim.run_quiescent(rng)
    bad = mon_negotiation(sim, cfg_a, cfg_b)
    meta = {'cfg_a': cfg_a, 'cfg_b': cfg_b, 'rounds': 0, 'ka_fired': 0, 'idle_fired': 0}
    rounds = rng.choice([3, 6, 10]) if tier == 'quick' else rng.choice([6, 12, 25])
    wire_times = {'a': [], 'b': []}      # virtual time of every octet-bearing pump
    for _ in range(rounds):
        if all(ep.closed() for ep in sim.eps()):
            break
        meta['rounds'] += 1
        deadlines = [s.deadline for ep in sim.eps() for s in ep.sources('timeout') if s.deadline is not None]
        c = rng.random()
        if deadlines and c < 0.75:
            tgt = min(deadlines) + rng.choice([-1, 0, 0, 1])
            dt = max(0, tgt - ts.LOOP.now)
        else:
            dt = rng.choice([1, 500, 999, 1000, 1001, 2500])
        sim.advance(dt)
        # traffic exactly around the deadline now and then
        if rng.random() < 0.3:
            who = rng.choice(sim.eps())
            if not who.closed() and who.h._state == 'established':
                d = sc.gen_bundle(rng, 10, big_ok=False)
                sim.send(who, d)
                sent[who.name].append(d)
        # fire everything that is due (timely schedule), then drain
        for _k in range(50):
            due = [(ep, t) for ep in sim.eps() for t in sim.due_timers(ep)]
            if not due:
                break
            ep, t = rng.choice(due)
            n0 = len(bytes(ep.sock.sent)) + ep.h.send_buffer_used()
            term_before = ep.h._in_term
            sim.timer(ep, t)
            meta['ka_fired' if t == 'ka' else 'idle_fired'] += 1
            fr = tm.wire_frames(ep)[1]
            if ep.obs[-1].get('escaped'):
                bad.append(('C14:timer-escape-%s-%s' % (t, ep.obs[-1]['escaped']), '%s timer callback raised %s (terminating=%s)' % (t, ep.obs[-1]['escaped'], term_before)))
            elif t == 'idle':
                if term_before:
                    if not ep.closed():
                        bad.append(('C14:idle-while-terminating-not-closed', 'idle time elapsed on terminating %s and it did not close' % ep.name))
                sim.run_quiescent(rng)
                fr = tm.wire_frames(ep)[1]
                terms = [m for m in fr if m['k'] == 'sess_term']
                if not term_before and not (terms and terms[0]['reason'] == 1 and not terms[0]['flags'] & 1) and not ep.closed():
                    bad.append(('C14:idle-timeout-no-sess-term', 'idle time elapsed on %s without SESS_TERM(idle-timeout)' % ep.name))
            elif t == 'ka':
                sim.run_quiescent(rng)
                fr2 = tm.wire_frames(ep)[1]
                if not any(m['k'] == 'keepalive' for m in fr2) and not ep.closed():
                    bad.append(('C14:keepalive-not-sent', 'keepalive interval elapsed on %s and no KEEPALIVE was written' % ep.name))
        sim.run_quiescent(rng)
    # adaptive segment size: arbitrary controller inputs, the clamp must hold
    for ep in sim.eps():
        if ep.closed() or ep.h._state != 'established':
            continue
        peer_mru = sim.peer(ep).cfg.get('seg_mru', 10485760)
        for _ in range(5):
            db = rng.choice([0, 1, 10, 1000, 10 ** 6, 10 ** 9])
            dt = rng.choice([1e-9, 1e-6, 1e-3, 0.5, 10.0, 1e6])
            ep.h._config.modulate_target_ack_time = rng.choice([0.001, 0.1, 1, 100])
            esc = None
            try:
                ep.h._modulate_tx_seg_size(db, dt)
            except Exception as err:
                esc = type(err).__name__
            ep._modulated = False     # recorded explicitly just below
            new = ep.h._send_segment_size
            ep.record({'e': 'modulate', 'raw': int(new)}, ep._collect(esc=esc))
            ep.h._config.modulate_target_ack_time = None
            if new > peer_mru:
                bad.append(('C14:segment-size-exceeds-mru', 'controller set segment size %d above the peer MRU %d (delta_b=%s delta_t=%s)' % (new, peer_mru, db, dt)))
        if rng.random() < 0.7:
            d = sc.gen_bundle(rng, 10, big_ok=False) + bytes(50)
            sim.send(ep, d)
            sent[ep.name].append(d)
    sim.run_quiescent(rng)
    bad += [b for b in tm.mon_c04(sim) if b[0] == 'C04:segment-exceeds-mru']
    return sim, sent, meta, bad


def silent_peer_scenario(rng, passive, idle, keepalive, peer_ka=0, outstanding=False):
    ''' X established against a peer that then falls silent: idle time elapses (SESS_TERM idle-timeout),
    nothing is heard, idle time elapses again: X must end by closing. '''
    from props import c17
    adv = c17.Adversary(rng, passive, {'seg_init': 10, 'idle': idle, 'keepalive': keepalive})
    adv.peer_keepalive = peer_ka
    x, sim = adv.x, adv.sim
    bad = []
    if not adv.to_state('await_ack' if outstanding else 'established'):
        return adv, bad
    for phase in (1, 2):
        for _ in range(200):
            idle_src = x.sources('timeout', '_idle_timeout')
            if not idle_src or x.closed():
                break
            dl = min(s.deadline for s in x.sources('timeout'))
            sim.advance(max(0, dl - ts.LOOP.now))
            due = sim.due_timers(x)
            if not due:
                break
            t = 'idle' if 'idle' in due else due[0]
            sim.timer(x, t)
            if x.obs[-1].get('escaped'):
                bad.append(('C14:timer-escape-%s-%s' % (t, x.obs[-1]['escaped']),
                            '%s timer callback raised %s on an endpoint whose peer is silent (phase %d)' % (t, x.obs[-1]['escaped'], phase)))
                return adv, bad
            adv.drain()
            if t == 'idle':
                break
        if phase == 1:
            terms = [m for m in adv.frames() if m['k'] == 'sess_term']
            if not x.closed() and not (terms and terms[0]['reason'] == 1):
                bad.append(('C14:idle-timeout-no-sess-term', 'idle time elapsed with a silent peer and no SESS_TERM(idle-timeout) was written'))
    if not x.closed():
        bad.append(('C14:idle-while-terminating-not-closed', 'terminating endpoint heard nothing for another idle time and did not close'))
    return adv, bad


def chatty_peer_scenario(rng, passive, keepalive, period_ms):
    ''' X established with keepalive negotiated to `keepalive` s against a peer which sends a KEEPALIVE every
    `period_ms`, while X itself has nothing to send: whatever arrives, X must transmit a KEEPALIVE whenever
    `keepalive` s have passed since its own last transmission. '''
    from props import c17
    adv = c17.Adversary(rng, passive, {'seg_init': 10, 'idle': 0, 'keepalive': keepalive})
    adv.peer_keepalive = keepalive
    x, sim = adv.x, adv.sim
    bad = []
    if not adv.to_state('established'):
        return adv, bad
    adv.drain()
    last_tx = ts.LOOP.now
    sent_before = len(x.sock.sent)
    next_peer = ts.LOOP.now + period_ms
    horizon = ts.LOOP.now + 6 * keepalive * 1000
    while ts.LOOP.now < horizon and not x.closed():
        dls = [s.deadline for s in x.sources('timeout')]
        nxt = min(dls + [next_peer])
        sim.advance(max(0, nxt - ts.LOOP.now))
        for t in sim.due_timers(x):
            sim.timer(x, t)
            if x.obs[-1].get('escaped'):
                bad.append(('C14:timer-escape-%s-%s' % (t, x.obs[-1]['escaped']), '%s timer raised %s under inbound traffic' % (t, x.obs[-1]['escaped'])))
                return adv, bad
        adv.drain()
        if len(x.sock.sent) > sent_before:
            sent_before = len(x.sock.sent)
            last_tx = ts.LOOP.now
        if ts.LOOP.now >= next_peer:
            adv.send({'k': 'keepalive'})
            adv.drain()
            next_peer = ts.LOOP.now + period_ms
        if ts.LOOP.now - last_tx > keepalive * 1000 and not x.closed():
            bad.append(('C14:keepalive-not-sent', 'nothing transmitted for %d ms (> negotiated keepalive %d s) while the peer sends a KEEPALIVE every %d ms'
                        % (ts.LOOP.now - last_tx, keepalive, period_ms)))
            break
    return adv, bad


def trickle_peer_scenario(rng, passive, idle, seglen, chunk, period_ms):
    ''' X established (idle time `idle` s, keepalive off) against a peer which delivers ONE long XFER_SEGMENT in
    pieces of `chunk` octets every `period_ms` (< idle time): octets keep arriving, so the idle time never elapses
    "with no traffic in either direction" and X must not start idle-timeout termination before the message is complete. '''
    from props import c17
    adv = c17.Adversary(rng, passive, {'seg_init': 10, 'idle': idle, 'keepalive': 0})
    x, sim = adv.x, adv.sim
    bad = []
    if not adv.to_state('established'):
        return adv, bad
    adv.drain()
    data = bytes(rng.getrandbits(8) for _ in range(seglen))
    msg = tu.rfc_encode({'k': 'xfer_segment', 'flags': 3, 'tid': 1, 'ext': tu.ext_blob([(0, 1, seglen.to_bytes(8, 'big'))]).hex(), 'data': data.hex()})
    pos = 0
    last_rx = ts.LOOP.now
    while pos < len(msg) and not x.closed():
        nxt = last_rx + period_ms
        while ts.LOOP.now < nxt and not x.closed():
            dls = [s.deadline for s in x.sources('timeout') if s.deadline is not None and s.deadline <= nxt]
            step_to = min(dls + [nxt])
            sim.advance(max(0, step_to - ts.LOOP.now))
            for t in sim.due_timers(x):
                sim.timer(x, t)
                adv.drain()
                terms = [m for m in adv.frames() if m['k'] == 'sess_term']
                if terms and not bad:
                    bad.append(('C14:idle-timeout-during-reception',
                                'SESS_TERM(reason %d) written %d ms after the last received octets (idle time %d s) while a message was arriving in pieces'
                                % (terms[0]['reason'], ts.LOOP.now - last_rx, idle)))
        if x.closed() or bad:
            break
        adv.feed(msg[pos:pos + chunk])
        pos += chunk
        last_rx = ts.LOOP.now
        adv.drain()
    if not bad and not x.closed():
        acks = [m for m in adv.frames() if m['k'] == 'xfer_ack']
        if len(acks) != 1:
            bad.append(('C14:trickled-segment-not-acknowledged', 'the segment delivered in pieces was acknowledged %d times' % len(acks)))
    return adv, bad


def keepalive_vs_idle_scenario(rng, passive, keepalive, idle):
    ''' X established with keepalive negotiated to `keepalive` s and idle time `idle` s > keepalive against a
    peer that stays silent: X's own KEEPALIVEs are traffic, so idle-timeout termination may only start when
    `idle` s have passed since the last octet written or read. '''
    from props import c17
    adv = c17.Adversary(rng, passive, {'seg_init': 10, 'idle': idle, 'keepalive': keepalive})
    adv.peer_keepalive = keepalive
    x, sim = adv.x, adv.sim
    bad = []
    if not adv.to_state('established'):
        return adv, bad
    adv.drain()
    last_traffic = ts.LOOP.now
    sent_before = len(x.sock.sent)
    horizon = ts.LOOP.now + 4 * idle * 1000
    while ts.LOOP.now < horizon and not x.closed():
        dls = [s.deadline for s in x.sources('timeout') if s.deadline is not None]
        if not dls:
            break
        sim.advance(max(0, min(dls) - ts.LOOP.now))
        for t in sim.due_timers(x):
            sim.timer(x, t)
            if x.obs[-1].get('escaped'):
                bad.append(('C14:timer-escape-%s-%s' % (t, x.obs[-1]['escaped']), '%s timer raised %s' % (t, x.obs[-1]['escaped'])))
                return adv, bad
            adv.drain()
            terms = [m for m in adv.frames() if m['k'] == 'sess_term']
            if terms and ts.LOOP.now - last_traffic < idle * 1000:
                bad.append(('C14:idle-timeout-despite-traffic',
                            'SESS_TERM(reason %d) written %d ms after the last octet was written (idle time %d s, keepalive %d s, silent peer)'
                            % (terms[0]['reason'], ts.LOOP.now - last_traffic, idle, keepalive)))
                return adv, bad
            if terms:
                return adv, bad
            if len(x.sock.sent) > sent_before:
                sent_before = len(x.sock.sent)
                last_traffic = ts.LOOP.now
    return adv, bad


def keepalive_backpressure_scenario(rng, passive, keepalive):
    ''' X established with keepalive negotiated to `keepalive` s. A message is queued and the socket does not
    take it (the peer is not reading) until after the keepalive interval has expired; from then on the peer
    reads normally and stays silent: X must go on sending a KEEPALIVE every interval. '''
    from props import c17
    adv = c17.Adversary(rng, passive, {'seg_init': 100000, 'idle': 0, 'keepalive': keepalive})
    adv.peer_keepalive = keepalive
    x, sim = adv.x, adv.sim
    bad = []
    if not adv.to_state('established'):
        return adv, bad
    adv.drain()
    sim.send(x, bytes(50000))      # more than one CHUNK: octets stay in the message-level buffer as well
    # idle sources run, the TX callback only ever hears "would block"
    for _ in range(20):
        if x.sources('idle', '_process_queue'):
            sim.pq(x)
        elif sim.tx_sources(x):
            sim.pump(x, 0)
            break
    t0 = ts.LOOP.now
    stalled_until = t0 + keepalive * 1000 + 2000
    while ts.LOOP.now < stalled_until and not x.closed():
        dls = [s.deadline for s in x.sources('timeout') if s.deadline is not None]
        nxt = min(dls + [stalled_until])
        sim.advance(max(0, nxt - ts.LOOP.now))
        for t in sim.due_timers(x):
            sim.timer(x, t)
            if x.obs[-1].get('escaped'):
                bad.append(('C14:timer-escape-%s-%s' % (t, x.obs[-1]['escaped']), '%s timer raised %s under back-pressure' % (t, x.obs[-1]['escaped'])))
                return adv, bad
        if sim.tx_sources(x):
            sim.pump(x, 0)
    adv.drain()                       # the peer reads again
    last_tx = ts.LOOP.now
    sent_before = len(x.sock.sent)
    horizon = ts.LOOP.now + 4 * keepalive * 1000
    while ts.LOOP.now < horizon and not x.closed():
        dls = [s.deadline for s in x.sources('timeout') if s.deadline is not None]
        nxt = min(dls + [ts.LOOP.now + 1000])
        sim.advance(max(0, nxt - ts.LOOP.now))
        for t in sim.due_timers(x):
            sim.timer(x, t)
        adv.drain()
        if len(x.sock.sent) > sent_before:
            sent_before = len(x.sock.sent)
            last_tx = ts.LOOP.now
        if ts.LOOP.now - last_tx > keepalive * 1000:
            bad.append(('C14:keepalive-not-sent', 'nothing written for %d ms (> keepalive %d s) after a keepalive interval had expired while the socket was not writable'
                        % (ts.LOOP.now - last_tx, keepalive)))
            break
    return adv, bad


def run(chk):
    chk.prove(MODULE)
    rng, tier = chk.rng, chk.tier
    n = 60 if tier == 'quick' else 1000
    chk.cov['rule'] = ('two real ContactHandler endpoints on a virtual clock: keepalive x keepalive x idle x MRU x segment-size configurations; time is advanced to '
                       'each timer deadline -1/0/+1 ms (and by random amounts), traffic is injected around deadlines, due timers are fired promptly; then the segment-size '
                       'controller is driven with arbitrary (delta_b, delta_t) and transfers follow. Compared with the model incl. timer deadlines and segment size; '
                       'non-trivial = at least one timer fired or the controller ran')
    sims = []
    for i in range(n):
        sim, sent, meta, bad = timer_scenario(rng, tier)
        chk.case({'cfg': [meta['cfg_a'], meta['cfg_b']], 'rounds': meta['rounds'], 'ka': meta['ka_fired'], 'idle': meta['idle_fired'],
                  'h': hash(json.dumps(sim.a.events) + json.dumps(sim.b.events))}, nontrivial=True, sample=(i < 2))
        chk.count('keepalive-fired', meta['ka_fired'])
        chk.count('idle-fired', meta['idle_fired'])
        chk.count('ka-pair:%s' % ('disabled' if min(meta['cfg_a'].get('keepalive', 0), meta['cfg_b'].get('keepalive', 0)) == 0 else 'enabled'))
        for (i2, who, ev, cls) in tm.escapes(sim):
            bad.append(('C14:escape-%s-%s' % (cls, ev['e']), 'exception %s escapes the %s callback of %s' % (cls, ev['e'], who)))
        sc.report(chk, 'C14', bad, sim, sent, meta)
        sims.append((sim, 'timers %d' % i))
        if len(sims) >= 30:
            sc.compare_with_model(chk, sims, with_timers=True)
            sims = []
    sc.compare_with_model(chk, sims, with_timers=True)
    # silent peer: idle timeout, then idle again while terminating
    advs = []
    for passive in (False, True):
        for idle in (1, 3, 60):
            for ka in (0, 2):
                adv, bad = silent_peer_scenario(rng, passive, idle, ka)
                chk.case({'silent_peer': True, 'passive': passive, 'idle': idle, 'keepalive': ka}, sample=(idle == 3 and not passive and ka == 0))
                chk.count('silent-peer')
                for (sig, what) in bad:
                    chk.violation(sig, what, {'passive': passive, 'idle': idle, 'keepalive': ka, 'x_cfg': adv.x.model_cfg(), 'x_events': adv.x.events})
                advs.append((adv, 'silent peer passive=%s idle=%s ka=%s' % (passive, idle, ka)))
    # silent peer with a keepalive longer than the idle time, and with a transfer still unacknowledged
    for passive in (False, True):
        for (idle, ka, outstanding) in ((1, 5, False), (2, 30, False), (3, 0, True), (2, 5, True)):
            adv, bad = silent_peer_scenario(rng, passive, idle, ka, peer_ka=ka, outstanding=outstanding)
            chk.case({'silent_peer': True, 'passive': passive, 'idle': idle, 'keepalive': ka, 'outstanding': outstanding})
            chk.count('silent-peer-ka' if not outstanding else 'silent-peer-outstanding')
            for (sig, what) in bad:
                chk.violation(sig, what, {'passive': passive, 'idle': idle, 'keepalive': ka, 'outstanding': outstanding,
                                          'x_cfg': adv.x.model_cfg(), 'x_events': adv.x.events})
            advs.append((adv, 'silent peer passive=%s idle=%s ka=%s outstanding=%s' % (passive, idle, ka, outstanding)))
    # keepalive interval expiring while the socket is not writable
    for passive in (False, True):
        for ka in (2, 10):
            adv, bad = keepalive_backpressure_scenario(rng, passive, ka)
            chk.case({'keepalive_backpressure': True, 'passive': passive, 'keepalive': ka})
            chk.count('keepalive-backpressure')
            for (sig, what) in bad:
                chk.violation(sig, what, {'passive': passive, 'keepalive': ka, 'x_cfg': adv.x.model_cfg(), 'x_events': adv.x.events})
            advs.append((adv, 'keepalive back-pressure passive=%s ka=%s' % (passive, ka)))
    # chatty peer: inbound traffic must not postpone X's own KEEPALIVE
    for passive in (False, True):
        for (ka, period) in ((2, 900), (2, 1999), (5, 4000), (3, 10000)):
            adv, bad = chatty_peer_scenario(rng, passive, ka, period)
            chk.case({'chatty_peer': True, 'passive': passive, 'keepalive': ka, 'period_ms': period})
            chk.count('chatty-peer')
            for (sig, what) in bad:
                chk.violation(sig, what, {'passive': passive, 'keepalive': ka, 'period_ms': period, 'x_cfg': adv.x.model_cfg(), 'x_events': adv.x.events})
            advs.append((adv, 'chatty peer passive=%s ka=%s period=%s' % (passive, ka, period)))
    # trickling peer: every received chunk restarts the idle time
    for passive in (False, True):
        for (idle, seglen, chunk, period) in ((5, 40000, 5000, 2500), (2, 3000, 100, 1500), (3, 20000, 10240, 2999)):
            adv, bad = trickle_peer_scenario(rng, passive, idle, seglen, chunk, period)
            chk.case({'trickle_peer': True, 'passive': passive, 'idle': idle, 'seglen': seglen, 'chunk': chunk, 'period_ms': period})
            chk.count('trickle-peer')
            for (sig, what) in bad:
                chk.violation(sig, what, {'passive': passive, 'idle': idle, 'seglen': seglen, 'chunk': chunk, 'period_ms': period,
                                          'x_cfg': adv.x.model_cfg(), 'x_events': adv.x.events})
            advs.append((adv, 'trickle peer passive=%s idle=%s chunk=%s period=%s' % (passive, idle, chunk, period)))
    # own KEEPALIVEs count as traffic for the idle time
    for passive in (False, True):
        for (ka, idle) in ((10, 25), (2, 3), (1, 5)):
            adv, bad = keepalive_vs_idle_scenario(rng, passive, ka, idle)
            chk.case({'keepalive_vs_idle': True, 'passive': passive, 'keepalive': ka, 'idle': idle})
            chk.count('keepalive-vs-idle')
            for (sig, what) in bad:
                chk.violation(sig, what, {'passive': passive, 'keepalive': ka, 'idle': idle, 'x_cfg': adv.x.model_cfg(), 'x_events': adv.x.events})
            advs.append((adv, 'keepalive vs idle passive=%s ka=%s idle=%s' % (passive, ka, idle)))
    reqs = [ts.model_requests(a.x) for (a, _l) in advs]
    try:
        outs = chk.driver(reqs)
        for out, (a, label) in zip(outs, advs):
            d = ts.diff_trace(a.x, out['trace'], with_timers=True) if 'trace' in out else (0, out)
            chk.cov['traces_validated_against_impl'] += 1
            if d is not None:
                chk.corr_break('X differs from model (%s) at event %s' % (label, d[0]), {'cfg': a.x.model_cfg(), 'events': a.x.events[:d[0] + 1], 'diff': d[1]})
    except Exception as err:
        chk.corr_break('model driver unavailable: %s' % str(err)[:200], {})
    chk.assumptions += ['GLib delivers a timer callback as soon as its deadline passes (timely schedule); the float arithmetic of the controller is not modelled, only its clamp',
                        'get_session_parameters clamps integers to 2^31-1 for D-Bus; reported MRUs are compared modulo that clamp']


def replay(chk, path):
    print('replay: event lists in', path)
    return 0
