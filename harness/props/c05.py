''' C05 — BP fragmentation keeps every fragment within the route MTU and loses nothing.

Proof: DtnVerif.Props.C05 (model DtnVerif.Model.Frag).
Correspondence: a real bp.agent.Agent sends the same bundle with the same route MTU as the Lean
model (`frag.send`); the lists of byte strings handed to the CL must be identical (the model
emits zero CRC values; they are filled in with an independent CRC) and the "exception escaped
send_bundle" bit must agree.
Monitors (independent reader, on the implementation's output only): size, tiling, fields, block
selection, unchanged cases, and "impossible ⇒ nothing altered/oversized".
'''
import json
import multiprocessing
import os
import sys

import core
from props import fraglib as fl

BOUNDS = (24, 256, 65536)
CRCS = [(0, 0, 0), (1, 1, 1), (2, 2, 2), (0, 2, 1), (2, 0, 2), (1, 2, 0)]
EXTS = 5

# Props/C05.lean `witness`, MTU 40: fragmentation impossible. Before fix 9a18e3b (D12) the original went out with
# its payload deleted; now nothing may be sent (C05_impossible_sends_nothing). Kept as a regression input.
WITNESS = {'flags': 0, 'crc': 0, 'dest': 'dtn://d/', 'src': 'dtn://s/', 'rpt': None, 'time': 1, 'seq': 0,
           'lifetime': 1000, 'blocks': [{'type': 1, 'num': 1, 'flags': 0, 'crc': 0, 'btsd': bytes(range(64)).hex()}],
           'wire': False}
WITNESS_MTU = 40
# the same bundle as decoded from the wire, MTU 80: before the fix it was sent whole (100 octets); now [80, 62]
WITNESS_WIRE = dict(WITNESS, wire=True)
WITNESS_WIRE_MTU = 80


def pay_len(spec):
    for b in spec['blocks']:
        if b['num'] == 1 and b['type'] == 1:
            return len(b['btsd'] or '') // 2
    return 0


def payload_hex(n, salt):
    return bytes((i * 7 + salt) % 251 for i in range(n)).hex()


def mk_spec(L, crcs, ext, flags=0, wire=False, salt=0, time=1000):
    cp, cy, ce = crcs
    blocks = []
    if ext in (1, 3, 4):
        blocks.append({'type': 7, 'num': 2, 'flags': 1, 'crc': ce, 'btsd': '1903e8'})
    if ext in (2, 3, 4):
        blocks.append({'type': 192, 'num': 3, 'flags': 0, 'crc': ce, 'btsd': '0102030405'})
    if ext in (3, 4):
        blocks.append({'type': 193, 'num': 4, 'flags': 0x11, 'crc': (ce + 1) % 3, 'btsd': payload_hex(30, 3)})
    blocks.append({'type': 1, 'num': 1, 'flags': 0, 'crc': cy, 'btsd': payload_hex(L, salt)})
    if ext == 4:   # a block after the payload (unusual order) and a large replicated one
        blocks.append({'type': 194, 'num': 7, 'flags': 1, 'crc': ce, 'btsd': payload_hex(300, 9)})
    spec = {'flags': flags, 'crc': cp, 'dest': 'dtn://dst/svc', 'src': 'dtn://src/', 'rpt': None, 'time': time,
            'seq': 5, 'lifetime': 100000, 'blocks': blocks, 'wire': wire}
    if flags & 1:
        spec['fragoff'] = 7
        spec['total'] = L + 100
    if flags & 0x20000:
        spec['rpt'] = 'dtn://rpt/'
    return spec


def windows(centres, w):
    out = set()
    for c in centres:
        for d in range(-w, w + 1):
            if c + d >= 1:
                out.add(c + d)
    return out


def mtu_list(L, orig, w, maxfrag):
    pe = fl.head_len(L)
    pre = orig - L + 3 * pe
    cs = [orig, pre]
    base = orig - L - pe
    for b in BOUNDS:
        c = base + 2 * pe + b
        if c < orig + w:
            cs.append(c)
        if b >= pre - w:
            cs.append(b)
    ms = []
    skipped = 0
    for m in sorted(windows(cs, w)):
        est = L // max(1, m - pre + pe) if m >= pre else 0
        if est > maxfrag:
            skipped += 1
            continue
        ms.append(m)
    return ms, skipped


# ------------------------------------------------------------------ monitors (implementation only)

def monitors(spec, M, ref, outs):
    ''' -> list of (signature, what). `ref` = what the implementation sends with no MTU. '''
    bad = []
    flags = spec['flags']
    try:
        refp = fl.read_bundle(ref)
    except fl.ParseError as err:
        return [('C05:reference-unreadable', str(err))]
    rp = refp['primary']
    pay = [b for b in refp['blocks'] if b['num'] == 1]
    may = (M is not None and len(ref) > M and not (flags & 4) and not (flags & 1))
    if not may:
        if outs != [ref]:
            bad.append(('C05:unchanged-case-altered', 'no-fragment/fragment/fits/no-MTU case: output differs from the input encoding'))
        return bad
    if not outs:
        L = len(pay[0]['btsd']) if pay and pay[0]['btsd'] is not None else None
        if L is not None and M >= len(ref) - L + 3 * fl.head_len(L):
            bad.append(('C05:fragmentable-sends-nothing', 'budget suffices but nothing was sent'))
        return bad
    parsed = []
    for o in outs:
        try:
            parsed.append(fl.read_bundle(o))
        except fl.ParseError as err:
            bad.append(('C05:output-unreadable', str(err)))
            return bad
    isfrag = [bool(p['primary']['flags'] & 1) and p['primary']['src'] == rp['src']
              and (p['primary']['time'], p['primary']['seq']) == (rp['time'], rp['seq']) for p in parsed]
    if not all(isfrag):
        # fragmentation did not happen (or only partly): nothing altered or oversized may be sent
        for o, p, f in zip(outs, parsed, isfrag):
            if f:
                continue
            if o != ref:
                nullp = any(b['num'] == 1 and b['btsd'] is None for b in p['blocks'])
                bad.append(('C05:impossible-sends-altered',
                            'fragmentation refused, yet a bundle differing from the input was sent (%d octets, MTU %s, payload data %s)'
                            % (len(o), M, 'deleted (CBOR null)' if nullp else 'changed')))
            elif spec.get('wire'):
                bad.append(('C05:decoded-bundle-sent-oversized',
                            'bundle built by decoding (payload block has a scapy layer): never fragmented, sent whole: %d octets > MTU %s'
                            % (len(o), M)))
            else:
                bad.append(('C05:impossible-sends-oversized', 'fragmentation refused, yet %d octets > MTU %s sent' % (len(o), M)))
        return bad
    if not pay or pay[0]['btsd'] is None:
        return [('C05:fragments-without-payload', 'fragments of a bundle without payload data')]
    P = pay[0]['btsd']
    # size
    for o in outs:
        if len(o) > M:
            bad.append(('C05:fragment-oversized', 'fragment of %d octets > MTU %d' % (len(o), M)))
        if not fl.check_crcs(o):
            bad.append(('C05:fragment-crc-invalid', 'a fragment carries an invalid CRC'))
    # tiling
    off = 0
    cat = b''
    for p in parsed:
        pb = [b for b in p['blocks'] if b['num'] == 1]
        if len(pb) != 1 or pb[0]['btsd'] is None:
            bad.append(('C05:tiling', 'fragment without payload data'))
            return bad
        d = pb[0]['btsd']
        if p['primary']['fragoff'] != off or len(d) == 0:
            bad.append(('C05:tiling', 'offset %s where %d expected (length %d)' % (p['primary']['fragoff'], off, len(d))))
        off += len(d)
        cat += d
    if cat != P:
        bad.append(('C05:tiling', 'concatenated fragment payloads differ from the payload'))
    # fields
    for p in parsed:
        q = p['primary']
        same = all(q[k] == rp[k] for k in ('version', 'crc', 'dest', 'src', 'rpt', 'time', 'seq', 'lifetime'))
        if not same or q['flags'] != (rp['flags'] | 1) or q['total'] != len(P):
            bad.append(('C05:fields', 'fragment primary block: identity/flags/total length wrong'))
        if not spec.get('as_source', True) and ((q['time'], q['seq'], q['lifetime']) != (spec['time'], spec['seq'], spec['lifetime'])):
            bad.append(('C05:forwarded-fragment-identity-changed',
                        'fragment of a forwarded bundle: creation timestamp/lifetime (%s,%s,%s) differ from the received (%s,%s,%s)'
                        % (q['time'], q['seq'], q['lifetime'], spec['time'], spec['seq'], spec['lifetime'])))
    # blocks
    def strip(b):
        return (b['type'], b['num'], b['flags'], b['crc'], None if b['num'] == 1 else b['btsd'])
    full = [strip(b) for b in refp['blocks']]
    repl = [strip(b) for b in refp['blocks'] if (b['flags'] & 1) or b['num'] == 1]
    for i, p in enumerate(parsed):
        got = [strip(b) for b in p['blocks']]
        if got != (full if i == 0 else repl):
            bad.append(('C05:blocks', 'fragment %d carries the wrong block set' % i))
    return bad


def ref_matches_spec(spec, ref):
    ''' the reference output (no MTU) is the input bundle: same fields, same blocks '''
    p = fl.read_bundle(ref)
    q = p['primary']
    ok = (q['flags'] == spec['flags'] and q['crc'] == spec['crc'] and q['dest'] == [1, spec['dest'][4:]]
          and q['src'] == [1, spec['src'][4:]]
          and ((spec['time'] == 0 and spec.get('as_source', True)) or (q['time'], q['seq']) == (spec['time'], spec['seq']))
          and ((spec['lifetime'] == 0 and spec.get('as_source', True)) or q['lifetime'] == spec['lifetime']))
    got = [(b['type'], b['num'], b['flags'], b['crc'], None if b['btsd'] is None else b['btsd'].hex()) for b in p['blocks']]
    want = [(b['type'], b['num'], b['flags'], b['crc'], b['btsd']) for b in spec['blocks']]
    return ok and got == want and fl.check_crcs(ref)


# ------------------------------------------------------------------ one shard

SEND_LIMIT_S = 8      # CPU seconds; a single send request (all its fragments) takes well under a second
MAX_TIMEOUTS = 2      # per worker / per stream: after that the remaining cases are skipped (the defect is established)


def guarded_send(rigbox, spec, m, now_ms):
    ''' rig.send under a CPU-time watchdog: a fragment loop that does not advance (budget 0) must not hang the
    check. Returns None on timeout (and a fresh rig). '''
    try:
        with fl.watchdog(SEND_LIMIT_S):
            return rigbox[0].send(spec, m, now_ms=now_ms)
    except fl.SendTimeout:
        rigbox[0] = fl.Rig()        # drop the flooded agent
        return None


def run_cases(cases):
    ''' cases: list of (spec, [mtus]); returns summary dict '''
    rigbox = [fl.Rig()]
    lean = core.LeanSide()
    res = {'n': 0, 'dist': {}, 'breaks': [], 'viol': [], 'samples': [], 'nontrivial': []}

    def cnt(k, n=1):
        res['dist'][k] = res['dist'].get(k, 0) + n
    clock = [5000]
    ntimeouts = 0
    for spec, mtus in cases:
        if ntimeouts >= MAX_TIMEOUTS:
            cnt('skipped-after-timeouts')
            continue
        clock[0] += 17
        r0 = guarded_send(rigbox, spec, None, clock[0])
        if r0 is None:
            res['viol'].append(('C05:send-does-not-terminate', 'send_bundle without MTU did not return within %d s' % SEND_LIMIT_S, {'spec': spec, 'mtu': None}))
            continue
        ref_out, ref_esc, _ = r0
        if len(ref_out) != 1 or ref_esc:
            ref = None
        else:
            ref = ref_out[0]
            cnt('mtu-choice:size-estimate-' + ('exact' if est_size(spec) == len(ref) else 'off'))
            if not ref_matches_spec(spec, ref):
                res['viol'].append(('C05:unchanged-case-altered', 'with no MTU the bundle sent differs from the input', {'spec': spec, 'mtu': None}))
        sj = fl.spec_json(spec)
        reals = []
        reqs = []
        for m in [None] + list(mtus):
            clock[0] += 17
            rr = guarded_send(rigbox, spec, m, clock[0])
            if rr is None:
                ntimeouts += 1
                cnt('monitor:C05:send-does-not-terminate')
                res['viol'].append(('C05:send-does-not-terminate',
                                    'send_bundle / Fragment._create did not return within %d s (a fragment loop that does not advance)'
                                    % SEND_LIMIT_S, {'spec': spec, 'mtu': m}))
                rr = ([], 'Timeout', [])
            reals.append(rr)
            reqs.append({'op': 'frag.send', 'bundle': sj, 'mtu': m, 'now': clock[0], 'as_source': spec.get('as_source', True)})
        outs = lean.driver(reqs)
        for m, real, mo in zip([None] + list(mtus), reals, outs):
            res['n'] += 1
            routs, resc, ridle = real
            try:
                mouts = [fl.patch_crcs(bytes.fromhex(x)) for x in mo['outs']]
            except fl.ParseError:
                mouts = [bytes.fromhex(x) for x in mo['outs']]
            rep = {'spec': spec, 'mtu': m}
            L = pay_len(spec)
            agree = (mouts == routs and bool(mo['escaped']) == (resc is not None) and len(ridle) == len(mo.get('idle_escapes', [])))
            if not agree:
                res['breaks'].append(('model and implementation differ: impl %s esc=%s idle=%s, model %s esc=%s'
                                      % ([len(x) for x in routs], resc, ridle, [len(x) for x in mouts], mo['escaped']), rep))
            viol = monitors(spec, m, ref, routs) if ref is not None else []
            if spec.get('malformed'):
                for sig, what in viol:
                    cnt('malformed-stream:' + sig)
                viol = []
            for sig, what in viol:
                res['viol'].append((sig, what, rep))
            nfr = len(routs)
            kind = ('nofrag' if nfr == 1 and routs[0] == ref else 'nothing' if nfr == 0 else
                    'altered' if nfr == 1 else 'frags')
            cnt('outcome:' + kind)
            cnt('crc:%d%d%d' % tuple(b for b in (spec['crc'], ([b['crc'] for b in spec['blocks'] if b['num'] == 1] + [0])[0], spec['blocks'][0]['crc'] if spec['blocks'] else 0)))
            if ref is not None and m is not None and not (spec['flags'] & 5) and not spec.get('malformed'):
                pre_real = len(ref) - L + 3 * fl.head_len(L)
                if len(ref) > m and m in (pre_real - 1, pre_real):
                    cnt('feasibility-boundary:mtu=precheck%s:%s' % ('' if m == pre_real else '-1', kind))
            if kind == 'frags':
                for o in routs:
                    try:
                        fp = [b for b in fl.read_bundle(o)['blocks'] if b['num'] == 1][0]['btsd']
                    except Exception:
                        continue
                    n = len(fp or b'')
                    for B in BOUNDS:
                        if B - 3 <= n <= B + 3:
                            cnt('fragment-payload-len:%d%+d' % (B, n - B) if n != B else 'fragment-payload-len:%d' % B)
            cnt('nfrag:%s' % ('0' if nfr == 0 else '1' if nfr == 1 else '2-3' if nfr < 4 else '4-15' if nfr < 16 else '16+'))
            cnt('L:%s' % ('<24' if L < 24 else '<256' if L < 256 else '<65536' if L < 65536 else '>=65536'))
            cnt('wire' if spec.get('wire') else 'local')
            if spec['flags'] & 4:
                cnt('flag:no-fragment')
            if spec['flags'] & 1:
                cnt('flag:is-fragment')
            if not spec.get('as_source', True):
                cnt('forwarded(as_source=False)')
                if spec['time'] == 0:
                    cnt('forwarded:creation-time-0' + (':fragmented' if kind == 'frags' else ''))
            if viol:
                cnt('monitor:' + viol[0][0])
            res['nontrivial'].append((json.dumps([L, m, spec['crc'], len(spec['blocks']), spec['flags'], bool(spec.get('wire'))]), kind != 'nofrag'))
            if kind == 'frags' and len(res['samples']) < 2:
                res['samples'].append({'L': L, 'mtu': m, 'fragment_sizes': [len(x) for x in routs]})
    return res


def _shard(args):
    try:
        return run_cases(args)
    except Exception as err:  # harness error inside a worker
        import traceback
        return {'error': traceback.format_exc() + str(err)}


def gen_cases(chk):
    quick = chk.tier == 'quick'
    w = 3 if quick else 40
    rng = chk.rng
    Ls = set([0, 1, 2, 9])
    for b in BOUNDS:
        for d in range(-w, w + 1):
            Ls.add(b + d)
    cases = []
    skipped = 0
    for L in sorted(Ls):
        ncfg = 2 if quick else 3
        if L > 60000 and not quick:
            ncfg = 2
        for _ in range(ncfg):
            crcs = rng.choice(CRCS)
            ext = rng.randrange(EXTS)
            flags = rng.choice([0, 0, 0, 0x40, 0x20000])
            wire = rng.random() < 0.15
            spec = mk_spec(L, crcs, ext, flags=flags, wire=wire, salt=rng.randrange(250))
            if rng.random() < (0.6 if wire else 0.1):
                # a forwarded bundle (send_bundle(ctr, as_source=False)); creation time 0 identified by its
                # sequence number, lifetime 0 and null report-to must stay as received, also in every fragment
                spec['as_source'] = False
                if rng.random() < 0.7:
                    spec['time'] = 0
                    spec['seq'] = rng.randrange(1, 100000)
                if rng.random() < 0.3:
                    spec['lifetime'] = 0
            # orig size by the independent formula is not needed exactly: measure with the reader-free estimate
            cases.append((spec, None, w))
        # unchanged-by-flag cases
        fl_flag = rng.choice([4, 1, 5, 0x44])
        cases.append((mk_spec(L, rng.choice(CRCS), rng.randrange(EXTS), flags=fl_flag, salt=1), None, min(w, 5)))
    return cases, skipped


def frag_boundary_cases(chk):
    ''' MTUs chosen so that the payload carried by ONE FRAGMENT (not the total) sits on a CBOR head boundary:
    the first fragment's budget is B+d octets, d in a window around 0, for B = 24, 256, 65536, with totals of
    1, 2 and 2.3 times B more (so the later fragments, whose budgets shrink with the offset head, cross it too).
    The budget formula reserves head(total); a fragment's own head is head(fragment payload) — they differ
    exactly across these boundaries. Large payloads are all-zero octets (cheap to build and encode). '''
    quick = chk.tier == 'quick'
    rng = chk.rng
    ds = range(-3, 4) if quick else range(-10, 11)
    out = []
    for B in BOUNDS:
        Ls = [B + 40, 2 * B + 7, 2 * B + B // 3 + 11]
        if B == 65536:
            Ls.append(150000)
        for L in Ls:
            for _ in range(1 if quick else 3):
                spec = mk_spec(L, rng.choice(CRCS), rng.randrange(4), flags=rng.choice([0, 0x40]),
                               wire=(rng.random() < 0.2), salt=rng.randrange(250))
                if L > 4096:
                    for b in spec['blocks']:
                        if b['num'] == 1:
                            b['btsd'] = '00' * L
                orig = est_size(spec)
                over0 = orig - L + 1 + fl.head_len(L)      # empty first fragment - 1 + head(total)
                out.append((spec, [over0 + B + d for d in ds]))
    return out


def est_size(spec):
    ''' encoded size of the bundle by independent arithmetic (to choose MTUs before running) '''
    h = fl.head_len

    def eid(t):
        if t is None or t == 'dtn:none':
            return 3
        s = len(t[4:].encode())
        return 2 + h(s) + s
    cw = {0: 0, 1: 3, 2: 5}
    n = 2 + 1 + 1 + h(spec['flags']) + 1 + eid(spec['dest']) + eid(spec['src']) + eid(spec.get('rpt')) \
        + 1 + h(spec['time']) + h(spec['seq']) + h(spec['lifetime']) + cw[spec['crc']]
    if spec['flags'] & 1:
        n += h(spec.get('fragoff', 0)) + h(spec.get('total', 0))
    for b in spec['blocks']:
        d = len(b['btsd'] or 'f') // 2   # None encodes as one octet (null); never chosen for windows
        n += 1 + h(b['type']) + h(b['num']) + h(b['flags']) + 1 + h(d) + d + cw[b['crc']]
    return n


def run(chk):
    chk.prove('DtnVerif.Props.C05')
    chk.cov['rule'] = ('(payload length, MTU) windows ±%d around the CBOR head boundaries 23/24, 255/256, 65535/65536 '
                       '(payload length; MTU = fits boundary, feasibility boundary, fragment budgets at the head boundaries, '
                       'absolute boundaries; plus MTUs putting a single fragment\'s payload length B+d on each boundary B) × CRC type triples × 5 extension-block sets (replicate / not / after payload) × '
                       'locally built vs decoded-from-wire containers × NO_FRAGMENT / IS_FRAGMENT flags; plus malformed stream'
                       % (3 if chk.tier == 'quick' else 40))
    chk.assumptions += [
        'security policy off (BPSec transmit steps are no-ops); D21 (security on) is not exercised by this run',
        'the fragments find the same transmit route through the route table (same destination, first match)',
        'block numbers are assigned, source/report-to are set (the model has no None for them)',
        'the model emits zero CRC values; the harness fills them with its own bitwise CRC-16/X.25 / CRC-32C before comparing octets',
    ]
    fl.mods()

    pre, _ = gen_cases(chk)
    quick = chk.tier == 'quick'
    maxfrag = 120 if quick else 300
    cases = []
    nskip = 0
    for spec, _m, w in pre:
        L = pay_len(spec)
        orig = est_size(spec)
        ms, sk = mtu_list(L, orig, w, maxfrag)
        nskip += sk
        if L > 60000 and not quick:
            ms = [m for i, m in enumerate(ms) if i % 3 == chk.seed % 3 or abs(m - orig) <= 2]
        cases.append((spec, ms))
    nb = frag_boundary_cases(chk)
    cases += nb
    chk.count('fragment-payload-on-head-boundary:specs', len(nb))
    chk.count('fragment-payload-on-head-boundary:sends', sum(len(m) for _s, m in nb))
    # fixed cases: Lean witnesses, malformed stream
    P = bytes(range(100)).hex()
    base = {'flags': 0, 'crc': 1, 'dest': 'dtn://dst/svc', 'src': 'dtn://src/', 'rpt': None, 'time': 1000, 'seq': 5,
            'lifetime': 1000, 'wire': False}
    malformed = [
        (dict(base, blocks=[{'type': 1, 'num': 5, 'flags': 0, 'crc': 0, 'btsd': P}]), [60]),
        (dict(base, blocks=[{'type': 1, 'num': 1, 'flags': 0, 'crc': 0, 'btsd': None}]), [30]),
        (dict(base, blocks=[{'type': 7, 'num': 1, 'flags': 0, 'crc': 0, 'btsd': '00'}, {'type': 1, 'num': 1, 'flags': 0, 'crc': 0, 'btsd': P}]), [60]),
        (dict(base, blocks=[{'type': 7, 'num': 0, 'flags': 0, 'crc': 0, 'btsd': '00'}, {'type': 1, 'num': 1, 'flags': 0, 'crc': 0, 'btsd': P}]), [60]),
        (dict(base, blocks=[{'type': 7, 'num': 2, 'flags': 0, 'crc': 3, 'btsd': '00'}, {'type': 1, 'num': 1, 'flags': 0, 'crc': 0, 'btsd': P}]), [60]),
        (dict(base, time=0, lifetime=0, blocks=[{'type': 1, 'num': 1, 'flags': 0, 'crc': 2, 'btsd': P}]), [90, 70]),
        (dict(base, blocks=[]), [30]),
    ]
    for sp, _ms in malformed:
        # correspondence only: the property speaks of bundles with a payload block; the time=0 case gets a
        # fresh creation time per send, so there is no fixed reference encoding to compare with
        sp['malformed'] = True
    fixed = [(WITNESS, [WITNESS_MTU]), (WITNESS_WIRE, [WITNESS_WIRE_MTU])] + malformed
    chk.count('mtu-skipped-too-many-fragments', nskip)

    nproc = min(12, os.cpu_count() or 1)
    shards = [[] for _ in range(nproc)]
    order = sorted(range(len(cases)), key=lambda i: -len(cases[i][1]) * (1 + pay_len(cases[i][0]) // 2000))
    for j, i in enumerate(order):
        shards[j % nproc].append(cases[i])
    shards[0] = fixed + shards[0]
    with multiprocessing.get_context('fork').Pool(nproc) as pool:
        results = pool.map(_shard, shards)
    for r in results:
        if 'error' in r:
            raise RuntimeError('worker failed: ' + r['error'])
        for k, v in r['dist'].items():
            chk.count(k, v)
        for key, nt in r['nontrivial']:
            chk.case(key, nontrivial=nt)
        for s in r['samples']:
            chk.case(s, nontrivial=False, sample=True)
            chk.cov['evaluations'] -= 1
        for what, rep in r['breaks']:
            chk.corr_break(what, rep)
        for sig, what, rep in r['viol']:
            chk.violation(sig, what, rep)
    chk.cov['traces_validated_against_impl'] = sum(r['n'] for r in results)
    for stream in (run_security, run_forward_path, run_originated_path, run_cl_failure):
        try:
            with fl.watchdog(30 if chk.tier == 'quick' else 600):
                stream(chk)
        except fl.SendTimeout:
            chk.count('monitor:C05:send-does-not-terminate')
            chk.violation('C05:send-does-not-terminate',
                          'stream %s: the code under test did not return within its CPU budget (a loop that does not advance)'
                          % stream.__name__, {'stream': stream.__name__})
    return


def run_cl_failure(chk):
    ''' A CL sender that raises on the k-th hand-over of a request (transient D-Bus / back-pressure error).
    Property: nothing over the MTU is ever handed to the CL, and no fragment is lost: the strings handed over are
    those of the failure-free run (the refused one included — the CL was handed it). Compared with the model
    (`sendFailing`, theorem C05_cl_failure) and checked by independent monitors. '''
    rng = chk.rng
    n = 40 if chk.tier == 'quick' else 400
    rig = fl.Rig()
    reqs = []
    runs = []
    clock = 900000
    for i in range(n):
        L = rng.choice([100, 300, 300, 1000, 3000])
        spec = mk_spec(L, rng.choice(CRCS), rng.randrange(EXTS), wire=(rng.random() < 0.2), salt=i % 250)
        if rng.random() < 0.2:
            spec['as_source'] = False
        orig = est_size(spec)
        pre = orig - L + 3 * fl.head_len(L)
        M = rng.choice([None, orig + 5]) if rng.random() < 0.1 else rng.randrange(pre + 5, max(pre + 6, orig))
        clock += 17
        base, besc, bidle = rig.send(spec, M, now_ms=clock)
        nh = max(1, len(base))
        fails = sorted(set(rng.randrange(nh) for _ in range(rng.choice([1, 1, 1, 2, 3]))))
        if i % 7 == 0:
            fails = [min(2, nh - 1)]          # "the third hand-over raises"
        outs, esc, idle = rig.send(spec, M, now_ms=clock, fail_on=fails)
        reqs.append({'op': 'frag.send', 'bundle': fl.spec_json(spec), 'mtu': M, 'now': clock,
                     'as_source': spec.get('as_source', True), 'fail': fails})
        runs.append((spec, M, fails, base, outs, esc, idle))
    mos = chk.driver(reqs)
    for (spec, M, fails, base, outs, esc, idle), mo in zip(runs, mos):
        rep = {'spec': spec, 'mtu': M, 'cl_fails_on': fails}
        chk.case(['clfail', pay_len(spec), M, fails, len(base)], nontrivial=True)
        chk.count('cl-failure:%s' % ('fragments' if len(base) > 1 else 'single' if base else 'nothing'))
        try:
            mouts = [fl.patch_crcs(bytes.fromhex(x)) for x in mo['outs']]
        except fl.ParseError:
            mouts = [bytes.fromhex(x) for x in mo['outs']]
        if mouts != outs or bool(mo['escaped']) != (esc is not None) or len(mo['idle_escapes']) != len(idle):
            chk.corr_break('CL sender raising on hand-overs %s: impl %s esc=%s idle=%s, model %s esc=%s idle=%s'
                           % (fails, [len(x) for x in outs], esc, idle, [len(x) for x in mouts], mo['escaped'], mo['idle_escapes']), rep)
        chk.cov['traces_validated_against_impl'] += 1
        # independent monitors
        if M is not None and not (spec['flags'] & 5):
            over = [len(o) for o in outs if len(o) > M]
            if over:
                chk.count('monitor:C05:cl-failure-sends-oversized')
                chk.violation('C05:cl-failure-sends-oversized',
                              'the CL sender raised on hand-over(s) %s: afterwards %s octets were handed to the CL on a route with MTU %d'
                              % (fails, over, M), rep)
        if outs != base:
            chk.count('monitor:C05:cl-failure-loses-fragments')
            chk.violation('C05:cl-failure-loses-fragments',
                          'the CL sender raised on hand-over(s) %s: handed over %s, without the failure %s (fragments missing or replaced)'
                          % (fails, [len(x) for x in outs], [len(x) for x in base]), rep)


def run_forward_path(chk):
    ''' The real forwarding path (CL -> recv_bundle -> rx route 'forward' -> _do_fwd -> send_bundle(as_source=False)
    -> _create): implementation-only monitors (the blocks _do_fwd adds are C11's subject). A decoded bundle,
    also with creation time 0 + sequence number, must be fragmented within the MTU, tile its payload, and every
    fragment must keep the received source / creation timestamp / lifetime. '''
    rng = chk.rng
    n = 40 if chk.tier == 'quick' else 400
    rig = fl.Rig(node_id='dtn://fwd/', rx_action='forward')
    for i in range(n):
        L = rng.choice([60, 100, 255, 256, 300, 1000])
        zero = rng.random() < 0.6
        spec = {'flags': 0, 'crc': rng.choice([0, 1, 2]), 'dest': 'dtn://dst/svc', 'src': 'dtn://src/', 'rpt': None,
                'time': 0 if zero else 5000 + i, 'seq': 1000 + i, 'lifetime': rng.choice([0, 86400000]) if zero else 86400000,
                'blocks': [{'type': 7, 'num': 2, 'flags': 0, 'crc': 0, 'btsd': '1903e8'},
                           {'type': 1, 'num': 1, 'flags': 0, 'crc': rng.choice([0, 1, 2]), 'btsd': payload_hex(L, i % 250)}]}
        data = fl.encode_bundle(spec)
        M = rng.randrange(len(data) - L + 40, len(data) + 30)
        rig.out = []
        rig.set_mtu(M)
        esc = rig.recv(data)
        idle = rig.drain()
        outs = list(rig.out)
        rep = {'forward_path': True, 'bundle': data.hex(), 'mtu': M}
        chk.case(['fwd', L, M, spec['crc'], zero], nontrivial=True)
        chk.count('forward-path:' + ('creation-time-0' if zero else 'timestamped') + (':fragmented' if len(outs) > 1 else ''))
        for sig, what in forward_monitor(spec, M, outs):
            chk.count('monitor:' + sig)
            chk.violation(sig, what, rep)


def run_originated_path(chk):
    ''' Bundles the agent ORIGINATES: a status report is built the way bp.util.create_report does it — an empty
    BundleContainer() whose blocks are assigned afterwards — and handed to Agent.send_bundle(as_source=True) from an
    idle source; its route (the report-to endpoint) has an MTU. Implementation-only monitors: whatever reaches the
    CL for the report encodes to at most the MTU, and fragments tile the report's payload; when the MTU is too small
    for any fragment nothing is sent. (send_bundle's ctr.reload() is what makes such a container fragmentable.) '''
    import agentlib as A
    rng = chk.rng
    n = 30 if chk.tier == 'quick' else 300
    rx = [(r'dtn://far/.*', 'forward'), (r'dtn://node/.*', 'deliver')]
    for i in range(n):
        M = rng.choice([48, 72, 76, 80, 84, 88, 92, 96, 100, 104, 108, 112, 130])
        tx = [(r'dtn://far/.*', None), (r'dtn://rpt/.*', M)]
        flags = rng.choice([A.F_RCV | A.F_FWD | A.F_TIME, A.F_RCV | A.F_DLV, A.F_FWD, A.F_DLV | A.F_TIME])
        dest = rng.choice(['//far/x', '//node/app'])
        b = {'pri': A.mk_pri(A.dtn(dest), A.dtn('//src/'), [A.T0 - 40, i], flags=flags, rpt=A.dtn('//rpt/'),
                             ct=rng.choice([0, 1, 2])), 'rpt_none': False, 'blocks': [A.mk_blk(1, 1, bytes([i & 0xff, 1, 2]))]}
        fix = A.Fixture(rx, tx)
        items = [{'b': b, 'data': A.enc_bundle(b), 'now': A.T0 + 10, 'crc_ok': True}]
        _ev, obs = A.run_real(fix, items)
        outs = []
        for o in obs:
            for h in o['tx'] + o.get('frag_tx', []):
                d = A.dec_bundle(bytes.fromhex(h))
                if d.pri['flags'] & A.F_ADMIN and d.pri['src'] == A.NODE:
                    outs.append((bytes.fromhex(h), d))
        rep = {'originated_path': True, 'bundle': items[0]['data'].hex(), 'report_route_mtu': M, 'rx': rx, 'tx': tx}
        chk.case(['orig', M, flags, dest, b['pri']['ct']], nontrivial=True)
        chk.count('originated-report:' + ('none' if not outs else 'whole' if len(outs) == 1 and not outs[0][1].pri['flags'] & A.F_FRAG
                                          else 'fragmented'))
        over = [len(raw) for (raw, _d) in outs if len(raw) > M]
        if over:
            chk.violation('C05:originated-bundle-over-mtu',
                          'a status report originated by the agent was handed to the CL as %s octets over a route with MTU %d'
                          % (over, M), rep)
            continue
        frags = [d for (_raw, d) in outs if d.pri['flags'] & A.F_FRAG]
        if frags:
            frags.sort(key=lambda d: d.pri['foff'])
            cat = b''
            ok = len(frags) == len(outs)
            for d in frags:
                pay = [k for k in d.blocks if k['n'] == 1]
                if len(pay) != 1 or d.pri['foff'] != len(cat) or not all(d.crc_ok):
                    ok = False
                    break
                cat += bytes.fromhex(pay[0]['btsd'])
            if ok:
                try:
                    rec, end = A.dec(cat)
                    ok = end == len(cat) and rec[0] == 1 and all(d.pri['tlen'] == len(cat) for d in frags)
                except Exception:
                    ok = False
            if not ok:
                chk.violation('C05:originated-fragments-do-not-tile',
                              'fragments of an originated status report (offsets %s) do not tile one administrative record'
                              % [d.pri['foff'] for d in frags], rep)


def forward_monitor(spec, M, outs):
    bad = []
    P = bytes.fromhex([b for b in spec['blocks'] if b['num'] == 1][0]['btsd'])
    if not outs:
        return [('C05:forwarded-not-sent', 'a forwardable bundle produced no transmission')]
    cat = b''
    off = 0
    for o in outs:
        try:
            p = fl.read_bundle(o)
        except fl.ParseError as err:
            return [('C05:output-unreadable', str(err))]
        q = p['primary']
        if len(o) > M:
            bad.append(('C05:forwarded-oversized', 'forwarding: %d octets > MTU %d (%s)' % (len(o), M, 'fragment' if q['flags'] & 1 else 'whole bundle')))
        if (q['time'], q['seq'], q['lifetime']) != (spec['time'], spec['seq'], spec['lifetime']) or q['src'] != [1, spec['src'][4:]]:
            bad.append(('C05:forwarded-fragment-identity-changed',
                        'forwarding: creation timestamp/lifetime (%s,%s,%s) differ from the received (%s,%s,%s)'
                        % (q['time'], q['seq'], q['lifetime'], spec['time'], spec['seq'], spec['lifetime'])))
        pb = [b for b in p['blocks'] if b['num'] == 1]
        if len(pb) != 1 or pb[0]['btsd'] is None:
            bad.append(('C05:impossible-sends-altered', 'forwarding: payload data missing'))
            continue
        if q['flags'] & 1:
            if q['fragoff'] != off or q['total'] != len(P):
                bad.append(('C05:tiling', 'forwarding: offset/total wrong'))
            off += len(pb[0]['btsd'])
        cat += pb[0]['btsd']
        if not fl.check_crcs(o):
            bad.append(('C05:fragment-crc-invalid', 'forwarding: invalid CRC'))
    if cat != P:
        bad.append(('C05:tiling', 'forwarding: transmitted payload octets differ from the received payload'))
    return bad


def security_monitor(spec, M, outs):
    ''' security policy on: the size bound must hold for what reaches the CL (implementation only) '''
    bad = []
    for o in outs:
        if M is not None and len(o) > M and not (spec['flags'] & 5):
            try:
                p = fl.read_bundle(o)
            except fl.ParseError:
                continue
            if p['primary']['flags'] & 1:
                nsec = sum(1 for b in p['blocks'] if b['type'] in (11, 12))
                bad.append(('C05:security-grows-fragment',
                            'security association active: fragment of %d octets > MTU %d (%d security block(s) added when the '
                            'fragment re-entered the BPSec steps)' % (len(o), M, nsec)))
    return bad


def run_security(chk):
    ''' D21: with a security association each fragment re-enters the BIB step (order 10 < 20) and grows.
    Implementation-side only (the model takes the security step as a parameter; Props/C05 has the
    counterexample for a growing step). '''
    try:
        rig = fl.Rig()
        rig.enable_security()
    except Exception as err:   # pycose keys unavailable: say so, do not pretend
        chk.notes.append('security-on stream skipped: %r' % (err,))
        chk.count('security-on:skipped')
        return
    rng = chk.rng
    n = 12 if chk.tier == 'quick' else 120
    for i in range(n):
        L = rng.choice([300, 500, 1000, 3000])
        spec = mk_spec(L, rng.choice(CRCS), rng.choice([0, 1, 2]), salt=i)
        ref, esc, _ = rig.send(spec, None)
        if len(ref) != 1:
            chk.count('security-on:no-reference')
            continue
        M = rng.randrange(len(ref[0]) // 3, len(ref[0]))
        outs, esc, idle = rig.send(spec, M)
        chk.case(['sec', L, M, spec['crc'], len(spec['blocks'])], nontrivial=True)
        chk.count('security-on:sends')
        for sig, what in security_monitor(spec, M, outs):
            chk.count('monitor:' + sig)
            chk.violation(sig, what, {'spec': spec, 'mtu': M, 'security': 'hmac256-bib-on-payload'})


def replay(chk, path):
    obj = json.load(open(path))
    rep = obj.get('replay', obj)
    if rep.get('forward_path'):
        rig = fl.Rig(node_id='dtn://fwd/', rx_action='forward')
        rig.set_mtu(rep['mtu'])
        rig.recv(bytes.fromhex(rep['bundle']))
        rig.drain()
        for o in rig.out:
            q = fl.read_bundle(o)['primary']
            print('sent %d octets (MTU %s): time=%s seq=%s lifetime=%s fragoff=%s' % (len(o), rep['mtu'], q['time'], q['seq'], q['lifetime'], q.get('fragoff')))
        return 0
    spec, m = rep['spec'], rep['mtu']
    rig = fl.Rig()
    if 'cl_fails_on' in rep:
        base = rig.send(spec, m)[0]
        outs, esc, idle = rig.send(spec, m, fail_on=rep['cl_fails_on'])
        print('MTU %s; without failure the CL is handed %s' % (m, [len(x) for x in base]))
        print('sender raises on hand-over(s) %s: the CL is handed %s; escaped=%s idle escapes=%s'
              % (rep['cl_fails_on'], [len(x) for x in outs], esc, idle))
        bad = outs != base or (m is not None and any(len(o) > m for o in outs))
        return 1 if bad else 0
    if rep.get('security'):
        rig.enable_security()
    ref = rig.send(spec, None)[0]
    routs, resc, ridle = rig.send(spec, m)
    if rep.get('security'):
        viol = security_monitor(spec, m, routs)
    else:
        viol = monitors(spec, m, ref[0] if len(ref) == 1 else None, routs) if len(ref) == 1 else []
    print('input: payload %d octets, MTU %s, wire=%s' % (pay_len(spec), m, spec.get('wire')))
    print('reference (no MTU): %s octets' % [len(x) for x in ref])
    print('handed to the CL: %s' % [(len(x), x.hex() if len(x) < 200 else x[:60].hex() + '…') for x in routs])
    print('escaped send_bundle: %s; idle escapes: %s' % (resc, ridle))
    for sig, what in viol:
        print('MONITOR %s: %s' % (sig, what))
    return 1 if viol else 0
