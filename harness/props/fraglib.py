''' Shared by c05.py / c06.py: booting a real bp.agent.Agent, building containers from plain
specs, the JSON form of a spec for the Lean driver, and an INDEPENDENT minimal CBOR / BPv7
reader and CRC (nothing from /repo, scapy or cbor2 is used by the reader or the CRCs).

Spec of a bundle (plain dict, JSON-able):
  {'flags': int, 'crc': 0|1|2, 'dest': str, 'src': str, 'rpt': str|None, 'time': int, 'seq': int,
   'lifetime': int, 'fragoff': int, 'total': int,
   'blocks': [{'type': int, 'num': int, 'flags': int, 'crc': 0|1|2, 'btsd': hex|None}],
   'wire': bool}     # wire=True: the container is built by DECODING the encoded bundle (every
                     # block then carries a scapy Raw layer, as a forwarded bundle does)
'''
import re
import sys

_AGENT_MODS = None


def mods():
    global _AGENT_MODS
    if _AGENT_MODS is None:
        import boot
        boot.boot()
        import bp.config
        import bp.agent
        import bp.util
        import bp.encoding
        import bp.app.base
        import bp.app.admin
        import bp.app.fragment
        import bp.app.bpsec
        from gi.repository import GLib
        _AGENT_MODS = dict(config=bp.config, agent=bp.agent, util=bp.util, enc=bp.encoding, GLib=GLib)
    return _AGENT_MODS


class SendTimeout(BaseException):   # not an Exception: the code under test catches those
    ''' the code under test did not return within its CPU-time budget (e.g. a fragment loop that does not advance) '''


class watchdog(object):
    ''' `with watchdog(seconds):` raises SendTimeout in the block once it has burnt that much CPU time.
    Uses ITIMER_VIRTUAL / SIGVTALRM, so the check's own wall-clock SIGALRM is left alone; works in the main
    process and in forked workers (main thread only). '''

    def __init__(self, seconds):
        self.seconds = seconds

    def __enter__(self):
        import signal

        def on_alarm(signum, frame):
            raise SendTimeout()
        self._old = signal.signal(signal.SIGVTALRM, on_alarm)
        signal.setitimer(signal.ITIMER_VIRTUAL, self.seconds)
        return self

    def __exit__(self, exc_type, exc, tb):
        import signal
        signal.setitimer(signal.ITIMER_VIRTUAL, 0)
        signal.signal(signal.SIGVTALRM, self._old)
        if exc_type is SendTimeout:
            # free what a runaway loop piled up (idle sources referencing containers)
            try:
                mods()['GLib'].LOOP.reset()
            except Exception:
                pass
        return False


class _BusObj(object):
    def connect_to_signal(self, *a, **k):
        return None

    def NameHasOwner(self, name):
        return False


class FakeBus(object):
    def get_object(self, *a, **k):
        return _BusObj()


class FakeCL(object):
    def __init__(self, cap):
        self.cap = cap

    def send_bundle_func(self, raw_config):
        return self.cap


class Rig(object):
    ''' One real agent with a capturing CL and a delivery probe. '''

    def __init__(self, node_id='dtn://node/', mtu=None, rx_action='deliver'):
        m = mods()
        self.m = m
        m['GLib'].LOOP.reset()
        self.config = m['config'].Config(node_id=node_id)
        self.config._bus_conn = FakeBus()
        self.agent = m['agent'].Agent(self.config, bus_kwargs=dict(conn=None, object_path='/a'))
        self.out = []
        self.fail_on = set()       # 0-based indices of the hand-overs (per send request) on which the CL sender raises

        def cap(data):
            idx = len(self.out)
            self.out.append(bytes(data))          # the CL has been handed the octets when it raises
            if idx in self.fail_on:
                raise IOError('CL sender refused hand-over %d' % idx)
        self.cap = cap
        self.agent._cl_agent['none'] = FakeCL(self.cap)
        self.route = m['config'].TxRouteItem(eid_pattern=re.compile('.*'), next_nodeid='x', cl_type='none', mtu=mtu)
        self.config.tx_route_table.append(self.route)
        if rx_action:
            self.config.rx_route_table.append(m['config'].RxRouteItem(re.compile('.*'), rx_action))
        self.delivered = []
        # wall clock of bp.agent (Timestamper) redirected: DTN time = self.clock_ms
        import datetime
        import types
        rig = self
        self.clock_ms = 7000

        class _FD(datetime.datetime):
            @classmethod
            def now(cls, tz=None):
                return datetime.datetime(2000, 1, 1, tzinfo=datetime.timezone.utc) + datetime.timedelta(milliseconds=rig.clock_ms)
        m['agent'].datetime = types.SimpleNamespace(datetime=_FD, timedelta=datetime.timedelta, timezone=datetime.timezone)

        def probe(ctr):
            if 'deliver' in ctr.actions:
                self.delivered.append(bytes(ctr.bundle))
        # in front of the first step of order >= 30, WITHOUT re-sorting the chain (the agent's own order is what runs)
        chain = self.agent._rx_chain
        pos = next((i for i, st in enumerate(chain) if st.order >= 30), len(chain))
        chain.insert(pos, m['util'].ChainStep(order=25, name='probe', action=probe))

    def enable_security(self):
        ''' a security association: HMAC-256 BIB over the payload block of every bundle (security policy on) '''
        import re as _re
        import bp.app.bpsec as bs
        from pycose.keys import SymmetricKey, keyops
        from pycose.keys.keyparam import KpAlg, KpKid, KpKeyOps
        from pycose import algorithms
        ctx = list(self.agent._app['bpsec']._contexts.values())[0]
        key = SymmetricKey(k=bytes(range(32)), optional_params={
            KpAlg: algorithms.HMAC256, KpKid: b'k1', KpKeyOps: [keyops.MacCreateOp, keyops.MacVerifyOp]})
        ctx.sym_key_store[b'k1'] = key
        ctx.sec_assoc.append(bs.SecAssociation(
            src_pat=_re.compile('.*'), dst_pat=_re.compile('.*'), tgt_blk_types=[1],
            templates=[bs.SecOperation(sec_type='bib', role='source', priv_key_id=b'k1')]))

    def set_mtu(self, mtu):
        self.route.mtu = mtu

    def drain(self, limit=100000):
        ''' fire idle sources (FIFO) until none remain; returns escaped exception class names '''
        loop = self.m['GLib'].LOOP
        n = 0
        while True:
            pend = list(loop.pending('idle'))
            if not pend:
                break
            for src in pend:
                loop.fire(src)
                n += 1
                if n > limit:
                    raise RuntimeError('idle sources do not drain')
        esc = [type(e).__name__ for (_s, e) in loop.escaped]
        loop.escaped = []
        return esc

    def container(self, spec):
        m = self.m
        enc = m['enc']
        pri = enc.PrimaryBlock(
            bundle_flags=spec['flags'], crc_type=spec['crc'], destination=spec['dest'], source=spec['src'],
            report_to=spec.get('rpt'), create_ts=enc.Timestamp(dtntime=spec['time'], seqno=spec['seq']),
            lifetime=spec['lifetime'])
        if spec['flags'] & 1:
            pri.fragment_offset = spec.get('fragoff', 0)
            pri.total_app_data_len = spec.get('total', 0)
        blocks = []
        for b in spec['blocks']:
            blocks.append(enc.CanonicalBlock(
                type_code=b['type'], block_num=b['num'], block_flags=b['flags'], crc_type=b['crc'],
                btsd=(None if b['btsd'] is None else bytes.fromhex(b['btsd']))))
        bundle = enc.Bundle(primary=pri, blocks=blocks)
        if spec.get('wire'):
            bundle.fill_fields()
            bundle.update_all_crc()
            bundle = enc.Bundle(bytes(bundle))
        return m['util'].BundleContainer(bundle)

    def send(self, spec, mtu, now_ms=None, as_source=None, fail_on=()):
        ''' one send request (the agent's clock reads DTN time `now_ms`); returns (list of byte strings handed to the CL, escaped class or None,
        escapes in idle callbacks) '''
        self.out = []
        self.fail_on = set(fail_on)
        self.set_mtu(mtu)
        if now_ms is not None:
            self.clock_ms = now_ms
        esc = None
        try:
            ctr = self.container(spec)   # reload() in the constructor may raise (duplicate numbers)
            ctr.route = self.route
            ctr.sender = self.cap
            if as_source is None:
                as_source = spec.get('as_source', True)
            if as_source:
                self.agent.send_bundle(ctr)
            else:
                self.agent.send_bundle(ctr, as_source=False)   # what _do_fwd does
        except Exception as err:  # observable: exception class escaped
            esc = type(err).__name__
        idle_esc = self.drain()
        self.fail_on = set()
        return list(self.out), esc, idle_esc

    def recv(self, data):
        ''' what the CL adaptor does with a received bundle '''
        esc = None
        try:
            self.agent._cl_recv_bundle_finish('t')(data, {})
        except Exception as err:
            esc = type(err).__name__
        return esc

    def reasm_table(self):
        return self.agent._app['fragment']._reassembly


# ---------------------------------------------------------------- spec -> driver JSON

def eid_json(text):
    if text is None or text == 'dtn:none':
        return {}
    if text.startswith('dtn:'):
        return {'dtn': text[4:].encode('utf8').hex()}
    if text.startswith('ipn:'):
        return {'ipn': [int(x) for x in text[4:].split('.')]}
    raise ValueError(text)


def spec_json(spec, wire_crc=None):
    ''' JSON bundle for the driver. wire=True specs carry a layer on every block with data.
    wire_crc: optional list [primary crc hex, block crc hex...] to put real CRC values in. '''
    wire = bool(spec.get('wire'))
    pj = {'flags': spec['flags'], 'crc': spec['crc'], 'dest': eid_json(spec['dest']), 'src': eid_json(spec['src']),
          'rpt': eid_json(spec.get('rpt')), 'time': spec['time'], 'seq': spec['seq'], 'lifetime': spec['lifetime'],
          'fragoff': spec.get('fragoff', 0), 'total': spec.get('total', 0), 'crcv': None}
    if wire_crc is not None:
        pj['crcv'] = wire_crc[0]
    bl = []
    for i, b in enumerate(spec['blocks']):
        bl.append({'type': b['type'], 'num': b['num'], 'flags': b['flags'], 'crc': b['crc'], 'btsd': b['btsd'],
                   'crcv': (wire_crc[i + 1] if wire_crc is not None else None),
                   'layer': (b['btsd'] if wire else None)})
    return {'primary': pj, 'blocks': bl}


# ---------------------------------------------------------------- independent CBOR reader

class ParseError(Exception):
    pass


def _head(buf, pos):
    if pos >= len(buf):
        raise ParseError('eof')
    ib = buf[pos]
    mt, ai = ib >> 5, ib & 31
    pos += 1
    if ai < 24:
        return mt, ai, pos
    if ai in (24, 25, 26, 27):
        k = 1 << (ai - 24)
        if pos + k > len(buf):
            raise ParseError('eof in head')
        return mt, int.from_bytes(buf[pos:pos + k], 'big'), pos + k
    raise ParseError('ai %d' % ai)


def item(buf, pos):
    ''' decode one definite item -> (value, newpos); bstr->bytes, tstr->str, null->None '''
    if buf[pos] == 0xf6:
        return None, pos + 1
    mt, n, pos = _head(buf, pos)
    if mt == 0:
        return n, pos
    if mt == 2:
        if pos + n > len(buf):
            raise ParseError('bstr eof')
        return bytes(buf[pos:pos + n]), pos + n
    if mt == 3:
        if pos + n > len(buf):
            raise ParseError('tstr eof')
        return buf[pos:pos + n].decode('utf8'), pos + n
    if mt == 4:
        out = []
        for _ in range(n):
            v, pos = item(buf, pos)
            out.append(v)
        return out, pos
    raise ParseError('major type %d' % mt)


def read_bundle(data):
    ''' -> {'primary': {...}, 'blocks': [{...}], 'spans': [(start,end) per block incl. primary]} '''
    data = bytes(data)
    if not data or data[0] != 0x9f or data[-1] != 0xff:
        raise ParseError('frame')
    pos = 1
    arrs = []
    spans = []
    while pos < len(data) - 1:
        st = pos
        v, pos = item(data, pos)
        if not isinstance(v, list):
            raise ParseError('block is not an array')
        arrs.append(v)
        spans.append((st, pos))
    if pos != len(data) - 1 or not arrs:
        raise ParseError('trailing')
    p = arrs[0]
    if len(p) < 8:
        raise ParseError('primary length')
    pri = {'version': p[0], 'flags': p[1], 'crc': p[2], 'dest': p[3], 'src': p[4], 'rpt': p[5],
           'time': p[6][0], 'seq': p[6][1], 'lifetime': p[7]}
    rest = p[8:]
    if pri['flags'] & 1:
        pri['fragoff'], pri['total'] = rest[0], rest[1]
        rest = rest[2:]
    pri['crcv'] = rest[0] if pri['crc'] else None
    if len(rest) != (1 if pri['crc'] else 0):
        raise ParseError('primary arity')
    blocks = []
    for a in arrs[1:]:
        if len(a) not in (5, 6):
            raise ParseError('block arity')
        blocks.append({'type': a[0], 'num': a[1], 'flags': a[2], 'crc': a[3], 'btsd': a[4],
                       'crcv': (a[5] if len(a) == 6 else None)})
        if (len(a) == 6) != (a[3] != 0):
            raise ParseError('crc arity')
    return {'primary': pri, 'blocks': blocks, 'spans': spans}


# ---------------------------------------------------------------- independent CRCs (bitwise)

def crc16_x25(data):
    crc = 0xffff
    for byte in data:
        crc ^= byte
        for _ in range(8):
            crc = (crc >> 1) ^ 0x8408 if crc & 1 else crc >> 1
    return crc ^ 0xffff


_CRC32C_TABLE = None


def crc32c(data):
    global _CRC32C_TABLE
    if _CRC32C_TABLE is None:
        tbl = []
        for i in range(256):
            c = i
            for _ in range(8):
                c = (c >> 1) ^ 0x82f63b78 if c & 1 else c >> 1
            tbl.append(c)
        _CRC32C_TABLE = tbl
    crc = 0xffffffff
    for byte in data:
        crc = _CRC32C_TABLE[(crc ^ byte) & 0xff] ^ (crc >> 8)
    return crc ^ 0xffffffff


def patch_crcs(data):
    ''' the model driver emits zero CRC values; put the real ones in (CRC over the block with a
    zero CRC value, RFC 9171 §4.2.1), using only the reader above '''
    data = bytearray(data)
    parsed = read_bundle(data)
    items = [parsed['primary']] + parsed['blocks']
    for (st, en), it in zip(parsed['spans'], items):
        t = it['crc']
        if t == 0:
            continue
        w = 2 if t == 1 else 4
        # the CRC value is the last item of the array: bstr head (1 octet) + w octets
        if data[en - w - 1] != 0x40 + w:
            raise ParseError('crc field shape')
        data[en - w:en] = bytes(w)
        val = crc16_x25(bytes(data[st:en])) if t == 1 else crc32c(bytes(data[st:en]))
        data[en - w:en] = val.to_bytes(w, 'big')
    return bytes(data)


def check_crcs(data):
    ''' True when every CRC-bearing block of the encoded bundle has a valid CRC '''
    return patch_crcs(data) == bytes(data)


# ---------------------------------------------------------------- independent encoder (C06 inputs)

def enc_head(mt, n):
    if n < 24:
        return bytes([mt * 32 + n])
    for ai, k in ((24, 1), (25, 2), (26, 4), (27, 8)):
        if n < 256 ** k:
            return bytes([mt * 32 + ai]) + n.to_bytes(k, 'big')
    raise ValueError(n)


def enc_eid(text):
    if text is None or text == 'dtn:none':
        return b'\x82\x01\x00'
    if text.startswith('dtn:'):
        ssp = text[4:].encode('utf8')
        return b'\x82\x01' + enc_head(3, len(ssp)) + ssp
    parts = [int(x) for x in text[4:].split('.')]
    return b'\x82\x02' + enc_head(4, len(parts)) + b''.join(enc_head(0, p) for p in parts)


def _with_crc(fields, t):
    if t == 0:
        return enc_head(4, len(fields)) + b''.join(fields)
    w = 2 if t == 1 else 4
    body = enc_head(4, len(fields) + 1) + b''.join(fields)
    pre = body + enc_head(2, w) + bytes(w)
    val = crc16_x25(pre) if t == 1 else crc32c(pre)
    return body + enc_head(2, w) + val.to_bytes(w, 'big')


def encode_bundle(spec):
    ''' encode a spec (see module doc) with valid CRCs, independently of /repo '''
    f = [enc_head(0, 7), enc_head(0, spec['flags']), enc_head(0, spec['crc']), enc_eid(spec['dest']), enc_eid(spec['src']),
         enc_eid(spec.get('rpt')), b'\x82' + enc_head(0, spec['time']) + enc_head(0, spec['seq']), enc_head(0, spec['lifetime'])]
    if spec['flags'] & 1:
        f += [enc_head(0, spec.get('fragoff', 0)), enc_head(0, spec.get('total', 0))]
    out = b'\x9f' + _with_crc(f, spec['crc'])
    for b in spec['blocks']:
        d = b'\xf6' if b['btsd'] is None else (lambda x: enc_head(2, len(x)) + x)(bytes.fromhex(b['btsd']))
        out += _with_crc([enc_head(0, b['type']), enc_head(0, b['num']), enc_head(0, b['flags']), enc_head(0, b['crc']), d], b['crc'])
    return out + b'\xff'


def cbor_eid_json(v):
    ''' parsed EID ([1, 0] / [1, '//x'] / [2, [a, b]]) -> driver JSON '''
    if v[0] == 1:
        return {} if v[1] == 0 else {'dtn': v[1].encode('utf8').hex()}
    return {'ipn': list(v[1])}


def parsed_json(p, layer=True):
    ''' reader output -> driver JSON bundle (with the CRC values found on the wire; blocks carry a layer, as
    every dissected block does) '''
    q = p['primary']
    pj = {'flags': q['flags'], 'crc': q['crc'], 'dest': cbor_eid_json(q['dest']), 'src': cbor_eid_json(q['src']),
          'rpt': cbor_eid_json(q['rpt']), 'time': q['time'], 'seq': q['seq'], 'lifetime': q['lifetime'],
          'fragoff': q.get('fragoff', 0), 'total': q.get('total', 0), 'crcv': (q['crcv'].hex() if q['crcv'] is not None else None)}
    bl = []
    for b in p['blocks']:
        h = None if b['btsd'] is None else b['btsd'].hex()
        bl.append({'type': b['type'], 'num': b['num'], 'flags': b['flags'], 'crc': b['crc'], 'btsd': h,
                   'crcv': (b['crcv'].hex() if b['crcv'] is not None else None), 'layer': (h if layer else None)})
    return {'primary': pj, 'blocks': bl}


def head_len(n):
    return 1 if n < 24 else 2 if n < 256 else 3 if n < 65536 else 5 if n < 2 ** 32 else 9


def hexs(lst):
    return [bytes(x).hex() for x in lst]


if __name__ == '__main__':
    sys.exit(0)
