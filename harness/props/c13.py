''' C13 — UDPCL transfers arrive intact and no datagram exceeds the MTU.

Proof: DtnVerif.Props.C13 (model DtnVerif.Model.Udpcl).
Correspondence (real `udpcl.agent.Agent`, in-process, no sockets, no D-Bus):
  * `_send_transfer(item)` datagram lists vs `udpcl.send` (termination included);
  * `_recv_datagram(sock, data, conv)` sequences vs `udpcl.recv`: exception escaped / not per
    datagram, `recv_bundle_get_queue`, `recv_bundle_pop_data`, `recv_bundle_finished` signals;
  * `range_encode/range_decode` vs `udpcl.range_enc/udpcl.range_dec`.
Monitors (pure Python, own CBOR reader/writer, nothing from the repository): every datagram ≤ MTU;
data fields by offset tile the bundle, each octet once; exactly one queued copy equal to the
original once every segment has arrived, nothing queued for a transfer while octets are missing;
every queued bundle is one that was sent; an MTU too small to segment fails (`ValueError`,
`send_bundle_finished(..., 'failed')`, no datagram). A send that does not finish would be reported
as `C13:mtu-too-small-nonterminating`; the CPU-time guard keeps the check from hanging.
'''
import ipaddress
import itertools
import json
import signal
import socket
import sys
from io import BytesIO

import boot

BOUNDS = (24, 256, 65536)
PEERS = [('10.0.0.2', 4556), ('10.0.0.3', 4556), ('10.0.0.2', 4557)]


# ---------------------------------------------------------------- independent CBOR (monitors)
def hl(n):
    return 1 if n < 24 else 2 if n < 256 else 3 if n < 65536 else 5 if n < 2 ** 32 else 9


def cb_head(mt, n):
    if n < 24:
        return bytes([mt * 32 + n])
    for ai, k in ((24, 1), (25, 2), (26, 4), (27, 8)):
        if n < 256 ** k:
            return bytes([mt * 32 + ai]) + n.to_bytes(k, 'big')
    raise ValueError(n)


def enc_transfer(xid, total, off, chunk):
    return (b'\xa1\x02\x84' + cb_head(0, xid) + cb_head(0, total) + cb_head(0, off)
            + cb_head(2, len(chunk)) + chunk)


def rd_head(buf, pos):
    b = buf[pos]
    mt, ai = b >> 5, b & 31
    if ai < 24:
        return mt, ai, pos + 1
    k = {24: 1, 25: 2, 26: 4, 27: 8}[ai]
    return mt, int.from_bytes(buf[pos + 1:pos + 1 + k], 'big'), pos + 1 + k


def rd_transfer(buf):
    ''' {2: [id, total, off, bstr]} exactly, nothing after it; else None '''
    try:
        mt, n, p = rd_head(buf, 0)
        if (mt, n) != (5, 1):
            return None
        mt, n, p = rd_head(buf, p)
        if (mt, n) != (0, 2):
            return None
        mt, n, p = rd_head(buf, p)
        if (mt, n) != (4, 4):
            return None
        vals = []
        for _ in range(3):
            mt, n, p = rd_head(buf, p)
            if mt != 0:
                return None
            vals.append(n)
        mt, n, p = rd_head(buf, p)
        if mt != 2 or p + n != len(buf):
            return None
        return vals[0], vals[1], vals[2], bytes(buf[p:p + n])
    except (IndexError, KeyError):
        return None


def overhead(xid, total):
    return 3 + hl(xid) + 3 * hl(total)


# ---------------------------------------------------------------- the implementation under test
class Hang(Exception):
    pass


def _on_vtalrm(_sig, _frm):
    raise Hang()


def guarded(fn, secs):
    ''' run fn() under a CPU-time bound (SIGVTALRM; the global wall alarm of check.py is SIGALRM).
    The timer repeats: an exception raised inside a C callback that swallows it (cbor2 → abc
    instance checks) would otherwise be lost and the loop would go on for ever. '''
    old = signal.signal(signal.SIGVTALRM, _on_vtalrm)
    oldhook = sys.unraisablehook
    sys.unraisablehook = lambda _u: None
    signal.setitimer(signal.ITIMER_VIRTUAL, secs, 0.01)
    try:
        return fn()
    finally:
        signal.setitimer(signal.ITIMER_VIRTUAL, 0)
        signal.signal(signal.SIGVTALRM, old)
        sys.unraisablehook = oldhook


class FakeRxSock(object):
    ''' stands in for a bound UDP socket: recvmsg returns the prepared datagram with the ancillary data a Linux
    socket with IP_RECVTOS / IP_PKTINFO delivers; sendmsg records '''
    family = socket.AF_INET

    def __init__(self, ua, sink=None):
        self.ua = ua
        self.next = None
        self.sent = sink if sink is not None else []

    def recvmsg(self, datalen, _anclen):
        import struct
        data, fromaddr, local = self.next
        anc = [(socket.IPPROTO_IP, socket.IP_TOS, bytes([0])),
               (socket.IPPROTO_IP, self.ua.IP_PKTINFO, struct.pack('@I4s4s', 1, socket.inet_aton(local), socket.inet_aton(local)))]
        return data[:datalen], anc, 0, fromaddr

    def getsockname(self):
        return ('0.0.0.0', 4556)

    def sendmsg(self, bufs, _anc=None, _flags=0, addr=None):
        self.sent.append((addr[0] if addr else None, b''.join(bytes(b) for b in bufs)))

    def setsockopt(self, *a, **k):
        pass

    def fileno(self):
        return -1

    def close(self):
        pass


class Rig(object):
    def __init__(self):
        boot.boot()
        import udpcl.agent as ua
        import udpcl.config as uc
        self.ua, self.uc = ua, uc

    def agent(self, mtu=None, require_tls=False):
        cfg = self.uc.Config()
        cfg._bus_conn = object()
        cfg.mtu_default = mtu
        cfg.require_tls = require_tls
        return self.ua.Agent(cfg, bus_kwargs=dict(conn=None, object_path='/x'))

    def send(self, xid, data, mtu, secs):
        ''' _send_transfer(item) → ('ok', datagrams) | ('failed', exception class) | ('hang', None) '''
        ag = self.agent(mtu)
        item = self.ua.BundleItem(address='10.0.0.1', port=4556, file=BytesIO(data), transfer_id=xid,
                                  total_length=len(data))
        try:
            return 'ok', [bytes(s) for s in guarded(lambda: list(ag._send_transfer(item)), secs)]
        except Hang:
            return 'hang', None
        except Exception as err:   # noqa: the escaped exception class is the observable
            return 'failed', type(err).__name__

    def process_tx(self, xid, data, mtu, secs):
        ''' the transfer through _add_tx_item + _process_tx_queue with a recording socket →
        (datagrams handed to the pacing queue, [(signal, args)] emitted, escaped exception or None) '''
        ag = self.agent(mtu)
        sent = []

        class FakeSock(object):
            def sendmsg(self, bufs, *a, **k):
                sent.append(b''.join(bufs))

            def sendto(self, buf, *a, **k):
                sent.append(bytes(buf))

            def setsockopt(self, *a, **k):
                pass

            def fileno(self):
                return -1

            def close(self):
                pass

        orig = self.ua.Conversation.make_local_socket
        self.ua.Conversation.make_local_socket = lambda _self: FakeSock()
        try:
            item = self.ua.BundleItem(address='10.0.0.1', port=4556, file=BytesIO(data), transfer_id=xid)
            ag._add_tx_item(item)
            handed = []

            def go():
                ag._process_tx_queue()
                for sw in ag._send_wait.values():
                    for ti in list(sw.tx_item_queue) + list(sw.pri_item_queue):
                        for d in ti.dgram_iter:
                            handed.append(bytes(d))
            try:
                guarded(go, secs)
                esc = None
            except Hang:
                return None, None, 'hang'
            except Exception as err:   # noqa
                esc = type(err).__name__
            for sw in ag._send_wait.values():
                sw.stop()
            sigs = [(name, tuple(args)) for (_p, name, _sig, args) in ag._verif_signals
                    if name.startswith('send_bundle')]
            return handed + sent, sigs, esc
        finally:
            self.ua.Conversation.make_local_socket = orig

    def process_tx_series(self, start_id, datas, mtu, secs=8.0):
        ''' ONE agent whose transfer counter starts at `start_id` sends `datas` one after the other through
        send_bundle_data + _process_tx_queue → [(id announced by send_bundle_started, datagrams handed on,
        finished signals, escaped)] '''
        ag = self.agent(mtu)
        ag._tx_id = start_id

        class FakeSock(object):
            def sendmsg(self, *a, **k):
                pass

            def sendto(self, *a, **k):
                pass

            def setsockopt(self, *a, **k):
                pass

            def fileno(self):
                return -1

            def close(self):
                pass

        orig = self.ua.Conversation.make_local_socket
        self.ua.Conversation.make_local_socket = lambda _self: FakeSock()
        out = []
        try:
            for data in datas:
                nsig = len(ag._verif_signals)
                handed = []

                def go():
                    ag.send_bundle_data(list(data), {'address': '10.0.0.1'})
                    ag._process_tx_queue()
                    for sw in ag._send_wait.values():
                        while sw.tx_item_queue:
                            ti = sw.tx_item_queue.pop(0)
                            for d in ti.dgram_iter:
                                handed.append(bytes(d))
                try:
                    guarded(go, secs)
                    esc = None
                except Hang:
                    esc = 'hang'
                except Exception as err:   # noqa
                    esc = type(err).__name__
                sigs = [(name, tuple(args)) for (_p, name, _sig, args) in ag._verif_signals[nsig:] if name.startswith('send_bundle')]
                started = [a[0] for (n, a) in sigs if n == 'send_bundle_started']
                out.append((started[0] if started else None, handed, [list(a) for (n, a) in sigs if n == 'send_bundle_finished'], esc))
            for sw in ag._send_wait.values():
                sw.stop()
            return out
        finally:
            self.ua.Conversation.make_local_socket = orig

    def deliver(self, ag, via, addr, port, data, sock=None, plain_sock=None):
        ''' hand one datagram to the agent: directly to `_recv_datagram`, through the socket callback
        `_sock_recvfrom` (a recording socket that returns the datagram from recvmsg), or through the DTLS
        plaintext callback `_dtlsconn_recv` → 'done' | 'raised:<class>' | 'hang' | 'stopped-listening' '''
        import struct
        ua = self.ua

        def go():
            if via == 'sock':
                lsock = plain_sock if plain_sock is not None else FakeRxSock(ua)
                lsock.next = (data, (addr, port), '10.0.0.1')
                return ag._sock_recvfrom(lsock)
            conv = ua.Conversation(family=socket.AF_INET, peer_address=ipaddress.ip_address(addr), peer_port=port)
            if via == 'dtls':
                class Conn(object):
                    def read(self, _n):
                        return data
                return ag._dtlsconn_recv(None, None, Conn(), conv)
            ag._recv_datagram(sock, data, conv)
            return True
        try:
            keep = guarded(go, 3.0)
        except Hang:
            return 'hang'
        except Exception as err:   # noqa: escaped exception class is the observable
            return 'raised:' + type(err).__name__
        return 'done' if keep else 'stopped-listening'

    def recv(self, dgrams, reject=False, via='direct'):
        ''' → (outcomes, queue-size snapshots, final queue [{id,addr,port,len,hex}]) '''
        ag = self.agent(None, require_tls=reject)
        sock = object() if reject else None
        outs, snaps = [], []
        for d in dgrams:
            outs.append(self.deliver(ag, 'direct' if reject else via, d['addr'], d['port'], bytes.fromhex(d['hex']), sock=sock))
            snaps.append(len(ag.recv_bundle_get_queue()))
        sigs = {}
        for (_p, name, _sig, args) in ag._verif_signals:
            if name == 'recv_bundle_finished':
                sigs[str(args[0])] = (int(args[1]), dict(args[2]))
        queue = []
        for bid in list(ag.recv_bundle_get_queue()):
            data = bytes(ag.recv_bundle_pop_data(bid))
            ln, meta = sigs.get(str(bid), (None, {}))
            queue.append({'id': int(bid), 'addr': meta.get('address'), 'port': meta.get('port'), 'len': ln,
                          'hex': data.hex()})
        return outs, snaps, queue, len(ag._rx_fragments)


# ---------------------------------------------------------------- send side
def payload(n, salt=0):
    # starts like a BPv7 bundle (indefinite array), never all-zero
    body = bytes(((i * 13 + salt) % 251) + 1 for i in range(n))
    return (b'\x9f' + body[1:]) if n else b''


def zpayload(n, kind):
    ''' bundle-shaped data rich in zero octets: segments then end in 0x00 at many MTUs '''
    if kind == 0:
        return bytes(n)                                          # all zeros
    if kind == 1:
        return (b'\x9f' + bytes(n - 2) + b'\xff') if n >= 2 else bytes(n)
    k = kind + 1
    return bytes(0 if i % k == k - 1 else (i * 13) % 251 + 1 for i in range(n))


def send_monitors(xid, data, mtu, segs):
    ''' independent predicates on the datagram list of one send → [(signature, what)] '''
    out = []
    if mtu is not None:
        big = [len(s) for s in segs if len(s) > mtu]
        if big:
            out.append(('C13:datagram-over-mtu', 'datagram of %d octets for MTU %d' % (big[0], mtu)))
    if mtu is None or len(data) < mtu:
        if segs != [data]:
            out.append(('C13:single-datagram-altered', 'bundle fits but was not sent as itself'))
        return out
    pos = 0
    for s in segs:
        t = rd_transfer(s)
        if t is None:
            out.append(('C13:segment-not-a-transfer-map', s[:24].hex()))
            return out
        if t[0] != xid or t[1] != len(data):
            out.append(('C13:segment-wrong-id-or-total', repr(t[:3])))
        if t[2] != pos or not t[3] or t[3] != data[pos:pos + len(t[3])]:
            out.append(('C13:segments-do-not-tile', 'offset %d expected %d' % (t[2], pos)))
            return out
        pos += len(t[3])
    if pos != len(data):
        out.append(('C13:segments-do-not-tile', 'covered %d of %d octets' % (pos, len(data))))
    return out


def send_cases(chk):
    rng = chk.rng
    thorough = chk.tier == 'thorough'
    cases = []
    w = 3 if thorough else 2
    ids = [0, 23, 24, 255, 256, 65535, 65536, 2 ** 32 - 1, 2 ** 32] if thorough else [0, 24, 65536]
    lens = set()
    for b in BOUNDS:
        for d in range(-w, w + 1):
            lens.add(b + d)
    lens |= {0, 1, 7, 100, 1000, 4000}
    for L in sorted(lens):
        for xid in (ids if L < 1000 else ids[:2]):
            ov = overhead(xid, L)
            mtus = {L - 1, L, L + 1, L + 2}
            for r in range(-2, 4):           # remain_size from -2 to 3
                mtus.add(ov + r)
            for b in BOUNDS:                 # segment sizes around head boundaries
                for d in (-1, 0, 1):
                    mtus.add(ov + b + d)
            mtus |= {0, 1, 576, 1280}
            if not thorough and L > 60000:
                # quick tier: 64 KiB bundles only where their size matters (the driver pays per octet)
                if xid != ids[0]:
                    continue
                mtus = {L - 1, L, L + 1, ov, ov + 24, ov + 65535, ov + 65536, ov + 65537, 1280}
            for m in sorted(x for x in mtus if x >= 0):
                nseg = 1 if L < m else (L // (m - ov) + 1 if m > ov else 0)
                if nseg > (70000 if thorough else 3000) and rng.random() > 0.05:
                    continue
                cases.append((xid, L, m))
    cases.append((5, 200, None))
    for _ in range(400 if thorough else 60):
        L = rng.choice([rng.randrange(0, 600), rng.randrange(0, 70000)])
        xid = rng.choice(ids)
        m = rng.choice([None, rng.randrange(0, 80), rng.randrange(0, 2000), L + rng.randrange(-2, 3)])
        if m is not None and m < 0:
            m = 0
        cases.append((xid, L, m))
    return cases


def run_send(chk, rig, cases):
    reqs, obs = [], []
    hang_budget = 12      # a regression to the endless loop must not turn the check into a timeout
    for (xid, L, m) in cases:
        data = payload(L, xid % 7)
        small = m is not None and L >= m and m - overhead(xid, L) <= 0      # independent arithmetic
        if small and hang_budget <= 0:
            chk.count('send:too-small-mtu-not-run-after-%d-hangs' % 12)
            continue
        kind, segs = rig.send(xid, data, m, 0.3 if small else 4.0)
        if kind == 'hang' and not small:
            chk.count('send:guard-retry')
            kind, segs = rig.send(xid, data, m, 30.0)
        if kind == 'hang':
            hang_budget -= 1
        ptx = None
        if kind == 'hang':
            pass
        elif small or (m is not None and L >= m and L // max(1, m - overhead(xid, L)) <= 300) or (m is None or L < m) and L <= 5000:
            ptx = rig.process_tx(xid, data, m, 0.3 if small else 8.0)
        reqs.append({'op': 'udpcl.send', 'id': xid, 'data': data.hex(), **({} if m is None else {'mtu': m})})
        obs.append((xid, data, m, kind, segs, small, ptx))
    answers = chk.driver(reqs) if reqs else []
    for (xid, data, m, kind, segs, small, ptx), ans in zip(obs, answers):
        rep = {'kind': 'send', 'id': xid, 'data': data.hex() if len(data) <= 64 else None, 'len': len(data),
               'salt': xid % 7, 'mtu': m}
        chk.case({'id': xid, 'len': len(data), 'mtu': m}, nontrivial=True,
                 sample=(m is not None and len(data) >= m and len(data) < 300))
        chk.cov['traces_validated_against_impl'] += 1
        chk.count('send:total-head-%d' % hl(len(data)))
        if kind == 'hang':
            chk.count('send:nonterminating')
            chk.corr_break('_send_transfer does not finish (the model always does)', rep)
            chk.violation('C13:mtu-too-small-nonterminating',
                          '_send_transfer(id=%d, %d octets) with mtu_default=%s does not return: remain_size=%s '
                          '(CPU-time guard fired)' % (xid, len(data), m, ans.get('remain')), rep)
            continue
        if kind == 'failed':
            chk.count('send:failed-%s' % segs)
            if not ans.get('failed'):
                chk.corr_break('_send_transfer raised %s where the model produces datagrams' % segs, rep)
            if not small:
                chk.violation('C13:send-fails-although-mtu-suffices',
                              '_send_transfer(id=%d, %d octets, mtu_default=%s) raised %s although remain_size > 0 or the bundle fits'
                              % (xid, len(data), m, segs), rep)
        else:
            chk.count('send:single' if len(segs) == 1 and (m is None or len(data) < m) else
                      'send:segments-%s' % ('0-1' if len(segs) <= 1 else '2-6' if len(segs) <= 6 else '7-99' if len(segs) < 100 else '100+'))
            if ans.get('failed'):
                chk.corr_break('model fails where _send_transfer produces %d datagrams' % len(segs), rep)
            elif [s.hex() for s in segs] != ans.get('segs'):
                chk.corr_break('datagram lists differ (impl %d, model %d datagrams)' % (len(segs), len(ans.get('segs', []))), rep)
            for sig, what in send_monitors(xid, data, m, segs):
                chk.violation(sig, what, rep)
        if ptx is None:
            continue
        # the same transfer through _process_tx_queue: datagrams handed on and signals
        handed, sigs, esc = ptx
        chk.count('tx-queue:cases')
        if esc == 'hang':
            chk.violation('C13:mtu-too-small-nonterminating', '_process_tx_queue does not return for id=%d, %d octets, mtu_default=%s'
                          % (xid, len(data), m), rep)
            continue
        fin = [list(a) for (n, a) in sigs if n == 'send_bundle_finished']
        fin = [[str(a[0]), int(a[1]), str(a[2])] for a in fin]
        want_fin = [ans['finished']] if ans.get('finished') else []
        if esc is not None or [d.hex() for d in handed] != ans.get('handed') or fin != want_fin:
            chk.corr_break('_process_tx_queue differs: escaped %s, %d datagrams handed (model %d), finished signals %s (model %s)'
                           % (esc, len(handed), len(ans.get('handed', [])), fin, want_fin), rep)
        if small:
            chk.count('tx-queue:failed-signalled')
            if handed or fin != [[str(xid), len(data), 'failed']] or esc is not None:
                chk.violation('C13:mtu-too-small-not-failed',
                              'MTU %s leaves no room for data (id=%d, %d octets) but _process_tx_queue handed on %d datagrams, '
                              'signalled %s, escaped %s; expected no datagram and send_bundle_finished(..., "failed")'
                              % (m, xid, len(data), len(handed), fin, esc), rep)
        else:
            if fin or esc is not None:
                chk.violation('C13:send-fails-although-mtu-suffices',
                              '_process_tx_queue signalled %s / escaped %s for id=%d, %d octets, mtu_default=%s' % (fin, esc, xid, len(data), m), rep)
            for sig, what in send_monitors(xid, data, m, handed):
                chk.violation(sig, what, rep)


def run_send_series(chk, rig):
    ''' several same-length transfers from ONE agent whose transfer ids cross a CBOR head boundary, with a
    (length, MTU) pair that leaves no slack: the sizing must follow the id of each transfer '''
    thorough = chk.tier == 'thorough'
    pairs = [(1000, 400), (300, 60)] + ([(256, 100), (70000, 1280), (24, 24), (65536, 9000)] if thorough else [])
    reqs, obs = [], []
    for b in (24, 256, 65536, 2 ** 32):
        for (L, m) in pairs:
            ids = list(range(b - 2, b + 2))
            datas = [payload(L, 3) for _i in ids]
            res = rig.process_tx_series(ids[0], datas, m)
            for xid, data, r in zip(ids, datas, res):
                reqs.append({'op': 'udpcl.send', 'id': xid, 'data': data.hex(), 'mtu': m})
                obs.append((ids[0], xid, data, m, r))
    for (first, xid, data, m, (started, handed, fin, esc)), ans in zip(obs, chk.driver(reqs)):
        rep = {'kind': 'series', 'first_id': first, 'n': xid - first + 1, 'len': len(data), 'salt': 3, 'mtu': m}
        chk.case({'series': first, 'id': xid, 'len': len(data), 'mtu': m}, nontrivial=True, sample=(xid == first + 2 and m == 400))
        chk.cov['traces_validated_against_impl'] += 1
        chk.count('send-series:transfers')
        if esc == 'hang':
            chk.violation('C13:mtu-too-small-nonterminating', 'transfer %d of a series does not return (mtu %d, %d octets)' % (xid, m, len(data)), rep)
            continue
        if str(started) != str(xid):
            chk.violation('C13:tx-id-wrong', 'the transfer after counter value %d was started as %r' % (xid, started), rep)
        if esc is not None or [d.hex() for d in handed] != ans.get('handed') or bool(fin) != bool(ans.get('finished')):
            chk.corr_break('transfer %d of a series from one agent differs from the model: escaped %s, datagram sizes %s (model %s), finished %s'
                           % (xid, esc, [len(d) for d in handed][:6], [len(h) // 2 for h in ans.get('handed', [])][:6], fin), rep)
        if not fin:
            for sig, what in send_monitors(xid, data, m, handed):
                chk.violation(sig, 'transfer id %d (series starting at id %d on one agent): %s' % (xid, first, what), rep)


# ---------------------------------------------------------------- receive side
class Ref(object):
    ''' independent reference receiver over structured messages (not octets) '''

    def __init__(self):
        self.part = {}
        self.queue = []

    def seg(self, peer, xid, total, off, chunk):
        key = (peer, xid)
        st = self.part.get(key)
        if st is None:
            st = self.part[key] = {'total': total, 'have': {}}
        elif st['total'] != total:
            return 'raised'
        for i, b in enumerate(chunk):
            st['have'][off + i] = b
        if len(st['have']) == total and all(i < total for i in st['have']):
            del self.part[key]
            self.queue.append((peer, bytes(st['have'][i] for i in range(total))))
        return 'done'

    def bundle(self, peer, data):
        self.queue.append((peer, data))


def split_parts(rng, data, n):
    cuts = sorted(rng.sample(range(1, len(data)), n - 1)) if n > 1 else []
    cuts = [0] + cuts + [len(data)]
    return [(cuts[i], data[cuts[i]:cuts[i + 1]]) for i in range(n)]


def cbor_bundle(rng, salt):
    ''' small self-delimiting arrays of the kinds a BPv7 bundle is made of '''
    inner = cb_head(4, 3) + cb_head(0, 7) + cb_head(0, salt + 300) + cb_head(2, 4) + bytes([salt % 200 + 1] * 4)
    kind = rng.randrange(4)
    if kind == 0:
        return b'\x9f' + inner + cb_head(4, 2) + cb_head(1, 5) + cb_head(3, 3) + b'abc' + b'\xff'
    if kind == 1:
        return cb_head(4, 2) + inner + cb_head(2, 30) + bytes(range(1, 31))
    if kind == 2:
        return b'\x9f' + b'\x9f' + cb_head(0, 70000) + b'\xff' + cb_head(5, 1) + cb_head(0, 1) + cb_head(7, 20) + b'\xff'
    return cb_head(4, 0)


def mk_scenario(rng, transfers, order, dup=0, compose=0.0, pad=0.0, extras=0):
    ''' transfers: [(peer, xid, data, parts)], order: list of (ti, pi). → scenario dict with the
    octets of every datagram and the structured messages (for the reference monitor). '''
    msgs = [('seg', transfers[ti][0], transfers[ti][1], len(transfers[ti][2]), transfers[ti][3][pi][0],
             transfers[ti][3][pi][1]) for (ti, pi) in order]
    for _ in range(dup):
        msgs.insert(rng.randrange(len(msgs) + 1), rng.choice(msgs))
    for i in range(extras):
        peer = rng.choice(PEERS)
        msgs.insert(rng.randrange(len(msgs) + 1), ('bundle', peer, cbor_bundle(rng, i)))
    dgrams, meta = [], []
    i = 0
    while i < len(msgs):
        grp = [msgs[i]]
        while i + len(grp) < len(msgs) and msgs[i + len(grp)][1] == grp[0][1] and rng.random() < compose:
            grp.append(msgs[i + len(grp)])
        i += len(grp)
        raw = b''
        for m in grp:
            raw += enc_transfer(m[2], m[3], m[4], m[5]) if m[0] == 'seg' else m[2]
        if rng.random() < pad:
            raw += b'\x00' * rng.randrange(1, 5) + rng.choice([b'', b'\xa1\x02', b'\x9f\x01'])
        dgrams.append({'addr': grp[0][1][0], 'port': grp[0][1][1], 'hex': raw.hex()})
        meta.append([[m[0], list(m[1])] + ([m[2], m[3], m[4], m[5].hex()] if m[0] == 'seg' else [m[2].hex()])
                     for m in grp])
    return {'kind': 'recv', 'reject': False, 'dgrams': dgrams, 'meta': meta,
            'nodup': dup == 0, 'bundles': [[list(t[0]), t[1], t[2].hex()] for t in transfers]}


def recv_monitors(sc, outs, snaps, queue):
    ''' independent predicates on what the agent queued → [(signature, what)] '''
    out = []
    meta = sc.get('meta')
    if meta is None:
        return out
    ref = Ref()
    refsnaps = []
    for grp in meta:
        for m in grp:
            if m[0] == 'seg':
                ref.seg(tuple(m[1]), m[2], m[3], m[4], bytes.fromhex(m[5]))
            else:
                ref.bundle(tuple(m[1]), bytes.fromhex(m[2]))
        refsnaps.append(len(ref.queue))
    sent = set(b[2] for b in sc.get('bundles', [])) | set(m[2] for g in meta for m in g if m[0] == 'bundle')
    for q in queue:
        if q['hex'] not in sent:
            out.append(('C13:queued-bundle-corrupt-or-partial', 'queued %d octets that are no bundle that was sent' % (len(q['hex']) // 2)))
            break
    if any(o != 'done' for o in outs):
        out.append(('C13:exception-on-wellformed-datagram', repr([o for o in outs if o != 'done'][:2])))
    for i, (a, b) in enumerate(zip(snaps, refsnaps)):
        if a > b:
            out.append(('C13:queued-while-octets-missing', 'after datagram %d: %d queued, %d complete' % (i, a, b)))
            break
        if a < b:
            out.append(('C13:complete-transfer-not-queued', 'after datagram %d: %d queued, %d complete' % (i, a, b)))
            break
    if sc.get('nodup'):
        got = sorted((q['addr'], q['port'], q['hex']) for q in queue)
        want = sorted([(b[0][0], b[0][1], b[2]) for b in sc['bundles']]
                      + [(m[1][0], m[1][1], m[2]) for g in meta for m in g if m[0] == 'bundle'])
        if got != want and not out:
            out.append(('C13:not-exactly-one-copy', '%d queued for %d sent' % (len(got), len(want))))
    if [q['hex'] for q in queue] != [d.hex() for (_p, d) in ref.queue] and not out:
        out.append(('C13:queue-order-or-content', 'queue differs from the reference receiver'))
    for q in queue:
        if q['len'] != len(q['hex']) // 2:
            out.append(('C13:signal-length-wrong', 'recv_bundle_finished length %s for %d octets' % (q['len'], len(q['hex']) // 2)))
            break
    return out


def recv_scenarios(chk, rig):
    rng = chk.rng
    thorough = chk.tier == 'thorough'
    scs = []
    # (a) all permutations (thorough) / random orders (quick) of ≤ 6 segments, with and without duplicates
    for n in range(1, 7):
        data = payload(rng.choice([n, n + 3, 40, 300]) if n > 1 else 9, n)
        if len(data) < n:
            data = payload(n + 5, n)
        parts = split_parts(rng, data, n)
        tr = [(PEERS[0], 7, data, parts)]
        perms = list(itertools.permutations(range(n)))
        if not thorough and len(perms) > 30:
            perms = rng.sample(perms, 30)
        for perm in perms:
            scs.append(mk_scenario(rng, tr, [(0, p) for p in perm]))
        for perm in (perms if thorough and n <= 5 else rng.sample(perms, min(len(perms), 12))):
            scs.append(mk_scenario(rng, tr, [(0, p) for p in perm], dup=rng.randrange(1, 4)))
    # (b) the sender's own segments around head boundaries, random orders
    for (L, m) in [(24, 24), (30, 25), (256, 40), (300, 256), (700, 280), (65536, 9000), (65540, 65536), (70000, 1280)][:8 if thorough else 6]:
        data = payload(L, 3)
        kind, segs = rig.send(9, data, m, 4.0)
        if kind != 'ok' or len(segs) < 2:
            continue
        parts = [(rd_transfer(s)[2], rd_transfer(s)[3]) for s in segs]
        for _ in range(6 if thorough else 2):
            order = list(range(len(parts)))
            rng.shuffle(order)
            scs.append(mk_scenario(rng, [(PEERS[1], 9, data, parts)], [(0, p) for p in order]))
    # (b') data whose segments end in zero octets, every segment in its own unpadded datagram: padding is
    # recognised per message, never stripped from the end of a datagram
    mtus = list(range(64, 129)) if thorough else [67] + rng.sample(range(64, 129), 7)
    for m in mtus:
        kind = rng.choice([0, 1, 2, 3, 6])
        data = zpayload(386, kind)
        k2, segs = rig.send(11, data, m, 4.0)
        if k2 != 'ok' or len(segs) < 2:
            continue
        parts = [(rd_transfer(x)[2], rd_transfer(x)[3]) for x in segs]
        order = list(range(len(parts)))
        if rng.random() < 0.5:
            rng.shuffle(order)
        sc = mk_scenario(rng, [(PEERS[0], 11, data, parts)], [(0, p) for p in order])
        sc['zeros'] = True
        scs.append(sc)
    for n in (2, 5):
        for kind in (0, 1, 2):
            data = zpayload(rng.choice([n, 40, 300]) if n > 1 else 9, kind)
            if len(data) < n:
                data = zpayload(n + 5, kind)
            parts = split_parts(rng, data, n)
            order = list(range(n))
            rng.shuffle(order)
            sc = mk_scenario(rng, [(PEERS[2], 3, data, parts)], [(0, p) for p in order], compose=rng.choice([0, 0.7]))
            sc['zeros'] = True
            scs.append(sc)
    # (c) 2-3 interleaved transfers / peers (same id from different peers, different ids from one peer)
    for _ in range(300 if thorough else 60):
        k = rng.choice([2, 3])
        trs = []
        for t in range(k):
            peer = rng.choice(PEERS)
            xid = rng.choice([1, 1, 2, 23, 24, 300])
            if any(x[0] == peer and x[1] == xid for x in trs):
                continue
            n = rng.randrange(1, 6)
            data = payload(rng.randrange(n, 200), t * 5 + 1)
            trs.append((peer, xid, data, split_parts(rng, data, n)))
        order = [(ti, pi) for ti, t in enumerate(trs) for pi in range(len(t[3]))]
        rng.shuffle(order)
        scs.append(mk_scenario(rng, trs, order, dup=rng.choice([0, 0, 1, 3]), compose=rng.choice([0, 0.5, 0.9]),
                               pad=rng.choice([0, 0.5]), extras=rng.choice([0, 1, 2])))
    return scs


def malformed_scenarios(chk):
    ''' first-octet dispatch, truncation, total-length mismatch, require_tls; no reference monitor '''
    rng = chk.rng
    scs = []
    good = enc_transfer(4, 6, 0, b'\x9f\x01\x02') + b''
    good2 = enc_transfer(4, 6, 3, b'\x03\x04\xff')
    bun = b'\x9f\x01\x82\x02\x03\xff'
    firsts = [b'\x00', b'\x14', b'\x15', b'\x16', b'\x17', b'\x06', b'\x01', b'\x18\x20', b'\x40', b'\x61a', b'\xc0\x01',
              b'\xf6', b'\xe0', b'\x3f']
    for f in firsts:
        for pre in (b'', good, bun):
            scs.append({'kind': 'recv', 'reject': False, 'dgrams': [
                {'addr': '10.0.0.2', 'port': 4556, 'hex': (pre + f + good2).hex()},
                {'addr': '10.0.0.2', 'port': 4556, 'hex': good2.hex()}]})
    # whole bundles whose last octet is 0x00, alone, followed by another message, followed by padding
    bun0 = b'\x82\x01\x00'
    for tail in (b'', good2, b'\x00\x00', bun0):
        scs.append({'kind': 'recv', 'reject': False, 'dgrams': [
            {'addr': '10.0.0.2', 'port': 4556, 'hex': (bun0 + tail).hex()},
            {'addr': '10.0.0.2', 'port': 4556, 'hex': (good + bun0).hex()}]})
    # unknown extension keys next to the transfer, and a map without it
    extra = b'\xa2' + cb_head(0, 9) + b'\x82\x01\x02' + good[1:]
    extra2 = b'\xa2' + good[1:] + cb_head(0, 200) + b'\x9f\x01\xff'
    nomap = b'\xa1' + cb_head(0, 77) + b'\x41\x00'
    for g in (extra, extra2, nomap, b'\xa0'):
        scs.append({'kind': 'recv', 'reject': False, 'dgrams': [
            {'addr': '10.0.0.2', 'port': 4556, 'hex': (g + good2 + b'\x00\x00').hex()}]})
    # truncated items
    for whole in (good, bun, extra):
        for cut in range(1, len(whole)):
            scs.append({'kind': 'recv', 'reject': False, 'dgrams': [
                {'addr': '10.0.0.2', 'port': 4556, 'hex': whole[:cut].hex()},
                {'addr': '10.0.0.2', 'port': 4556, 'hex': (good + good2).hex()}]})
    # total-length mismatch in the middle of a datagram; wrong array length
    bad = enc_transfer(4, 7, 3, b'\x03\x04\xff')
    scs.append({'kind': 'recv', 'reject': False, 'dgrams': [
        {'addr': '10.0.0.2', 'port': 4556, 'hex': (good + bad + good2).hex()},
        {'addr': '10.0.0.3', 'port': 4556, 'hex': (bad + good2).hex()},
        {'addr': '10.0.0.2', 'port': 4556, 'hex': good2.hex()}]})
    scs.append({'kind': 'recv', 'reject': False, 'dgrams': [
        {'addr': '10.0.0.2', 'port': 4556, 'hex': (b'\xa1\x02\x83\x01\x02\x03' + good).hex()}]})
    # fragments reaching beyond the total, empty fragments, zero total
    for (tot, off, ch) in [(6, 4, b'abcd'), (6, 9, b'ab'), (6, 9, b''), (0, 0, b''), (3, 0, b'abc'), (3, 1, b'')]:
        scs.append({'kind': 'recv', 'reject': False, 'dgrams': [
            {'addr': '10.0.0.2', 'port': 4556, 'hex': enc_transfer(1, tot, off, ch).hex()},
            {'addr': '10.0.0.2', 'port': 4556, 'hex': enc_transfer(1, tot, 0, bytes(range(65, 65 + tot))).hex()}]})
    # require_tls with a plain socket: everything is rejected
    scs.append({'kind': 'recv', 'reject': True, 'dgrams': [
        {'addr': '10.0.0.2', 'port': 4556, 'hex': (good + good2).hex()},
        {'addr': '10.0.0.2', 'port': 4556, 'hex': bun.hex()},
        {'addr': '10.0.0.2', 'port': 4556, 'hex': (b'\x06' + bun).hex()}]})
    rng.shuffle(scs)
    return scs


def run_recv(chk, rig, scs, label):
    reqs, obs = [], []
    for sc in scs:
        via = sc.get('via') or ('direct' if label != 'reasm' else ['direct', 'sock', 'dtls', 'sock'][len(reqs) % 4])
        sc['via'] = via
        outs, snaps, queue, pending = rig.recv(sc['dgrams'], sc.get('reject', False), via)
        reqs.append({'op': 'udpcl.recv', 'reject': sc.get('reject', False), 'dgrams': sc['dgrams']})
        obs.append((outs, snaps, queue, pending))
    answers = chk.driver(reqs) if reqs else []
    for sc, (outs, snaps, queue, pending), ans in zip(scs, obs, answers):
        nmsg = sum(len(g) for g in sc['meta']) if 'meta' in sc else len(sc['dgrams'])
        chk.case({'d': [d['hex'][:80] for d in sc['dgrams']][:12], 'n': len(sc['dgrams'])},
                 nontrivial=nmsg > 1, sample=(label == 'reasm' and 3 <= nmsg <= 5))
        chk.cov['traces_validated_against_impl'] += 1
        chk.count('recv:%s' % label)
        chk.count('recv:queued-%d' % min(len(queue), 4))
        for o in outs:
            chk.count('recv:outcome-' + o)
        mo = ans.get('outcomes', [])
        if 'outside' in mo:
            chk.count('recv:outside-model')
            continue
        want = ['done' if o == 'done' else 'raised' for o in mo]
        got = ['done' if o == 'done' else 'raised' for o in outs]
        if want != got:
            chk.corr_break('escaped-exception pattern differs: impl %s model %s' % (outs, mo), sc)
        elif ans.get('queue') != queue:
            chk.corr_break('queues differ: impl %s model %s' % (
                [(q['id'], q['addr'], q['port'], q['len'], q['hex'][:40]) for q in queue],
                [(q['id'], q['addr'], q['port'], q['len'], q['hex'][:40]) for q in ans.get('queue', [])]), sc)
        elif ans.get('pending') != pending:
            chk.corr_break('number of partial transfers differs: impl %d model %s' % (pending, ans.get('pending')), sc)
        if 'hang' in outs:
            chk.violation('C13:rx-hang', 'the receive callback does not return for datagram %d (%s path); CPU-time guard fired'
                          % (outs.index('hang'), sc.get('via')), sc)
        if 'stopped-listening' in outs:
            chk.violation('C13:rx-callback-stops-listening', 'the %s receive callback returned a false value: the io watch is dropped and '
                          'later datagrams are never read' % sc.get('via'), sc)
        for sig, what in recv_monitors(sc, outs, snaps, queue):
            chk.violation(sig, what, sc)


# ---------------------------------------------------------------- receive-queue ids (shared with C18)
def _rxq_bundle(idx, n):
    ''' a self-delimiting CBOR array that is different for every idx '''
    body = bytes(((idx * 31 + i * 7) % 251) + 1 for i in range(n))
    return b'\x9f' + cb_head(0, idx) + cb_head(2, len(body)) + body + b'\xff'


def _rxq_phase(rng, first_idx, n, peers, pack, with_xfers, pop, order):
    ''' n bundles (whole ones, or transfers of 2-3 segments) from `peers`, packed into datagrams '''
    per_peer = {}
    seq = []
    for i in range(n):
        idx = first_idx + i
        peer = peers[i % len(peers)]
        data = _rxq_bundle(idx, 3 + (idx * 5) % 40)
        if with_xfers and i % 2 == 1:
            # the peer's transfer id coincides with a receive id that is queued already (idx - 1), with the one
            # this bundle gets (idx), or with the one allocated next (idx + 1)
            xid = [idx - 1, idx + 1, idx][(i // 2) % 3]
            parts = split_parts(rng, data, rng.choice([2, 3]))
            msgs = [['seg', xid, len(data), off, ch.hex()] for (off, ch) in parts]
        else:
            msgs = [['bundle', data.hex()]]
        for m in msgs:
            seq.append((peer, m))
    dgrams = []
    if pack == 'each':
        groups = [[x] for x in seq]
    elif pack == 'one':
        groups = [[x for x in seq if x[0] == pr] for pr in peers]
    else:
        groups, i = [], 0
        while i < len(seq):
            k = rng.randrange(1, 4)
            g = [seq[i]]
            while len(g) < k and i + len(g) < len(seq) and seq[i + len(g)][0] == g[0][0]:
                g.append(seq[i + len(g)])
            groups.append(g)
            i += len(g)
    for g in groups:
        if not g:
            continue
        raw = b''
        for (_pr, m) in g:
            raw += bytes.fromhex(m[1]) if m[0] == 'bundle' else enc_transfer(m[1], m[2], m[3], bytes.fromhex(m[4]))
        dgrams.append({'addr': g[0][0][0], 'port': g[0][0][1], 'hex': raw.hex(), 'msgs': [m for (_pr, m) in g]})
    return {'dgrams': dgrams, 'pop': pop, 'order': order, 'send': 1}


def rx_queue_histories(rng, tier):
    hs = []
    for n in (2, 3, 11):
        for peers in ([PEERS[0]], [PEERS[0], PEERS[1]]):
            for pack in ('one', 'each'):
                hs.append({'kind': 'rxq', 'phases': [_rxq_phase(rng, 0, n, peers, pack, n != 2 or pack == 'each', 'all', 'listed')]})
    # pop some, receive more, pop all, receive again after the queue ran empty
    for peers in ([PEERS[0]], [PEERS[0], PEERS[2]]):
        hs.append({'kind': 'rxq', 'phases': [
            _rxq_phase(rng, 0, 3, peers, 'one', True, 'half', 'listed'),
            _rxq_phase(rng, 3, 3, peers, 'each', True, 'all', 'reversed'),
            _rxq_phase(rng, 6, 2, peers, 'one', True, 'all', 'listed')]})
    for _ in range(150 if tier == 'thorough' else 12):
        phases, idx = [], 0
        for _ph in range(rng.randrange(1, 4)):
            n = rng.choice([2, 2, 3, 5, 11])
            phases.append(_rxq_phase(rng, idx, n, rng.choice([[PEERS[0]], [PEERS[0], PEERS[1]], list(PEERS)]),
                                     rng.choice(['one', 'each', 'mixed']), rng.random() < 0.5,
                                     rng.choice(['none', 'half', 'all']), rng.choice(['listed', 'reversed', 'shuffled'])))
            idx += n
        phases[-1]['pop'] = 'all'
        hs.append({'kind': 'rxq', 'phases': phases})
    for k, h in enumerate(hs):
        h['via'] = ['direct', 'sock', 'dtls'][k % 3]     # how a datagram enters the agent
        h['pop_file'] = k % 2 == 1                       # every second pop through recv_bundle_pop_file
    return hs


def run_rx_queue_history(rig, hist, rng):
    ''' drive one history on a real Agent → (trace for the model, [(short signature, what)]) '''
    ag = rig.agent(None)
    lsock = FakeRxSock(rig.ua)
    ref = Ref()
    bad, trace = [], []
    announced = []        # (bid string, peer, data) in announcement order, from signals × reference
    popped = []
    tx_ids = []
    nsig = 0

    def note(sig, what):
        if not any(b[0] == sig for b in bad):
            bad.append((sig, what))

    def signals():
        return [args for (_p, name, _s, args) in ag._verif_signals if name == 'recv_bundle_finished']

    for phase in hist['phases']:
        for d in phase['dgrams']:
            oc = rig.deliver(ag, hist.get('via', 'direct'), d['addr'], d['port'], bytes.fromhex(d['hex']), plain_sock=lsock)
            if oc == 'hang':
                note('rx-hang', 'the %s receive callback does not return (CPU-time guard fired)' % hist.get('via', 'direct'))
            elif oc == 'stopped-listening':
                note('rx-callback-stops-listening', 'the %s receive callback returned a false value' % hist.get('via'))
            elif oc != 'done':
                note('rx-exception', 'the %s receive path raised %s on a well-formed datagram' % (hist.get('via', 'direct'), oc[7:]))
            for m in d['msgs']:
                if m[0] == 'bundle':
                    ref.bundle((d['addr'], d['port']), bytes.fromhex(m[1]))
                else:
                    ref.seg((d['addr'], d['port']), m[1], m[2], m[3], bytes.fromhex(m[4]))
            sg = signals()
            if len(sg) != len(ref.queue):
                note('rx-queue-mismatch', '%d recv_bundle_finished signals for %d complete bundles' % (len(sg), len(ref.queue)))
            for k in range(nsig, min(len(sg), len(ref.queue))):
                bid, length, meta = str(sg[k][0]), int(sg[k][1]), dict(sg[k][2])
                peer, data = ref.queue[k]
                if length != len(data) or meta.get('address') != peer[0] or meta.get('port') != peer[1]:
                    note('rx-signal-wrong', 'bundle %d announced as (%s, %d, %s), expected length %d from %s' % (k, bid, length, meta, len(data), peer))
                if bid in [a[0] for a in announced]:
                    note('rx-id-reused', 'recv_bundle_finished announced id %r for bundle %d; the same id was announced for bundle %d'
                         % (bid, k, [a[0] for a in announced].index(bid)))
                announced.append((bid, peer, data))
            nsig = len(sg)
            listed = [str(x) for x in ag.recv_bundle_get_queue()]
            trace.append({'addr': d['addr'], 'port': d['port'], 'hex': d['hex'], 'outcome': oc, 'queue': listed})
            want = [a[0] for a in announced if a[0] not in popped]
            if listed != want:
                note('rx-queue-mismatch', 'recv_bundle_get_queue() = %s, announced and not yet popped = %s' % (listed, want))
        for _i in range(phase.get('send', 0)):
            try:
                tx_ids.append(str(ag.send_bundle_data([1, 2, 3], {'address': '10.0.0.9'})))
            except Exception as err:   # noqa
                note('tx-exception', 'send_bundle_data raised %s' % type(err).__name__)
        if phase['pop'] == 'none':
            continue
        listed = [str(x) for x in ag.recv_bundle_get_queue()]
        todo = list(listed)
        if phase['order'] == 'reversed':
            todo.reverse()
        elif phase['order'] == 'shuffled':
            rng.shuffle(todo)
        if phase['pop'] == 'half':
            todo = todo[::2]
        for bid in todo:
            exp = [a for a in announced if a[0] == bid]
            try:
                if hist.get('pop_file') and len(popped) % 2 == 1:
                    # recv_bundle_pop_file: the same pop, the data goes to a file
                    import os
                    import tempfile
                    fd, path = tempfile.mkstemp(prefix='verif_pop_')
                    os.close(fd)
                    try:
                        ag.recv_bundle_pop_file(bid, path)
                        import gc
                        gc.collect()
                        got = open(path, 'rb').read()
                    finally:
                        os.unlink(path)
                else:
                    got = bytes(ag.recv_bundle_pop_data(bid))
                trace.append({'pop': bid, 'result': got.hex()})
                if not exp:
                    note('rx-queue-mismatch', 'the queue listed id %r that was never announced' % bid)
                elif got != exp[-1][2] if len(exp) == 1 else got not in [a[2] for a in exp]:
                    note('pop-returns-other-transfer', 'recv_bundle_pop_data(%r) returned %d octets that are not the bundle announced under that id' % (bid, len(got)))
                elif len(exp) > 1 and got != exp[0][2]:
                    note('pop-returns-other-transfer', 'recv_bundle_pop_data(%r) returned the bundle announced %d announcements later under the same id '
                         '(the earlier one is lost)' % (bid, [a[2] for a in exp].index(got)))
            except Exception as err:   # noqa
                trace.append({'pop': bid, 'result': 'KeyError' if isinstance(err, KeyError) else 'raised:' + type(err).__name__})
                note('rx-pop-fails', 'recv_bundle_pop_data(%r) raised %s although the queue listed that id' % (bid, type(err).__name__))
            popped.append(bid)
        for bid in todo:           # a second pop of the same id must fail
            try:
                got = bytes(ag.recv_bundle_pop_data(bid))
                trace.append({'pop': bid, 'result': got.hex()})
                note('rx-second-pop-succeeds', 'a second recv_bundle_pop_data(%r) returned %d octets' % (bid, len(got)))
            except KeyError:
                trace.append({'pop': bid, 'result': 'KeyError'})
            except Exception as err:   # noqa
                trace.append({'pop': bid, 'result': 'raised:' + type(err).__name__})
        listed = [str(x) for x in ag.recv_bundle_get_queue()]
        want = [a[0] for a in announced if a[0] not in popped]
        if listed != want:
            note('rx-queue-mismatch', 'after popping: recv_bundle_get_queue() = %s, announced and not yet popped = %s' % (listed, want))
    lost = [k for k, a in enumerate(announced) if a[0] not in popped]
    if lost and hist['phases'][-1]['pop'] == 'all':
        note('rx-queue-mismatch', 'announced bundles %s were never offered for popping' % lost[:5])
    if len(set(tx_ids)) != len(tx_ids):
        note('tx-id-reused', 'send_bundle_data returned ids %s' % tx_ids)
    return trace, bad


def rx_queue_cases(chk, rng, tier, prefix):
    ''' Histories in which several received bundles stay unpopped (2, 3, 11; one peer and two; one datagram and
    several; whole bundles and reassembled transfers), then the queue is read and every listed id popped — twice.
    Monitors: announced ids pairwise distinct, queue == announced and not yet popped, each pop returns the bundle
    announced under that id, a second pop fails. Returns [(signature, what, replay)] with `prefix`-ed signatures;
    for prefix 'C13' the histories also go through the Lean model (`udpcl.hist`). '''
    rig = Rig()
    out, reqs, traces = [], [], []
    for hist in rx_queue_histories(rng, tier):
        trace, bad = run_rx_queue_history(rig, hist, rng)
        nb = sum(len(d['msgs']) for ph in hist['phases'] for d in ph['dgrams'])
        chk.case({'rxq': [[len(ph['dgrams']), ph['pop'], ph['order']] for ph in hist['phases']], 'n': nb}, nontrivial=True,
                 sample=len(hist['phases']) > 1)
        chk.cov['traces_validated_against_impl'] += 1
        chk.count('rxq:histories')
        chk.count('rxq:pops', sum(1 for t in trace if 'pop' in t))
        for (sig, what) in bad:
            out.append(('%s:%s' % (prefix, sig), what, hist))
        if prefix == 'C13':
            ops = []
            okay = True
            for t in trace:
                if 'pop' in t:
                    if not t['pop'].isdigit():
                        okay = False
                        break
                    ops.append({'pop': int(t['pop'])})
                else:
                    ops.append({'addr': t['addr'], 'port': t['port'], 'hex': t['hex']})
            if okay:
                reqs.append({'op': 'udpcl.hist', 'ops': ops})
                traces.append((hist, trace))
            else:
                chk.corr_break('the queue listed an id that is not a decimal number', hist)
    if reqs:
        for (hist, trace), ans in zip(traces, chk.driver(reqs)):
            res = ans.get('results', [])
            for t, r in zip(trace, res):
                if 'pop' in t:
                    same = r.get('pop') == t['result']
                else:
                    same = (r.get('outcome') == 'done') == (t['outcome'] == 'done') and [str(x) for x in r.get('queue', [])] == t['queue']
                if not same:
                    chk.corr_break('receive-queue history differs at %s: model %s' % (json.dumps(t)[:200], json.dumps(r)[:200]), hist)
                    break
    return out


# ---------------------------------------------------------------- send queue through the real pacing path (shared with C18)
class _VClock(object):
    ''' stands in for the `time` module inside udpcl.agent: a virtual monotonic clock '''

    def __init__(self, real):
        self._real = real
        self.ns = 10 ** 12

    def monotonic_ns(self):
        return self.ns

    def __getattr__(self, name):
        return getattr(self._real, name)


def tx_queue_histories(rng, tier):
    ''' (mtu, [(peer index, length)]) — transfers queued back to back; some cannot be sent '''
    hs = [(10, [(0, 100), (0, 5)]), (40, [(0, 100), (0, 5)]), (None, [(0, 300), (0, 0), (1, 7)]),
          (8, [(0, 3), (0, 50), (0, 7), (0, 8), (0, 2)]), (8, [(0, 50), (1, 60), (0, 3), (1, 4)]),
          (30, [(0, 200), (1, 10), (0, 300), (1, 29), (0, 30), (0, 31)]), (7, [(0, 7)]), (12, [(0, 30000), (0, 4)]),
          (0, [(0, 0), (0, 1)])]
    for _ in range(120 if tier == 'thorough' else 10):
        m = rng.choice([None, rng.randrange(0, 14), rng.randrange(0, 14), rng.randrange(14, 80), 576])
        hs.append((m, [(rng.randrange(0, 2), rng.choice([0, 1, 5, rng.randrange(0, 40), rng.randrange(0, 400)]))
                       for _i in range(rng.randrange(1, 7))]))
    return hs


def run_tx_queue_history(rig, hist):
    ''' send_bundle_data for every item, then the idle and timeout sources of the (stub) GLib loop are fired,
    with a virtual clock, until nothing is pending → (ids, per-id observations, escaped, [(short signature, what)]) '''
    from gi.repository import GLib
    mtu, items = hist['mtu'], hist['items']
    loop = GLib.LOOP
    loop.reset()
    ag = rig.agent(mtu)
    wire = []

    class FakeSock(object):
        def sendmsg(self, bufs, _anc=None, _flags=0, addr=None):
            wire.append((addr[0] if addr else None, b''.join(bytes(b) for b in bufs)))

        def setsockopt(self, *a, **k):
            pass

        def fileno(self):
            return -1

        def close(self):
            pass

    clock = _VClock(rig.ua.time)
    orig_sock, orig_time = rig.ua.Conversation.make_local_socket, rig.ua.time
    rig.ua.Conversation.make_local_socket = lambda _self: FakeSock()
    rig.ua.time = clock
    bad = []

    def note(sig, what):
        if not any(b[0] == sig for b in bad):
            bad.append((sig, what))

    import dbus.service
    fincount = {}

    class _TooMany(Exception):
        pass

    def hook(_obj, name, _sig, args):
        # a pacing loop that announces the same transfer again and again would never return
        if name == 'send_bundle_finished':
            fincount[str(args[0])] = fincount.get(str(args[0]), 0) + 1
            if fincount[str(args[0])] >= 3:
                raise _TooMany()
    dbus.service.HOOKS.append(hook)
    try:
        ids, datas = [], {}
        rx_ids = []
        if hist.get('rx_first'):
            # the peers have been heard from on a listening socket: sending to them reuses that socket
            lsock = FakeRxSock(rig.ua, wire)
            for peer in sorted(set(p for (p, _n) in items)):
                oc = rig.deliver(ag, 'sock', '10.0.0.%d' % (11 + peer), 4556, _rxq_bundle(900 + peer, 5), plain_sock=lsock)
                if oc != 'done':
                    note('rx-exception', 'the socket receive path ended with %s' % oc)
            rx_ids = [str(x) for x in ag.recv_bundle_get_queue()]
            if ag.is_transfer_idle():
                note('idle-indication-wrong', 'is_transfer_idle() is true while received bundles %s are queued' % rx_ids)
        for k, (peer, n) in enumerate(items):
            data = bytes([0x9f]) + bytes(((k * 29 + i * 7) % 250) + 1 for i in range(n - 1)) if n else b''
            try:
                bid = str(ag.send_bundle_data(list(data), {'address': '10.0.0.%d' % (11 + peer)}))
            except Exception as err:   # noqa
                note('tx-exception', 'send_bundle_data raised %s' % type(err).__name__)
                continue
            ids.append(bid)
            datas[bid] = (peer, data)
            if ag.is_transfer_idle():
                note('idle-indication-wrong', 'is_transfer_idle() is true right after send_bundle_data returned %s (the transfer is queued)' % bid)
        if not all(b.isdigit() for b in ids):
            note('tx-id-wrong', 'send_bundle_data returned %s: not the decimal transfer ids' % ids)
            return [], {}, {}, bad
        state = {'steps': 0, 'quiet': False}

        def drive():
            while state['steps'] < 4000:
                idle, tmo = loop.pending('idle'), loop.pending('timeout')
                if not idle and not tmo:
                    state['quiet'] = True
                    break
                for src in idle:
                    loop.fire(src)
                    state['steps'] += 1
                clock.ns += 50 * 10 ** 6
                loop.now += 50
                for src in loop.pending('timeout'):
                    loop.fire(src)
                    state['steps'] += 1
        try:
            guarded(drive, 10.0)
        except Hang:
            note('tx-callback-hangs', 'a send-queue callback does not return (CPU-time guard fired after %d callbacks)' % state['steps'])
        steps, quiet = state['steps'], state['quiet']
        for (src, err) in loop.escaped:
            if isinstance(err, _TooMany):
                continue
            note('tx-callback-escape-%s' % type(err).__name__, '%s raised %s: %s' % (src, type(err).__name__, str(err)[:120]))
        sig = [(name, tuple(args)) for (_p, name, _s, args) in ag._verif_signals if name.startswith('send_bundle')]
        obs = {}
        for bid in ids:
            peer, data = datas[bid]
            started = [a for (n, a) in sig if n == 'send_bundle_started' and str(a[0]) == bid]
            fin = [a for (n, a) in sig if n == 'send_bundle_finished' and str(a[0]) == bid]
            obs[bid] = {'started': len(started), 'finished': [[str(a[0]), int(a[1]), str(a[2])] for a in fin]}
            if len(fin) > 1:
                note('tx-finished-twice', 'transfer %s got %d send_bundle_finished signals: %s' % (bid, len(fin), obs[bid]['finished']))
            if len(fin) == 0:
                if started:
                    note('tx-started-not-finished', 'transfer %s (%d octets, mtu_default=%s) was started but never got send_bundle_finished; '
                         'the loop is %s' % (bid, len(data), mtu, 'idle' if quiet else 'still busy after %d callbacks' % steps))
                else:
                    note('tx-queue-stalled', 'transfer %s (%d octets) was never started although nothing is pending in the loop' % (bid, len(data)))
            if len(set(ids)) != len(ids):
                note('tx-id-reused', 'send_bundle_data returned ids %s' % ids)
        if not quiet:
            note('tx-queue-stalled', 'sources are still pending after %d callbacks' % steps)
        # what went out, per transfer (bundles differ, so datagrams can be attributed), against independent arithmetic
        ptr = {}
        for bid in ids:
            peer, data = datas[bid]
            addr = '10.0.0.%d' % (11 + peer)
            small = mtu is not None and len(data) >= mtu and mtu - overhead(int(bid), len(data)) <= 0 if bid.isdigit() else False
            # datagrams to one peer leave in queue order: attribute them transfer by transfer
            w = [d for (a, d) in wire if a == addr]
            p0 = ptr.get(addr, 0)
            if mtu is None or len(data) < mtu:
                mine = w[p0:p0 + 1] if [f[2] for f in obs[bid]['finished']] == ['success'] else []
            else:
                mine = []
                while p0 + len(mine) < len(w) and (rd_transfer(w[p0 + len(mine)]) or (None,))[0] == int(bid):
                    mine.append(w[p0 + len(mine)])
            ptr[addr] = p0 + len(mine)
            obs[bid]['dgrams'] = [d.hex() for d in mine]
            res = [f[2] for f in obs[bid]['finished']]
            if small:
                if mine or res not in (['failed'], []):
                    note('tx-result-wrong', 'transfer %s cannot be segmented at mtu_default=%s but %d datagrams went out, result %s' % (bid, mtu, len(mine), res))
            else:
                if res not in (['success'], []):
                    note('tx-result-wrong', 'transfer %s (%d octets, mtu_default=%s) finished with %s' % (bid, len(data), mtu, res))
                if res == ['success']:
                    for (s2, what) in send_monitors(int(bid), data, mtu, mine):
                        note(s2.split(':', 1)[1], 'transfer %s: %s' % (bid, what))
        for addr, p0 in ptr.items():
            if p0 != len([1 for (a, _d) in wire if a == addr]):
                note('tx-unexpected-datagram', 'datagrams to %s that belong to no finished transfer' % addr)
        # the idle indication: false while received bundles are queued, true once everything has drained
        if quiet and all(len(obs[b]['finished']) == 1 for b in ids):
            if rx_ids and ag.is_transfer_idle():
                note('idle-indication-wrong', 'is_transfer_idle() is true while received bundles %s are queued' % rx_ids)
            for rb in rx_ids:
                try:
                    ag.recv_bundle_pop_data(rb)
                except Exception as err:   # noqa
                    note('rx-pop-fails', 'recv_bundle_pop_data(%r) raised %s' % (rb, type(err).__name__))
            if not ag.is_transfer_idle():
                note('idle-indication-wrong', 'is_transfer_idle() is false although every transfer is finished, nothing is pending and the receive queue is empty')
        return ids, datas, obs, bad
    finally:
        dbus.service.HOOKS.remove(hook)
        rig.ua.Conversation.make_local_socket = orig_sock
        rig.ua.time = orig_time
        loop.reset()


def tx_queue_cases(chk, rng, tier, prefix):
    ''' Several transfers queued to one peer and to two, some of which cannot be sent, driven through the real
    pacing path (TxSendWait ticks and idle sources of the stub loop) until nothing is pending. Monitors: every id
    returned by send_bundle_data gets exactly one send_bundle_finished, a failed transfer does not stop the ones
    behind it, no exception escapes a callback, what goes out is right. Returns [(signature, what, replay)]. '''
    rig = Rig()
    out, reqs, keep = [], [], []
    for k, (mtu, items) in enumerate(tx_queue_histories(rng, tier)):
        hist = {'kind': 'txq', 'mtu': mtu, 'items': [list(x) for x in items], 'rx_first': k % 2 == 1}
        ids, datas, obs, bad = run_tx_queue_history(rig, hist)
        chk.case({'txq': hist['items'], 'mtu': mtu}, nontrivial=True, sample=(mtu is not None and mtu < 14 and len(items) > 1))
        chk.cov['traces_validated_against_impl'] += 1
        chk.count('txq:histories')
        for bid in ids:
            for f in obs[bid]['finished']:
                chk.count('txq:finished-' + f[2])
        for (sig, what) in bad:
            out.append(('%s:%s' % (prefix, sig), what, hist))
        if prefix == 'C13' and all(b.isdigit() for b in ids):
            reqs.append({'op': 'udpcl.txrun', **({} if mtu is None else {'mtu': mtu}),
                         'items': [{'id': int(b), 'data': datas[b][1].hex()} for b in ids]})
            keep.append((hist, ids, obs))
    if reqs:
        for (hist, ids, obs), ans in zip(keep, chk.driver(reqs)):
            for bid, m in zip(ids, ans.get('items', [])):
                if obs[bid]['finished'] != m.get('finished') or obs[bid].get('dgrams') != m.get('dgrams'):
                    chk.corr_break('send queue differs for transfer %s: impl finished %s, %d datagrams; model finished %s, %d datagrams'
                                   % (bid, obs[bid]['finished'], len(obs[bid].get('dgrams', [])), m.get('finished'), len(m.get('dgrams', []))), hist)
                    break
    return out


# ---------------------------------------------------------------- the typed D-Bus view (shared with C18)
def _canon(v):
    ''' type-faithful canonical form of a Python value handed to a signal / returned (own transcription) '''
    if isinstance(v, bool):
        return {'bool': bool(v)}
    if isinstance(v, (bytes, bytearray)):
        return {'b': bytes(v).hex()}
    if isinstance(v, str):
        return {'s': str(v)}
    if isinstance(v, int):
        return {'n': int(v)}
    if isinstance(v, (list, tuple)):
        if all(isinstance(x, str) for x in v):
            return {'ss': [str(x) for x in v]}
        return {'list': [_canon(x) for x in v]}
    if isinstance(v, dict):
        return {'dict': {str(k): _canon(x) for k, x in sorted(v.items())}}
    return {'other': True}


_DECL = {'send_bundle_started': 'st', 'send_bundle_finished': 'sts', 'recv_bundle_finished': 'sta{sv}',
         'recv_bundle_get_queue': 'as', 'recv_bundle_pop_data': 'ay', 'send_bundle_data': 's'}


def _conf(val, ty):
    if ty == 's':
        return 's' in val
    if ty == 't':
        return 'bool' in val or ('n' in val and 0 <= val['n'] < 2 ** 64)
    if ty == 'as':
        return 'ss' in val
    if ty == 'ay':
        return 'b' in val
    if ty == 'a{sv}':
        return 'dict' in val and all(any(k in x for k in ('s', 'n', 'bool', 'b', 'ss')) for x in val['dict'].values())
    return False


def _split(sig):
    out, i = [], 0
    while i < len(sig):
        if sig.startswith('a{sv}', i):
            out.append('a{sv}')
            i += 5
        elif sig[i] == 'a':
            out.append(sig[i:i + 2])
            i += 2
        else:
            out.append(sig[i])
            i += 1
    return out


def dbus_view_histories(rng, tier):
    hs = []
    for _ in range(80 if tier == 'thorough' else 10):
        mtu = rng.choice([None, 10, 30, 576])
        evs, nb = [], 0
        for _e in range(rng.randrange(4, 14)):
            k = rng.choice(['dgram', 'dgram', 'pop', 'queue', 'send', 'drain', 'idle'])
            if k == 'dgram':
                peer = rng.choice(PEERS)
                raw = b''
                for _m in range(rng.choice([1, 1, 2])):
                    data = _rxq_bundle(nb, 3 + nb % 9)
                    nb += 1
                    if rng.random() < 0.4:
                        parts = split_parts(rng, data, 2)
                        raw += b''.join(enc_transfer(nb, len(data), off, ch) for (off, ch) in parts)
                    else:
                        raw += data
                evs.append({'addr': peer[0], 'port': peer[1], 'hex': raw.hex()})
            elif k == 'pop':
                evs.append({'pop': rng.randrange(0, max(1, nb + 1))})
            elif k == 'queue':
                evs.append({'queue': True})
            elif k == 'idle':
                evs.append({'idle': True})
            elif k == 'send':
                evs.append({'send': bytes(rng.randrange(1, 255) for _x in range(rng.choice([0, 3, 9, 12, 40, 200]))).hex()})
            else:
                evs.append({'drain': True})
        evs += [{'queue': True}, {'idle': True}, {'drain': True}, {'idle': True}]
        hs.append({'kind': 'dbus', 'mtu': mtu, 'evs': evs, 'via': ['direct', 'sock', 'dtls'][len(hs) % 3]})
    return hs


def run_dbus_history(rig, hist):
    ''' → per event the canonical typed signals / return value seen on the real Agent '''
    from gi.repository import GLib
    loop = GLib.LOOP
    loop.reset()
    ag = rig.agent(hist['mtu'])
    lsock = FakeRxSock(rig.ua)

    class FakeSock(object):
        def sendmsg(self, *a, **k):
            pass

        def setsockopt(self, *a, **k):
            pass

        def fileno(self):
            return -1

        def close(self):
            pass

    clock = _VClock(rig.ua.time)
    orig_sock, orig_time = rig.ua.Conversation.make_local_socket, rig.ua.time
    rig.ua.Conversation.make_local_socket = lambda _self: FakeSock()
    rig.ua.time = clock
    outs = []
    import dbus.service
    fincount = {}

    class _TooMany(Exception):
        pass

    def hook(_obj, name, _sig, args):
        # a pacing loop that announces the same transfer again and again would never return
        if name == 'send_bundle_finished':
            fincount[str(args[0])] = fincount.get(str(args[0]), 0) + 1
            if fincount[str(args[0])] >= 3:
                raise _TooMany()
    dbus.service.HOOKS.append(hook)
    try:
        for ev in hist['evs']:
            n0 = len(ag._verif_signals)
            res = []
            try:
                if 'pop' in ev:
                    res.append({'ret': 'recv_bundle_pop_data', 'val': _canon(ag.recv_bundle_pop_data(str(ev['pop'])))})
                elif 'queue' in ev:
                    res.append({'ret': 'recv_bundle_get_queue', 'val': _canon(list(ag.recv_bundle_get_queue()))})
                elif 'idle' in ev:
                    res.append({'ret': 'is_transfer_idle', 'val': _canon(ag.is_transfer_idle())})
                elif 'send' in ev:
                    res.append({'ret': 'send_bundle_data', 'val': _canon(ag.send_bundle_data(list(bytes.fromhex(ev['send'])), {'address': '10.0.0.9'}))})
                elif 'drain' in ev:
                    def drive():
                        steps = 0
                        while steps < 4000 and (loop.pending('idle') or loop.pending('timeout')):
                            for src in loop.pending('idle'):
                                loop.fire(src)
                                steps += 1
                            clock.ns += 50 * 10 ** 6
                            for src in loop.pending('timeout'):
                                loop.fire(src)
                                steps += 1
                    guarded(drive, 10.0)
                else:
                    oc = rig.deliver(ag, hist.get('via', 'direct'), ev['addr'], ev['port'], bytes.fromhex(ev['hex']), plain_sock=lsock)
                    if oc != 'done':
                        res.append({'raised': '?', 'what': oc})
            except Hang:
                res.append({'raised': '?', 'what': 'hang'})
            except KeyError:
                res.append({'raised': 'recv_bundle_pop_data' if 'pop' in ev else '?', 'what': 'KeyError'})
            except Exception as err:   # noqa
                res.append({'raised': '?', 'what': type(err).__name__})
            sigs = [{'sig': name, 'args': [_canon(a) for a in args]} for (_p, name, _s, args) in ag._verif_signals[n0:]]
            outs.append(sigs + res)
        return outs, [type(e).__name__ for (_s, e) in loop.escaped if not isinstance(e, _TooMany)]
    finally:
        dbus.service.HOOKS.remove(hook)
        rig.ua.Conversation.make_local_socket = orig_sock
        rig.ua.time = orig_time
        loop.reset()


def dbus_view_cases(chk, rng, tier, prefix):
    ''' random histories of datagrams, pops, queue reads, sends and drains on a real Agent: every signal and return
    value, as a typed value, must be what the Lean D-Bus view (`udpcl.dbus`, Props/C18Udpcl.lean) says, and must
    conform to the signature declared for it. Returns [(signature, what, replay)]. '''
    rig = Rig()
    out = []
    hists = dbus_view_histories(rng, tier)
    answers = chk.driver([{'op': 'udpcl.dbus', **({} if h['mtu'] is None else {'mtu': h['mtu']}), 'evs': h['evs']} for h in hists])
    for hist, ans in zip(hists, answers):
        outs, esc = run_dbus_history(rig, hist)
        chk.case({'dbus': [sorted(e.keys())[0] for e in hist['evs']], 'mtu': hist['mtu']}, nontrivial=True, sample=len(hist['evs']) < 9)
        chk.cov['traces_validated_against_impl'] += 1
        chk.count('dbus:histories')
        if esc:
            out.append(('%s:tx-callback-escape-%s' % (prefix, esc[0]), 'a callback raised %s' % esc[0], hist))
        for ev, got, want in zip(hist['evs'], outs, ans.get('outs', [])):
            for o in got:
                chk.count('dbus:' + (o.get('sig') or o.get('ret') or 'raised'))
                name = o.get('sig') or o.get('ret')
                if name in _DECL:
                    vals = o['args'] if 'sig' in o else [o['val']]
                    tys = _split(_DECL[name])
                    if len(vals) != len(tys) or not all(_conf(v, t) for v, t in zip(vals, tys)):
                        out.append(('%s:udpcl-type-%s' % (prefix, name), '%s%r does not conform to "%s"' % (name, vals, _DECL[name]), hist))
            key = (lambda x: json.dumps(x, sort_keys=True))
            same = sorted(map(key, got)) == sorted(map(key, want)) if 'drain' in ev else got == want
            if not same:
                chk.corr_break('D-Bus view differs at %s: impl %s | model %s' % (json.dumps(ev)[:80], json.dumps(got)[:300], json.dumps(want)[:300]), hist)
                break
    return out


# ---------------------------------------------------------------- range codec
def run_ranges(chk, rig):
    import portion
    rng = chk.rng
    reqs, obs = [], []
    for _ in range(2000 if chk.tier == 'thorough' else 300):
        pairs, pos = [], rng.choice([0, 0, 1, 5])
        for _i in range(rng.randrange(0, 6)):
            lo = pos + (rng.randrange(1, 9) if pairs else rng.randrange(0, 4))
            hi = lo + rng.randrange(1, 300)
            pairs.append([lo, hi])
            pos = hi
        iv = portion.empty()
        for lo, hi in pairs:
            iv = iv | portion.closedopen(lo, hi)
        enc = list(rig.ua.range_encode(iv))
        vals = [rng.randrange(0, 50) for _j in range(rng.randrange(0, 9))]
        dec = rig.ua.range_decode(list(vals))
        back = rig.ua.range_decode(list(enc))
        reqs.append({'op': 'udpcl.range_enc', 'pairs': pairs})
        reqs.append({'op': 'udpcl.range_dec', 'vals': vals})
        obs.append((pairs, enc, vals, [[a.lower, a.upper] for a in dec], [[a.lower, a.upper] for a in back]))
    answers = chk.driver(reqs)
    for i, (pairs, enc, vals, dec, back) in enumerate(obs):
        chk.case({'pairs': pairs, 'vals': vals}, nontrivial=bool(pairs))
        chk.count('range:cases')
        if answers[2 * i].get('vals') != enc:
            chk.corr_break('range_encode differs: impl %s model %s' % (enc, answers[2 * i]), {'kind': 'range', 'pairs': pairs})
        if answers[2 * i + 1].get('pairs') != dec:
            chk.corr_break('range_decode differs: impl %s model %s' % (dec, answers[2 * i + 1]), {'kind': 'range', 'vals': vals})
        if back != pairs:
            chk.violation('C13:range-roundtrip', 'range_decode(range_encode(%s)) = %s' % (pairs, back), {'kind': 'range', 'pairs': pairs})


# ---------------------------------------------------------------- entry points
def run(chk):
    chk.prove('DtnVerif.Props.C13')
    rig = Rig()
    chk.cov['rule'] = ('send: (length, MTU, id) windows around CBOR head boundaries 23/24, 255/256, 65535/65536, around '
                       'remain_size -2..3 and around len==mtu, plus random; recv: all permutations (thorough) or random '
                       'orders (quick) of <=6 segments with/without duplicates, the sender\'s own segments shuffled, 2-3 '
                       'interleaved transfers/peers composed into datagrams with padding and whole bundles, and a malformed '
                       'stream (first-octet dispatch, truncation, total mismatch, require_tls); range codec random; '
                       'receive-queue histories with 2, 3, 11 unpopped bundles (1-3 peers, one/several datagrams, partial pops, double pops)')
    chk.assumptions += [
        'transfer ids, totals, offsets are CBOR unsigned integers < 2^64; extension keys 3..8 (STARTTLS, SENDER_LISTEN, PMTUD, ECN) are outside the model and never generated',
        'portion stub: union of closed-open integer ranges equals closedopen(0,n) iff every index is covered and nothing lies beyond n',
        'item.total_length == len(data) as set by _add_tx_item; token-bucket pacing not modelled (datagrams leave in iterator order)',
        'CBOR delimiting of whole-bundle messages (skipItem vs cbor2.load) is tied by this correspondence run only, on arrays/maps/strings/ints/simple values; tags with semantic decoding, floats and invalid UTF-8 are not generated',
    ]
    run_send(chk, rig, send_cases(chk))
    run_send_series(chk, rig)
    run_recv(chk, rig, recv_scenarios(chk, rig), 'reasm')
    run_recv(chk, rig, malformed_scenarios(chk), 'dispatch')
    run_ranges(chk, rig)
    for (sig, what, rep) in rx_queue_cases(chk, chk.rng, chk.tier, 'C13'):
        chk.violation(sig, what, rep)
    for (sig, what, rep) in tx_queue_cases(chk, chk.rng, chk.tier, 'C13'):
        chk.violation(sig, what, rep)
    for (sig, what, rep) in dbus_view_cases(chk, chk.rng, chk.tier, 'C13'):
        chk.violation(sig, what, rep)


def replay(chk, path):
    obj = json.load(open(path))
    rep = obj.get('replay', obj)
    rig = Rig()
    if rep.get('kind') == 'send':
        data = bytes.fromhex(rep['data']) if rep.get('data') else payload(rep['len'], rep.get('salt', 0))
        kind, segs = rig.send(rep['id'], data, rep['mtu'], 2.0)
        ans = chk.driver([{'op': 'udpcl.send', 'id': rep['id'], 'data': data.hex(), **({} if rep['mtu'] is None else {'mtu': rep['mtu']})}])[0]
        print('input: transfer id %d, %d octets, mtu_default=%s (overhead %d, remain_size %s)' % (
            rep['id'], len(data), rep['mtu'], overhead(rep['id'], len(data)), ans.get('remain')))
        print('model: %s' % ('failed' if ans.get('failed') else '%d datagrams' % len(ans.get('segs', []))))
        if kind == 'hang':
            print('observed: _send_transfer did not return within 2 s of CPU time')
            return 1
        if kind == 'failed':
            print('observed: _send_transfer raised %s' % segs)
            handed, sigs, esc = rig.process_tx(rep['id'], data, rep['mtu'], 2.0)
            print('observed: _process_tx_queue handed on %s datagrams, signals %s, escaped %s' % (len(handed or []), sigs, esc))
            return 0 if ans.get('failed') else 1
        print('observed: %d datagrams of sizes %s' % (len(segs), [len(s) for s in segs][:20]))
        viol = send_monitors(rep['id'], data, rep['mtu'], segs)
        for sig, what in viol:
            print('MONITOR %s: %s' % (sig, what))
        return 1 if viol else 0
    if rep.get('kind') == 'recv':
        outs, snaps, queue, pending = rig.recv(rep['dgrams'], rep.get('reject', False), rep.get('via', 'direct'))
        ans = chk.driver([{'op': 'udpcl.recv', 'reject': rep.get('reject', False), 'dgrams': rep['dgrams']}])[0]
        print('datagrams: %s' % [(d['addr'], d['port'], d['hex'][:60]) for d in rep['dgrams']])
        print('observed: outcomes %s, queue sizes %s, queue %s, partial %d' % (outs, snaps, [(q['id'], q['hex'][:40]) for q in queue], pending))
        print('model: %s' % json.dumps(ans)[:600])
        viol = recv_monitors(rep, outs, snaps, queue)
        for sig, what in viol:
            print('MONITOR %s: %s' % (sig, what))
        return 1 if viol else 0
    if rep.get('kind') == 'txq':
        ids, datas, obs, bad = run_tx_queue_history(rig, rep)
        print('mtu_default=%s, transfers (peer, octets): %s' % (rep['mtu'], rep['items']))
        for bid in ids:
            print('transfer %s: started %d, finished %s, datagram sizes %s' % (
                bid, obs[bid]['started'], obs[bid]['finished'], [len(d) // 2 for d in obs[bid].get('dgrams', [])][:10]))
        for sig, what in bad:
            print('MONITOR %s: %s' % (sig, what))
        return 1 if bad else 0
    if rep.get('kind') == 'series':
        ids = list(range(rep['first_id'], rep['first_id'] + rep['n']))
        data = payload(rep['len'], rep.get('salt', 3))
        res = rig.process_tx_series(ids[0], [data] * len(ids), rep['mtu'])
        rc = 0
        for xid, (started, handed, fin, esc) in zip(ids, res):
            viol = send_monitors(xid, data, rep['mtu'], handed) if not fin else []
            print('transfer id %s (started as %s): datagram sizes %s, finished %s, escaped %s %s' % (
                xid, started, [len(d) for d in handed][:8], fin, esc, ['MONITOR %s: %s' % v for v in viol]))
            rc = rc or (1 if viol else 0)
        return rc
    if rep.get('kind') == 'rxq':
        trace, bad = run_rx_queue_history(rig, rep, chk.rng)
        for t in trace:
            print(json.dumps(t)[:300])
        for sig, what in bad:
            print('MONITOR %s: %s' % (sig, what))
        return 1 if bad else 0
    print('unknown replay kind')
    return 2
