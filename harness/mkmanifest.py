''' Regenerate MANIFEST.json from the table below (run by hand after adding a check). '''
import json
import os

HERE = os.path.dirname(os.path.abspath(__file__))
VERIF = os.path.dirname(HERE)

# property -> (technique, level text, level note, design ref)
CLAIMED = {}

PENDING_REASON = 'check not yet built in this round (planned: Lean model + theorems + correspondence, see DESIGN.md section 7)'

ALL = ['C%02d' % i for i in range(1, 21)]


def load_claims():
    path = os.path.join(HERE, 'claims.json')
    if os.path.exists(path):
        return json.load(open(path))
    return {}


def main():
    claims = load_claims()
    checks = []
    for pid in ALL:
        if pid not in claims:
            continue
        c = claims[pid]
        checks.append({
            'property_id': pid,
            'quick_cmd': './check %s --tier quick' % pid,
            'thorough_cmd': './check %s --tier thorough' % pid,
            'evidence_file': 'evidence/%s.json' % pid,
            'replay_cmd_template': './check %s --replay {path}' % pid,
            'engine': 'lean4-proof+correspondence',
            'level_claimed': {'category': 'proof', 'text': c['text'], 'design_ref': c.get('design_ref', 'DESIGN.md §7 ' + pid)},
            'level_note': c['note'],
            'technique': c['technique'],
        })
    na = [{'property_id': pid, 'reason': PENDING_REASON} for pid in ALL if pid not in claims]
    man = {
        'version': 1,
        'setup_cmd': './check setup',
        'hooks': {
            'guard': 'DTN_DEMO_AGENT_VERIF',
            'enable': 'no source hooks: all instrumentation lives in harness/stubs (recording dbus, virtual-time GLib, fake sockets); checks export DTN_DEMO_AGENT_VERIF=1 for completeness',
            'baseline_off_cmd': 'cd /repo && env -u DTN_DEMO_AGENT_VERIF /venv/bin/python -m pytest -ra -q -p no:cacheprovider --timeout=900 --continue-on-collection-errors',
            'source_commits': [],
            'add_only': True,
        },
        'engines': [{
            'name': 'lean4-proof+correspondence',
            'path': 'check',
            'serves_properties': [c['property_id'] for c in checks],
            'kind_free_text': 'Lean 4 theorems over hand-written executable models (lean/DtnVerif), tied to /repo by a regenerated Facts.lean (harness/facts.py) and by a differential correspondence run of the model driver against the real Python modules on every check',
        }],
        'checks': checks,
        'not_applicable': na,
        'notes': 'See DESIGN.md. Exit 2 = timeout/harness error (no verdict).',
    }
    with open(os.path.join(VERIF, 'MANIFEST.json'), 'w') as f:
        json.dump(man, f, indent=1)
    print('MANIFEST.json: %d checks, %d pending' % (len(checks), len(na)))


if __name__ == '__main__':
    main()
