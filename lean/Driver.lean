/- Line-protocol driver: one JSON request per line on stdin, one JSON answer per line on stdout.
   Stateless: every request carries everything the model needs. -/
import DtnVerif.Drv.Util
import DtnVerif.Drv.All
open Lean DtnVerif DtnVerif.Drv

def answer (line : String) : Json :=
  match Json.parse line with
  | .error e => jerr s!"parse: {e}"
  | .ok j =>
    match getStr? j "op" with
    | none => jerr "no op"
    | some op =>
      match DtnVerif.Drv.handlers.findSome? (fun h => h op j) with
      | some r => r
      | none => jerr s!"unknown op {op}"

partial def loop (h : IO.FS.Stream) (out : IO.FS.Stream) : IO Unit := do
  let line ← h.getLine
  if line.isEmpty then return ()
  let t := line.trimAscii.toString
  if t.isEmpty then loop h out else
  out.putStrLn (answer t).compress
  loop h out

def main : IO Unit := do
  let out ← IO.getStdout
  loop (← IO.getStdin) out
  out.flush
