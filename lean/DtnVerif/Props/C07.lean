/-
  C07 — TCPCL message framing is independent of how TCP chunks the stream.
  Property theorems only (helper lemmas are private or live in Lemmas/TcpclCodec.lean).
-/
import DtnVerif.Lemmas.TcpclCodec
import DtnVerif.Lemmas.TcpclDecodeWF
import DtnVerif.Generated.Facts
namespace DtnVerif
namespace Tcpcl

/-- The constants and layouts of the source this model relies on (regenerated from /repo on every
    run): message type codes, contact magic/version binding, and the field order/width classes of
    every message. A change of any of them breaks one of these obligations. -/
theorem C07_facts_types :
    (Facts.binds.filter (fun b => b.1 == "MessageHead" && b.2.2.1 == "msg_id")).map
        (fun b => (b.2.1, b.2.2.2)) =
      [("TransferSegment", 1), ("TransferAck", 2), ("TransferRefuse", 3), ("Keepalive", 4),
       ("SessionTerm", 5), ("RejectMsg", 6), ("SessionInit", 7)] := by decide

theorem C07_facts_contact :
    Facts.const_contact_MAGIC_HEAD = magic
    ∧ (Facts.binds.filter (fun b => b.1 == "Head" && b.2.2.2 == 4)).map (fun b => b.2.1) = ["ContactV4"]
    ∧ Facts.layouts.lookup "contact.Head" =
        some [("StrFixedLenField", "magic", "length=4"), ("UInt8Field", "version", "")]
    ∧ Facts.layouts.lookup "contact.ContactV4" = some [("FlagsField", "flags", "size=8")] := by
  decide

theorem C07_facts_layouts :
    Facts.layouts.lookup "tcpcl.MessageHead" = some [("UInt8Field", "msg_id", "")]
    ∧ Facts.layouts.lookup "tcpcl.SessionInit" =
        some [("UInt16Field", "keepalive", ""), ("UInt64Field", "segment_mru", ""),
              ("UInt64Field", "transfer_mru", ""),
              ("UInt16FieldLenField", "nodeid_length", "length_of=nodeid_data"),
              ("StrLenFieldUtf8", "nodeid_data", ""),
              ("UInt32FieldLenField", "ext_size", "length_of=ext_items"),
              ("ExtensionListField", "ext_items", "pkt_cls=SessionExtendHeader")]
    ∧ Facts.layouts.lookup "tcpcl.SessionTerm" =
        some [("FlagsField", "flags", "size=8"), ("ByteEnumField", "reason", "")]
    ∧ Facts.layouts.lookup "tcpcl.RejectMsg" =
        some [("UInt8Field", "rej_msg_id", ""), ("ByteEnumField", "reason", "")]
    ∧ Facts.layouts.lookup "tcpcl.TransferAck" =
        some [("FlagsField", "flags", "size=8"), ("UInt64Field", "transfer_id", ""),
              ("UInt64Field", "length", "")]
    ∧ Facts.layouts.lookup "tcpcl.TransferRefuse" =
        some [("ByteEnumField", "reason", ""), ("UInt64Field", "transfer_id", "")]
    ∧ Facts.layouts.lookup "tcpcl.TlvHead" =
        some [("FlagsField", "flags", "size=8"), ("UInt16Field", "type", ""),
              ("UInt16PayloadLenField", "length", "")] := by
  refine ⟨?_, ?_, ?_, ?_, ?_, ?_, ?_⟩ <;> decide

theorem C07_facts_segment :
    Facts.layouts.lookup "tcpcl.TransferSegment" =
        some [("FlagsField", "flags", "size=8"), ("UInt64Field", "transfer_id", ""),
              ("UInt32FieldLenField", "ext_size",
                "if(lambda p: p.flags & TransferSegment.Flag.START) length_of=ext_items"),
              ("ExtensionListField", "ext_items",
                "if(lambda p: p.flags & TransferSegment.Flag.START) pkt_cls=TransferExtendHeader"),
              ("UInt64FieldLenField", "length", "length_of=data"), ("BlobField", "data", "")]
    ∧ Facts.enum_tcpcl_TransferSegment_Flag_END = 1 ∧ Facts.enum_tcpcl_TransferSegment_Flag_START = 2 := by
  decide

private theorem pb_seg : parseBody tXferSegment = pSegment := rfl
private theorem pb_ack : parseBody tXferAck = pAck := rfl
private theorem pb_refuse : parseBody tXferRefuse = pRefuse := rfl
private theorem pb_ka : parseBody tKeepalive = P.pure .keepalive := rfl
private theorem pb_term : parseBody tSessTerm = pTerm := rfl
private theorem pb_rej : parseBody tMsgReject = pReject := rfl
private theorem pb_init : parseBody tSessInit = pInit := rfl

/-! ### parsing what was encoded -/

private theorem parse_body (m : Msg) (r : Bytes) (hwf : m.WF) (hc : m.isContact = false) :
    parseBody m.type (m.body ++ r) = some (m, r) := by
  cases m with
  | contact f => simp [Msg.isContact] at hc
  | keepalive => simp only [Msg.type, pb_ka, Msg.body, P.pure, List.nil_append]
  | sessTerm flags reason =>
    obtain ⟨h1, h2⟩ := hwf
    simp only [Msg.type, pb_term, Msg.body, pTerm, u8, List.append_assoc]
    rw [bind_takeNat_beBytes 1 flags _ _ (by simpa using h1),
        bind_takeNat_beBytes 1 reason _ _ (by simpa using h2)]
    rfl
  | msgReject rid reason =>
    obtain ⟨h1, h2⟩ := hwf
    simp only [Msg.type, pb_rej, Msg.body, pReject, u8, List.append_assoc]
    rw [bind_takeNat_beBytes 1 rid _ _ (by simpa using h1),
        bind_takeNat_beBytes 1 reason _ _ (by simpa using h2)]
    rfl
  | xferRefuse reason tid =>
    obtain ⟨h1, h2⟩ := hwf
    simp only [Msg.type, pb_refuse, Msg.body, pRefuse, u8, u64, List.append_assoc]
    rw [bind_takeNat_beBytes 1 reason _ _ (by simpa using h1),
        bind_takeNat_beBytes 8 tid _ _ (by simpa using h2)]
    rfl
  | xferAck flags tid len =>
    obtain ⟨h1, h2, h3⟩ := hwf
    simp only [Msg.type, pb_ack, Msg.body, pAck, u8, u64, List.append_assoc]
    rw [bind_takeNat_beBytes 1 flags _ _ (by simpa using h1),
        bind_takeNat_beBytes 8 tid _ _ (by simpa using h2),
        bind_takeNat_beBytes 8 len _ _ (by simpa using h3)]
    rfl
  | sessInit ka sm xm node ext =>
    obtain ⟨h1, h2, h3, h4, h5⟩ := hwf
    simp only [Msg.type, pb_init, Msg.body, pInit, u16, u32, u64, List.append_assoc]
    rw [bind_takeNat_beBytes 2 ka _ _ (by simpa using h1),
        bind_takeNat_beBytes 8 sm _ _ (by simpa using h2),
        bind_takeNat_beBytes 8 xm _ _ (by simpa using h3),
        bind_takeNat_beBytes 2 node.length _ _ (by simpa using h4),
        bind_takeBytes_append node,
        bind_takeNat_beBytes 4 ext.length _ _ (by simpa using h5),
        bind_takeBytes_append ext]
    rfl
  | xferSegment flags tid ext data =>
    obtain ⟨h1, h2, h3, h4, h5⟩ := hwf
    simp only [Msg.type, pb_seg, Msg.body, pSegment, u8, u32, u64, List.append_assoc]
    rw [bind_takeNat_beBytes 1 flags _ _ (by simpa using h1),
        bind_takeNat_beBytes 8 tid _ _ (by simpa using h2)]
    by_cases hs : hasStart flags = true
    · simp only [hs, if_true, List.append_assoc]
      rw [bind_takeNat_beBytes 4 ext.length _ _ (by simpa using h3),
          bind_takeBytes_append ext,
          bind_takeNat_beBytes 8 data.length _ _ (by simpa using h4),
          bind_takeBytes_append data]
      rfl
    · have hs' : hasStart flags = false := by simpa using hs
      have he := h5 hs'
      subst he
      simp only [hs', if_false, Bool.false_eq_true, List.append_assoc]
      rw [bind_takeNat_beBytes 8 data.length _ _ (by simpa using h4),
          bind_takeBytes_append data]
      rfl

private theorem type_lt (m : Msg) : m.type < 256 := by
  cases m <;> simp [Msg.type, tSessInit, tSessTerm, tXferSegment, tXferAck, tXferRefuse, tKeepalive,
    tMsgReject]

private theorem known_type (m : Msg) (hc : m.isContact = false) : knownType m.type = true := by
  cases m <;> first | (simp [Msg.isContact] at hc; done) | rfl

private theorem u8_eq (n : Nat) (h : n < 256) : u8 n = [UInt8.ofNat n] := by
  simp [u8, beBytes, Nat.mod_eq_of_lt h]

private theorem ofNat_toNat (n : Nat) (h : n < 256) : (UInt8.ofNat n).toNat = n := by
  simp [UInt8.toNat_ofNat']; exact h

/-- **Complete message ⇒ acted on, trailing octets kept.** Whatever follows a complete message in
    the buffer, the probe returns exactly that message and exactly its length. -/
theorem C07_probe_complete (m : Msg) (r : Bytes) (hwf : m.WF) :
    probe (!m.isContact) (encode m ++ r) = .got m (encode m).length := by
  by_cases hc : m.isContact = true
  · cases m with
    | contact f =>
      have hf : f < 256 := hwf
      have he : encode (.contact f) = [0x64, 0x74, 0x6e, 0x21, 4, UInt8.ofNat f] := by
        simp [encode, Msg.body, magic, u8_eq 4 (by omega), u8_eq f hf]
      rw [he]
      simp [Msg.isContact, probe, magic, ofNat_toNat f hf]
    | _ => simp [Msg.isContact] at hc
  · have hc' : m.isContact = false := by simpa using hc
    have henc : encode m = u8 m.type ++ m.body := by
      cases m <;> first | rfl | simp [Msg.isContact] at hc'
    rw [henc, u8_eq _ (type_lt m)]
    simp only [hc', Bool.not_false, probe, if_true, List.cons_append, List.nil_append,
      ofNat_toNat _ (type_lt m), known_type m hc', Bool.not_true, Bool.false_eq_true, if_false]
    rw [parse_body m r hwf hc']
    simp
    omega

/-- **A strict prefix of a message (or of the contact header) is left untouched.** -/
theorem C07_probe_prefix (m : Msg) (p : Bytes) (hwf : m.WF) (hp : p <+: encode m)
    (hne : p ≠ encode m) : probe (!m.isContact) p = .need := by
  by_cases hc : m.isContact = true
  · cases m with
    | contact f =>
      have hf : f < 256 := hwf
      have hlen := prefix_lt_length hp hne
      have he : encode (.contact f) = [0x64, 0x74, 0x6e, 0x21, 4, UInt8.ofNat f] := by
        simp [encode, Msg.body, magic, u8_eq 4 (by omega), u8_eq f hf]
      rw [he] at hp hlen
      obtain ⟨t, ht⟩ := hp
      simp only [Msg.isContact, Bool.not_true, probe]
      simp at hlen
      by_cases h5 : p.length < 5
      · simp [h5]
      · have h5' : p.length = 5 := by omega
        have : p = [0x64, 0x74, 0x6e, 0x21, 4] := by
          have := congrArg (List.take 5) ht
          rw [List.take_append_of_le_length (by omega)] at this
          simp [List.take_of_length_le, h5'] at this
          simpa using this
        subst this
        simp [magic]
    | _ => simp [Msg.isContact] at hc
  · have hc' : m.isContact = false := by simpa using hc
    have henc : encode m = u8 m.type ++ m.body := by
      cases m <;> first | rfl | simp [Msg.isContact] at hc'
    rw [henc, u8_eq _ (type_lt m)] at hp hne
    simp only [hc', Bool.not_false, probe, if_true]
    cases p with
    | nil => rfl
    | cons t p' =>
      simp only [List.singleton_append] at hp hne
      have ht : t = UInt8.ofNat m.type := (List.cons_prefix_cons.mp hp).1
      have hp' : p' <+: m.body := (List.cons_prefix_cons.mp hp).2
      have hne' : p' ≠ m.body := by intro e; exact hne (by rw [ht, e])
      subst ht
      simp only [ofNat_toNat _ (type_lt m), known_type m hc', Bool.not_true, Bool.false_eq_true, if_false]
      have hfull := parse_body m [] hwf hc'
      simp only [List.append_nil] at hfull
      obtain ⟨u, hu, _, hpre⟩ := good_parseBody m.type m.body m [] hfull
      simp only [List.append_nil] at hu
      subst hu
      rw [hpre p' hp' hne']

private theorem probe_got_inv {c : Bool} {b : Bytes} {m : Msg} {n : Nat}
    (h : probe c b = .got m n) : 0 < n ∧ n ≤ b.length ∧ ∀ x, probe c (b ++ x) = .got m n := by
  unfold probe at h
  cases c with
  | true =>
    simp only [if_true] at h
    cases b with
    | nil => simp at h
    | cons t rest =>
      simp only at h
      split at h
      · simp at h
      · rename_i hk
        split at h
        · rename_i m' r hpb
          simp only [Probe.got.injEq] at h
          obtain ⟨rfl, rfl⟩ := h
          obtain ⟨u, hu, hext, _⟩ := good_parseBody _ _ _ _ hpb
          subst hu
          refine ⟨by simp; omega, by simp, ?_⟩
          intro x
          simp only [probe, if_true, List.cons_append, List.append_assoc, hk]
          rw [hext (r ++ x)]
          simp
          omega
        · simp at h
  | false =>
    simp only [Bool.false_eq_true, if_false] at h
    split at h
    · simp at h
    · split at h
      · simp at h
      · rename_i h5 hm
        split at h
        · simp at h
        · rename_i f hf
          simp only [Probe.got.injEq] at h
          obtain ⟨rfl, rfl⟩ := h
          have h6 : 6 ≤ b.length := by
            cases hb : b.drop 5 with
            | nil => rw [hb] at hf; simp at hf
            | cons y ys =>
              have := congrArg List.length hb
              simp at this; omega
          refine ⟨by omega, h6, ?_⟩
          intro x
          simp only [probe, Bool.false_eq_true, if_false]
          have hl : ¬ ((b ++ x).length < 5) := by simp; omega
          simp only [hl, if_false]
          rw [List.take_append_of_le_length (by omega), List.drop_append_of_le_length (by omega),
              List.drop_append_of_le_length (by omega)]
          have hd4 : (b.drop 4 ++ x).head? = (b.drop 4).head? := by
            cases hb : b.drop 4 with
            | nil => have := congrArg List.length hb; simp at this; omega
            | cons y ys => simp
          have hd5 : (b.drop 5 ++ x).head? = (b.drop 5).head? := by
            cases hb : b.drop 5 with
            | nil => have := congrArg List.length hb; simp at this; omega
            | cons y ys => simp
          rw [hd4, hd5]
          simp only [hm, if_false, hf]

/-- **Stability of a decision already taken**: once the buffer holds a complete message, no
    further octet changes which message it is or how long it is (for *every* octet string, not only
    well-formed ones). -/
theorem C07_probe_mono (c : Bool) (b x : Bytes) (m : Msg) (n : Nat) (h : probe c b = .got m n) :
    probe c (b ++ x) = .got m n ∧ 0 < n ∧ n ≤ b.length :=
  ⟨(probe_got_inv h).2.2 x, (probe_got_inv h).1, (probe_got_inv h).2.1⟩

/-- A contact header rejected for magic/version, or an unknown message type, stays rejected. -/
theorem C07_probe_bad_mono (c : Bool) (b x : Bytes) (h : probe c b = .bad) :
    probe c (b ++ x) = .bad := by
  unfold probe at h ⊢
  cases c with
  | true =>
    simp only [if_true] at h
    cases b with
    | nil => simp at h
    | cons t rest =>
      simp only at h
      split at h
      · rename_i hk
        simp only [if_true, List.cons_append, hk]
      · split at h <;> simp at h
  | false =>
    simp only [Bool.false_eq_true, if_false] at h ⊢
    split at h
    · simp at h
    · rename_i h5
      split at h
      · rename_i hm
        have hl : ¬ ((b ++ x).length < 5) := by simp; omega
        simp only [hl, if_false]
        rw [List.take_append_of_le_length (by omega), List.drop_append_of_le_length (by omega)]
        have hd4 : (b.drop 4 ++ x).head? = (b.drop 4).head? := by
          cases hb : b.drop 4 with
          | nil => have := congrArg List.length hb; simp at this; omega
          | cons y ys => simp
        rw [hd4]
        simp only [hm, if_true]
      · split at h <;> simp at h

/-! ### the receive loop -/

private theorem drainAux_acc (fuel : Nat) (rx : Rx) (acc : List Msg) :
    drainAux fuel rx acc = ((drainAux fuel rx []).1, acc ++ (drainAux fuel rx []).2) := by
  induction fuel generalizing rx acc with
  | zero => simp [drainAux]
  | succ fuel ih =>
    unfold drainAux
    split
    · simp
    · split
      · simp
      · simp
      · rename_i m n _
        rw [ih _ (acc ++ [m]), ih _ ([] ++ [m])]
        simp

private theorem drainAux_fuel2 (f1 f2 : Nat) (rx : Rx) (acc : List Msg)
    (h1 : rx.buf.length + 1 ≤ f1) (h2 : rx.buf.length + 1 ≤ f2) :
    drainAux f1 rx acc = drainAux f2 rx acc := by
  induction f1 generalizing f2 rx acc with
  | zero => omega
  | succ f1 ih =>
    cases f2 with
    | zero => omega
    | succ f2 =>
      unfold drainAux
      split
      · rfl
      · split
        · rfl
        · rfl
        · rename_i m n hp
          obtain ⟨hn, hle, _⟩ := probe_got_inv hp
          apply ih
          · simp only [List.length_drop]; omega
          · simp only [List.length_drop]; omega

private theorem drain_dead (rx : Rx) (h : rx.dead = true) : drain rx = (rx, []) := by
  simp [drain, drainAux, h]

private theorem drain_need (rx : Rx) (h : probe rx.inConn rx.buf = .need) : drain rx = (rx, []) := by
  unfold drain drainAux
  split
  · rfl
  · rw [h]

private theorem drain_bad (rx : Rx) (hd : rx.dead = false) (h : probe rx.inConn rx.buf = .bad) :
    drain rx = ({ rx with dead := true, buf := [] }, []) := by
  unfold drain drainAux
  simp [hd, h]

private theorem drain_got (rx : Rx) (hd : rx.dead = false) (m : Msg) (n : Nat)
    (h : probe rx.inConn rx.buf = .got m n) :
    drain rx =
      ((drain { rx with buf := rx.buf.drop n, inConn := rx.inConn || m.isContact }).1,
        m :: (drain { rx with buf := rx.buf.drop n, inConn := rx.inConn || m.isContact }).2) := by
  obtain ⟨hn, hle, _⟩ := probe_got_inv h
  unfold drain
  conv => lhs; unfold drainAux
  simp only [hd, Bool.false_eq_true, if_false, h]
  rw [drainAux_fuel2 rx.buf.length ((rx.buf.drop n).length + 1) _ _
        (by simp only [List.length_drop]; omega) (Nat.le_refl _), drainAux_acc]
  simp

/-- Draining a buffer that later grows by `x` = draining what is there now, then draining the
    residue followed by `x`. -/
private theorem drain_append (k : Nat) (rx : Rx) (x : Bytes) (hk : rx.buf.length ≤ k)
    (hd : rx.dead = false) :
    drain { rx with buf := rx.buf ++ x } =
      (if (drain rx).1.dead then drain rx
       else ((drain { (drain rx).1 with buf := (drain rx).1.buf ++ x }).1,
             (drain rx).2 ++ (drain { (drain rx).1 with buf := (drain rx).1.buf ++ x }).2)) := by
  induction k generalizing rx with
  | zero =>
    have hb : rx.buf = [] := List.eq_nil_of_length_eq_zero (by omega)
    have hneed : probe rx.inConn rx.buf = .need := by
      rw [hb]; unfold probe; cases rx.inConn <;> simp
    rw [drain_need rx hneed]
    simp [hd]
  | succ k ih =>
    cases hp : probe rx.inConn rx.buf with
    | need =>
      rw [drain_need rx hp]
      simp [hd]
    | bad =>
      rw [drain_bad rx hd hp]
      have := C07_probe_bad_mono _ _ x hp
      rw [drain_bad { rx with buf := rx.buf ++ x } hd this]
      simp
    | got m n =>
      obtain ⟨hn, hle, hext⟩ := probe_got_inv hp
      rw [drain_got rx hd m n hp]
      rw [drain_got { rx with buf := rx.buf ++ x } hd m n (hext x)]
      have hdrop : (rx.buf ++ x).drop n = rx.buf.drop n ++ x := by
        rw [List.drop_append_of_le_length hle]
      simp only [hdrop]
      have := ih { rx with buf := rx.buf.drop n, inConn := rx.inConn || m.isContact }
        (by simp; omega) hd
      simp only at this
      rw [this]
      split <;> simp

/-- A receive state in which every complete message has already been handed over. -/
def Rx.Stable (rx : Rx) : Prop := drain rx = (rx, [])

private theorem drain_stable_aux (k : Nat) (rx : Rx) (hk : rx.buf.length ≤ k) :
    drain (drain rx).1 = ((drain rx).1, []) := by
  induction k generalizing rx with
  | zero =>
    have hb : rx.buf = [] := List.eq_nil_of_length_eq_zero (by omega)
    have hneed : probe rx.inConn rx.buf = .need := by
      rw [hb]; unfold probe; cases rx.inConn <;> simp
    rw [drain_need rx hneed, drain_need rx hneed]
  | succ k ih =>
    by_cases hd : rx.dead = true
    · rw [drain_dead rx hd, drain_dead rx hd]
    · have hd' : rx.dead = false := by simpa using hd
      cases hp : probe rx.inConn rx.buf with
      | need => rw [drain_need rx hp, drain_need rx hp]
      | bad => rw [drain_bad rx hd' hp]; exact drain_dead _ rfl
      | got m n =>
        obtain ⟨hn, hle, _⟩ := probe_got_inv hp
        rw [drain_got rx hd' m n hp]
        exact ih _ (by simp; omega)

theorem C07_feed_stable (rx : Rx) (c : Bytes) : (feed rx c).1.Stable := by
  unfold feed Rx.Stable
  split
  · rename_i h; exact drain_dead rx h
  · exact drain_stable_aux _ _ (Nat.le_refl _)

theorem C07_init_stable : ({} : Rx).Stable := by unfold Rx.Stable; decide

/-- **Split invariance.** For every receive state and *every* way of cutting the incoming octets
    into reads, the messages handed to the session layer, their order, the residual buffer and the
    phase are the same as if the octets had arrived in a single read. -/
theorem C07_split_invariance (rx : Rx) (hs : rx.Stable) (chunks : List Bytes) :
    feedAll rx chunks = feed rx chunks.flatten := by
  induction chunks generalizing rx with
  | nil =>
    simp only [feedAll, List.flatten_nil, feed, List.append_nil]
    split
    · rfl
    · exact hs.symm
  | cons c cs ih =>
    simp only [feedAll, List.flatten_cons]
    rw [ih _ (C07_feed_stable rx c)]
    by_cases hd : rx.dead = true
    · have h1 : feed rx c = (rx, []) := by unfold feed; rw [if_pos hd]
      have h2 : feed rx (c ++ cs.flatten) = (rx, []) := by unfold feed; rw [if_pos hd]
      rw [h1, h2]
      have h3 : feed rx cs.flatten = (rx, []) := by unfold feed; rw [if_pos hd]
      rw [h3]; rfl
    · have hd' : rx.dead = false := by simpa using hd
      have e1 : feed rx c = drain { rx with buf := rx.buf ++ c } := by unfold feed; rw [if_neg hd]
      have e2 : feed rx (c ++ cs.flatten) = drain { rx with buf := rx.buf ++ (c ++ cs.flatten) } := by
        unfold feed; rw [if_neg hd]
      rw [e1, e2, ← List.append_assoc]
      have := drain_append _ { rx with buf := rx.buf ++ c } cs.flatten (Nat.le_refl _) hd'
      rw [this]
      by_cases h1 : (drain { rx with buf := rx.buf ++ c }).1.dead = true
      · rw [if_pos h1]
        unfold feed
        rw [if_pos h1]
        simp
      · rw [if_neg h1]
        unfold feed
        rw [if_neg h1]

/-- **Prefix property / "as soon as".** The messages handed over after any prefix of the stream
    are a prefix of those handed over after the whole stream: nothing is reordered, invented or
    retracted by later octets. -/
theorem C07_prefix_messages (rx : Rx) (p q : Bytes) :
    (feed rx p).2 <+: (feed rx (p ++ q)).2 := by
  by_cases hd : rx.dead = true
  · have h1 : feed rx p = (rx, []) := by unfold feed; rw [if_pos hd]
    rw [h1]; exact List.nil_prefix
  · have hd' : rx.dead = false := by simpa using hd
    have e1 : feed rx p = drain { rx with buf := rx.buf ++ p } := by unfold feed; rw [if_neg hd]
    have e2 : feed rx (p ++ q) = drain { rx with buf := rx.buf ++ (p ++ q) } := by
      unfold feed; rw [if_neg hd]
    rw [e1, e2, ← List.append_assoc]
    have := drain_append _ { rx with buf := rx.buf ++ p } q (Nat.le_refl _) hd'
    rw [this]
    split
    · exact List.prefix_refl _
    · exact List.prefix_append _ _

private theorem drain_encodeAll (ms : List Msg) (hall : ∀ m ∈ ms, m.WF ∧ m.isContact = false) :
    drain { inConn := true, buf := encodeAll ms, dead := false } =
      ({ inConn := true, buf := [], dead := false }, ms) := by
  induction ms with
  | nil => exact drain_need _ (by simp [encodeAll, probe])
  | cons m ms ih =>
    have ⟨hwf, hc⟩ := hall m (by simp)
    have hp := C07_probe_complete m (encodeAll ms) hwf
    simp only [hc, Bool.not_false] at hp
    rw [drain_got { inConn := true, buf := encodeAll (m :: ms), dead := false } rfl m _ hp]
    simp only [encodeAll, List.drop_left, Bool.true_or]
    rw [ih (fun m' hm' => hall m' (by simp [hm']))]

/-- **Whole-stream correctness.** A contact header followed by any sequence of well-formed
    messages, delivered in one read, is decoded to exactly those messages with nothing left in the
    buffer. Together with `C07_split_invariance` this holds for every chunking, and together with
    `C07_prefix_messages` each message is handed over no later than the read that contains its
    final octet. -/
theorem C07_stream (f : Nat) (hf : f < 256) (ms : List Msg)
    (hall : ∀ m ∈ ms, m.WF ∧ m.isContact = false) :
    feed {} (encodeAll (.contact f :: ms)) =
      ({ inConn := true, buf := [], dead := false }, .contact f :: ms) := by
  have hp := C07_probe_complete (.contact f) (encodeAll ms) hf
  simp only [Msg.isContact, Bool.not_true] at hp
  simp only [feed, Bool.false_eq_true, if_false, List.nil_append, encodeAll]
  rw [drain_got { inConn := false, buf := encode (.contact f) ++ encodeAll ms, dead := false } rfl _ _ hp]
  simp only [List.drop_left, Msg.isContact, Bool.or_true]
  rw [drain_encodeAll ms hall]

/-- Corollary for an arbitrary chunking of a valid stream. -/
theorem C07_stream_chunked (f : Nat) (hf : f < 256) (ms : List Msg)
    (hall : ∀ m ∈ ms, m.WF ∧ m.isContact = false) (chunks : List Bytes)
    (hc : chunks.flatten = encodeAll (.contact f :: ms)) :
    feedAll {} chunks = ({ inConn := true, buf := [], dead := false }, .contact f :: ms) := by
  rw [C07_split_invariance {} C07_init_stable chunks, hc]
  exact C07_stream f hf ms hall

/-- non-vacuity: a concrete stream with every message kind, cut inside a length field -/
example :
    feedAll {} [[0x64, 0x74], [0x6e, 0x21, 4, 1, 7, 0, 30], encode (.sessInit 30 100 200 [65] []) |>.drop 3,
                encode .keepalive ++ encode (.xferSegment 3 1 [0,0,1,0,8,0,0,0,0,0,0,0,2] [9, 9])]
      = ({ inConn := true, buf := [], dead := false },
         [.contact 1, .sessInit 30 100 200 [65] [], .keepalive,
          .xferSegment 3 1 [0,0,1,0,8,0,0,0,0,0,0,0,2] [9, 9]]) := by decide

/-! ### extension items (independent itemiser) -/

theorem C07_ext_roundtrip (items : List ExtItem)
    (hwf : ∀ e ∈ items, e.flags < 256 ∧ e.type < 65536 ∧ e.value.length < 65536) (fuel : Nat)
    (hfuel : items.length ≤ fuel) :
    decExtItems fuel (encExtItems items) = some items :=
  decExtItems_enc items hwf fuel hfuel

/-! ### the layouts of RFC 9174, written from the RFC (not from the code)

  §4.2 contact header; §4.6 SESS_INIT; §5.1.1 KEEPALIVE; §5.1.2 MSG_REJECT (reason code, then the
  rejected message header); §5.2.2 XFER_SEGMENT; §5.2.3 XFER_ACK; §5.2.4 XFER_REFUSE; §6.1 SESS_TERM. -/

def rfcEncode : Msg → Bytes
  | .contact flags => [0x64, 0x74, 0x6e, 0x21] ++ u8 4 ++ u8 flags
  | .sessInit ka sm xm node ext =>
      u8 7 ++ u16 ka ++ u64 sm ++ u64 xm ++ u16 node.length ++ node ++ u32 ext.length ++ ext
  | .sessTerm flags reason => u8 5 ++ u8 flags ++ u8 reason
  | .xferSegment flags tid ext data =>
      u8 1 ++ u8 flags ++ u64 tid
      ++ (if hasStart flags then u32 ext.length ++ ext else []) ++ u64 data.length ++ data
  | .xferAck flags tid len => u8 2 ++ u8 flags ++ u64 tid ++ u64 len
  | .xferRefuse reason tid => u8 3 ++ u8 reason ++ u64 tid
  | .keepalive => u8 4
  | .msgReject rejId reason => u8 6 ++ u8 reason ++ u8 rejId

def Msg.isReject : Msg → Bool
  | .msgReject .. => true
  | _ => false

/-- **Encoding conforms to RFC 9174** for every message except MSG_REJECT: the octets the
    implementation's encoder produces are the RFC's layout of the same fields (so an independent RFC
    decoder reads back the same fields, and by `C07_probe_complete` the implementation reads back what
    an independent RFC encoder wrote). -/
theorem C07_rfc_layout_partial (m : Msg) (h : m.isReject = false) : encode m = rfcEncode m := by
  cases m with
  | msgReject a b => simp [Msg.isReject] at h
  | xferSegment flags tid ext data =>
    simp only [encode, Msg.type, Msg.body, rfcEncode, tXferSegment]
    split <;> simp [List.append_assoc]
  | contact f => simp [encode, Msg.body, rfcEncode, magic, List.append_assoc]
  | sessInit ka sm xm node ext => simp [encode, Msg.type, Msg.body, rfcEncode, tSessInit, List.append_assoc]
  | sessTerm f r => simp [encode, Msg.type, Msg.body, rfcEncode, tSessTerm, List.append_assoc]
  | xferAck f t l => simp [encode, Msg.type, Msg.body, rfcEncode, tXferAck, List.append_assoc]
  | xferRefuse r t => simp [encode, Msg.type, Msg.body, rfcEncode, tXferRefuse, List.append_assoc]
  | keepalive => simp [encode, Msg.type, Msg.body, rfcEncode, tKeepalive]

/-- The full statement (every message type) is false of the code as it is: MSG_REJECT is encoded with
    the rejected message type *before* the reason code, the reverse of RFC 9174 §5.1.2 — known finding
    `C07:msg-reject-field-order` (the repository's own unit test pins the reversed octets, so the
    repair cannot be made without editing the test suite). -/
theorem C07_rfc_layout_counterexample : ¬ (∀ m : Msg, encode m = rfcEncode m) := by
  intro h
  have := h (.msgReject 1 3)
  revert this
  decide

/-- what the implementation does instead: the two fields are swapped -/
theorem C07_reject_swapped (rejId reason : Nat) :
    encode (.msgReject rejId reason) = rfcEncode (.msgReject reason rejId) := by
  simp [encode, Msg.type, Msg.body, rfcEncode, tMsgReject, List.append_assoc]

/-- **Whatever octets arrive, in whatever chunks, every message handed on has in-range fields** (type
    octet known, every number below the bound of its fixed-width field, data and extension lengths as
    announced, no extension list outside START), and the messages extracted from a stream carry no
    more data octets than the stream has: nothing is invented by the framing layer. For every octet
    string — well-formed, truncated, hostile. -/
theorem C07_decoded_wf (chunks : List Bytes) :
    (∀ m ∈ (feedAll {} chunks).2, m.WF) ∧ sumData (feedAll {} chunks).2 ≤ chunks.flatten.length := by
  have gen : ∀ (cs : List Bytes) (rx : Rx), (∀ m ∈ (feedAll rx cs).2, m.WF)
      ∧ sumData (feedAll rx cs).2 + (feedAll rx cs).1.buf.length ≤ rx.buf.length + cs.flatten.length := by
    intro cs
    induction cs with
    | nil => intro rx; exact ⟨by simp [feedAll], by simp [feedAll]⟩
    | cons c cs ih =>
      intro rx
      obtain ⟨w1, l1⟩ := feed_wf rx c
      obtain ⟨w2, l2⟩ := ih (feed rx c).1
      have hfa : feedAll rx (c :: cs) = ((feedAll (feed rx c).1 cs).1, (feed rx c).2 ++ (feedAll (feed rx c).1 cs).2) := rfl
      rw [hfa]
      refine ⟨?_, ?_⟩
      · intro m hm
        rcases List.mem_append.mp hm with h | h
        · exact w1 m h
        · exact w2 m h
      · simp only [sumData_append, List.flatten_cons, List.length_append]
        omega
  obtain ⟨h1, h2⟩ := gen chunks {}
  refine ⟨h1, ?_⟩
  have : ({} : Rx).buf.length = 0 := rfl
  omega

end Tcpcl
end DtnVerif
