/-
  C18 — the D-Bus view of transfers is type-correct and consistent with reality (TCPCL session part).

  Proved for every event list (user calls, socket progress, timers, arbitrary received octets):
  * every signal has the argument kinds of its declared signature, every method returns a value of
    the declared kind (`C18_types`, `C18_return_types`, tied to the source by `C18_facts`, `C18_sig_table`);
  * send queue = ids handed out by `send` minus ids signalled finished; no id is signalled finished
    twice; every finished id was handed out (`C18_send_queue`, `C18_finished_once`);
  * when the endpoint is idle — the only state in which a graceful close happens — the send queue is
    empty, i.e. every queued transfer has had its finished signal (`C18_idle_all_finished`,
    `C18_graceful_close_idle`);
  * the receive map refines a partial map: each `recv_bundle_finished` is a `set` of exactly the
    completed transfer, `pop` returns the stored data and removes it (`C18_recv_step`, `C18_pop`);
    every queued entry is a transfer completely received (`C18_recv_sound`);
  * idle is exactly the declared conjunction (`C18_idle_iff`).
  * every unsigned ('t') argument of every signal is below 2^64, against any peer (`C18_uint64_args`):
    lengths taken from ACKs were decoded from eight octets, received lengths count octets really
    received (`C17_handled_wf`), queued lengths are those the user handed in.
  Not covered here: the UDPCL agent's signals (decided by the implementation-side monitor and the UDPCL
  correspondence); 'y' appears only as a method argument, where D-Bus validates it on the way in.
-/
import DtnVerif.Lemmas.TcpclShape
import DtnVerif.Lemmas.TcpclQueueRx
import DtnVerif.Lemmas.TcpclRun
import DtnVerif.Lemmas.TcpclRxMore
import DtnVerif.Lemmas.TcpclRange
import DtnVerif.Generated.Facts
import Std.Data.String.ToNat
namespace DtnVerif
namespace Tcpcl

/- ------------------------------------------------------------------ declared signatures -/

def sigOf (name : String) : Option (String × String × String) :=
  (Facts.dbusSigs.find? (fun r => r.1 == "tcpcl.ContactHandler." ++ name)).map (·.2)

theorem C18_facts :
    sigOf "session_state_changed" = some ("signal", "s", "")
    ∧ sigOf "send_bundle_started" = some ("signal", "st", "")
    ∧ sigOf "send_bundle_intermediate" = some ("signal", "st", "")
    ∧ sigOf "send_bundle_finished" = some ("signal", "sts", "")
    ∧ sigOf "recv_bundle_started" = some ("signal", "sv", "")
    ∧ sigOf "recv_bundle_intermediate" = some ("signal", "st", "")
    ∧ sigOf "recv_bundle_finished" = some ("signal", "sts", "")
    ∧ sigOf "get_session_state" = some ("method", "", "s")
    ∧ sigOf "is_sess_idle" = some ("method", "", "b")
    ∧ sigOf "send_bundle_get_queue" = some ("method", "", "as")
    ∧ sigOf "recv_bundle_get_queue" = some ("method", "", "as")
    ∧ sigOf "recv_bundle_pop_data" = some ("method", "s", "ay")
    ∧ sigOf "send_bundle_data" = some ("method", "ay", "s")
    ∧ sigOf "terminate" = some ("method", "y", "") := by
  refine ⟨?_, ?_, ?_, ?_, ?_, ?_, ?_, ?_, ?_, ?_, ?_, ?_, ?_, ?_⟩ <;> decide

/-- argument kind demanded by one signature character -/
def kindOK (c : Char) (v : Val) : Bool :=
  if c = 's' then v.isStr
  else if c = 't' then v.isNat
  else if c = 'v' then v.isStr || v.isNat
  else false

def conforms (sig : List Char) (args : List Val) : Bool :=
  match sig, args with
  | [], [] => true
  | c :: cs, v :: vs => kindOK c v && conforms cs vs
  | _, _ => false

/-- the shape predicate used by `C18_types` is conformance to the declared signature strings -/
theorem C18_sig_table (args : List Val) :
    sigOK "session_state_changed" args = conforms ['s'] args
    ∧ sigOK "send_bundle_started" args = conforms ['s', 't'] args
    ∧ sigOK "send_bundle_intermediate" args = conforms ['s', 't'] args
    ∧ sigOK "send_bundle_finished" args = conforms ['s', 't', 's'] args
    ∧ sigOK "recv_bundle_started" args = conforms ['s', 'v'] args
    ∧ sigOK "recv_bundle_intermediate" args = conforms ['s', 't'] args
    ∧ sigOK "recv_bundle_finished" args = conforms ['s', 't', 's'] args := by
  rcases args with _ | ⟨a, _ | ⟨b, _ | ⟨c, _ | ⟨d, r⟩⟩⟩⟩ <;> simp [sigOK, conforms, kindOK, Bool.and_assoc]

theorem C18_sig_strings :
    "s".toList = ['s'] ∧ "st".toList = ['s', 't'] ∧ "sts".toList = ['s', 't', 's'] ∧ "sv".toList = ['s', 'v'] := by
  decide

/- ------------------------------------------------------------------ types -/

/-- Every signal emitted over any event list conforms to its declared signature. -/
theorem C18_types (cfg : Cfg) (evs : List Ev) :
    ∀ os ∈ (run { cfg := cfg } evs).2, ∀ o ∈ os, o.shapeOK = true := by
  intro os hos o ho
  have := sh_run evs { cfg := cfg } os hos
  simp only [shapes, List.all_eq_true] at this
  exact this o ho

def retKindOK (sig : String) (v : Val) : Bool :=
  match v with
  | .str _ => sig == "s"
  | .bool _ => sig == "b"
  | .strs _ => sig == "as"
  | .bytes _ => sig == "ay"
  | .nat _ => false

def querySig : Query → String
  | .state => "s"
  | .idle => "b"
  | .txQueue => "as"
  | .rxQueue => "as"

/-- Method returns: the queue/state/idle queries, `pop` and `send` return a value of the declared kind
    (or raise, for `pop` of an unknown id). -/
theorem C18_return_types (e : Ep) :
    (∀ q, (step e (.query q)).2 = [.ret (queryVal e q)] ∧ retKindOK (querySig q) (queryVal e q) = true)
    ∧ (∀ tid, (∃ d, (step e (.pop tid)).2 = [.ret (.bytes d)]) ∨ (step e (.pop tid)).2 = [.raised "KeyError"])
    ∧ (∀ d, (step e (.send d)).2 = [.ret (.str (natStr e.txNextId))] ∨ (step e (.send d)).2 = []) := by
  refine ⟨?_, ?_, ?_⟩
  · intro q
    constructor
    · unfold step; simp only []; split <;> rfl
    · cases q <;> simp [queryVal, retKindOK, querySig, strsOf]
  · intro tid
    rw [q_step_pop]; unfold popRx
    split
    · exact Or.inl ⟨_, rfl⟩
    · exact Or.inr rfl
  · intro d
    cases hc : e.closed
    · exact Or.inl (q_step_send_fields e d hc).1
    · rw [q_step_send_closed e d hc]; exact Or.inr rfl

/- ------------------------------------------------------------------ send queue -/

/-- The send queue is exactly "handed out and not yet finished".
    Over any event list from a fresh endpoint there is a list `fin` of (id, length, text) such that
    * the `send_bundle_finished` signals emitted, in order, are exactly `fin`;
    * no id occurs twice in `fin`, and every id in `fin` was handed out (1 ≤ id < next id);
    * the `send` calls returned, in order, exactly the ids 1, 2, …, next id − 1;
    * an id is in the send queue iff it was handed out and is not in `fin`; the queue lists it once. -/
theorem C18_send_queue (cfg : Cfg) (evs : List Ev) :
    let r := run { cfg := cfg } evs
    ∃ fin : List (Nat × Nat × String),
      txFin r.2.flatten = fin.map txSig
      ∧ (fin.map (·.1)).Nodup
      ∧ (∀ t ∈ fin.map (·.1), 1 ≤ t ∧ t < r.1.txNextId)
      ∧ sendRets evs r.2 = (List.range' 1 (r.1.txNextId - 1)).map retId
      ∧ (∀ t, t ∈ r.1.txMap ↔ (1 ≤ t ∧ t < r.1.txNextId) ∧ t ∉ fin.map (·.1))
      ∧ r.1.txMap.Nodup
      ∧ queryVal r.1 .txQueue = .strs (r.1.txMap.map natStr) := by
  intro r
  obtain ⟨f, h1, h2, h3⟩ := q_run_tx_aux evs { cfg := cfg } { cfg := cfg } [] (TxHist.init (QInv.init cfg))
  simp only [List.nil_append] at h2
  refine ⟨f, h1, h2.nd, ?_, h3, ?_, h2.inv.nd, rfl⟩
  · intro t ht
    rcases h2.was t ht with h | h
    · simp at h
    · exact h
  · intro t
    rw [h2.live t]
    simp [r]

/-- No transfer id is ever announced finished twice — on the wire format of the signal too
    (ids are rendered in decimal, which is injective). -/
theorem C18_finished_once (cfg : Cfg) (evs : List Ev) :
    ∃ fin : List (Nat × Nat × String),
      txFin (run { cfg := cfg } evs).2.flatten = fin.map txSig ∧ (fin.map (fun f => natStr f.1)).Nodup := by
  obtain ⟨fin, h1, h2, _⟩ := C18_send_queue cfg evs
  refine ⟨fin, h1, ?_⟩
  have : fin.map (fun f => natStr f.1) = (fin.map (·.1)).map natStr := by simp
  rw [this]
  exact List.Pairwise.map natStr (fun a b hab h => hab (Nat.repr_injective h)) h2

/-- In every reachable state: idle ⇒ the send queue is empty (everything queued has been reported
    finished, by `C18_send_queue` exactly once). -/
theorem C18_idle_all_finished (cfg : Cfg) (evs : List Ev) :
    isSessIdle (runEp { cfg := cfg } evs) = true → (runEp { cfg := cfg } evs).txMap = [] := by
  intro hidle
  have hq := (q_run_inv evs { cfg := cfg } (QInv.init cfg) (RxQInv.init cfg)).1
  have : (runEp { cfg := cfg } evs).inflight = [] := by
    simp only [isSessIdle, Bool.and_eq_true, List.isEmpty_iff, Option.isNone_iff_eq_none] at hidle
    simp [Ep.inflight, hidle.1.2, hidle.2, hidle.1.1.2, tmpTids]
  apply List.eq_nil_iff_forall_not_mem.mpr
  intro t ht
  have := (hq.iff t).mp ht
  simp_all [runEp]

/-- The graceful close (`_check_sess_term`) acts only on an idle endpoint. -/
theorem C18_graceful_close_idle (e : Ep) : (checkSessTerm e).2 ≠ [] → isSessIdle e = true := by
  unfold checkSessTerm
  split
  · rename_i h; intro _; simp only [Bool.and_eq_true] at h; exact h.2
  · intro h; exact absurd rfl h

/- ------------------------------------------------------------------ receive queue -/

/-- One event against the abstract partial map. Any event other than `pop`: there is a list `new`
    of completed transfers such that the `recv_bundle_finished` signals are exactly `new`, the receive
    log grows by `new`, and the queue is the old one with `new` set, in order. -/
theorem C18_recv_step (cfg : Cfg) (evs : List Ev) (ev : Ev) (hp : ev.isPop = false) :
    let e := runEp { cfg := cfg } evs
    ∃ new : List (Nat × Bytes),
      rxFin (step e ev).2 = new.map rxSig ∧ (step e ev).1.rxLog = e.rxLog ++ new
      ∧ ∀ t, rxLookup (step e ev).1.rxMap t = absIns (rxLookup e.rxMap) new t := by
  intro e
  have hq : QInv e := (q_run_inv evs { cfg := cfg } (QInv.init cfg) (RxQInv.init cfg)).1
  by_cases hs : ev.isSend = true
  · cases ev with
    | send d =>
      refine ⟨[], ?_, ?_, ?_⟩
      · cases hc : e.closed
        · rw [(q_step_send_fields e d hc).1]; rfl
        · rw [q_step_send_closed e d hc]; rfl
      · cases hc : e.closed
        · rw [(q_step_send_fields e d hc).2.2.2.2.1]; simp
        · rw [q_step_send_closed e d hc]; simp
      · intro t
        cases hc : e.closed
        · rw [(q_step_send_fields e d hc).2.2.2.1]; rfl
        · rw [q_step_send_closed e d hc]; rfl
    | _ => simp [Ev.isSend] at hs
  · obtain ⟨_, _, ⟨new, b1, b2, b3⟩⟩ := q_step e ev (by simpa using hs) hp hq
    exact ⟨new, b1, b2, fun t => by rw [b3]; exact rxLookup_ins _ _ t⟩

/-- `pop tid`: returns exactly the stored data and removes the entry (so a second `pop` raises);
    raises `KeyError` and changes nothing when there is no entry. No signal, no change to the log. -/
theorem C18_pop (e : Ep) (tid : Nat) :
    (match rxLookup e.rxMap tid with
     | some d => (step e (.pop tid)).2 = [.ret (.bytes d)]
     | none => (step e (.pop tid)).2 = [.raised "KeyError"] ∧ (step e (.pop tid)).1 = e)
    ∧ (∀ t, rxLookup (step e (.pop tid)).1.rxMap t = absDel (rxLookup e.rxMap) tid t)
    ∧ (step e (.pop tid)).1.rxLog = e.rxLog := by
  rw [q_step_pop]
  unfold popRx rxLookup
  cases h : e.rxMap.find? (·.1 == tid) with
  | none =>
    refine ⟨by simp, ?_, rfl⟩
    intro t
    have := rxLookup_del e.rxMap tid t
    simp only [absDel, rxLookup] at this ⊢
    by_cases ht : t = tid
    · subst ht; simp [h]
    · simp [ht]
  | some p =>
    obtain ⟨k, d⟩ := p
    refine ⟨by simp, ?_, rfl⟩
    intro t
    exact rxLookup_del e.rxMap tid t

/-- The receive queue only ever holds transfers that were completely received (with exactly their
    octets, by C01: `rxLog = deliver processed`), each id once; the queue query lists those ids. -/
theorem C18_recv_sound (cfg : Cfg) (evs : List Ev) :
    let e := runEp { cfg := cfg } evs
    (∀ t d, rxLookup e.rxMap t = some d → (t, d) ∈ e.rxLog)
    ∧ (e.rxMap.map (·.1)).Nodup
    ∧ (∀ t, t ∈ e.rxMap.map (·.1) ↔ (rxLookup e.rxMap t).isSome)
    ∧ queryVal e .rxQueue = .strs ((e.rxMap.map (·.1)).map natStr) := by
  intro e
  have hr : RxQInv e := (q_run_inv evs { cfg := cfg } (QInv.init cfg) (RxQInv.init cfg)).2
  refine ⟨?_, hr.keys, fun t => (rxLookup_isSome _ t).symm, rfl⟩
  intro t d h
  simp only [rxLookup, Option.map_eq_some_iff] at h
  obtain ⟨p, hp, hd⟩ := h
  have hm := List.mem_of_find?_eq_some hp
  have hk := List.find?_some hp
  simp only [beq_iff_eq] at hk
  have := hr.sound p hm
  rw [← hk, ← hd]
  exact this

/- ------------------------------------------------------------------ idle -/

/-- The idle indication is exactly: no received octets awaiting processing, nothing buffered for
    the socket, no transfer being received, none being segmented, none unstarted, none awaiting its
    final acknowledgement. It is computed from the state at the time of the query, so it is true as
    soon as all of that has drained. -/
theorem C18_idle_iff (e : Ep) :
    (queryVal e .idle = .bool true) ↔
      (e.rx.buf = [] ∧ e.rxMore = false ∧ e.txBuf = [] ∧ e.connBuf = [] ∧ e.rxTmp = none ∧ e.txTmp = none
        ∧ e.txPendStart = [] ∧ e.txPendAck = []) := by
  simp [queryVal, isSessIdle, List.isEmpty_iff, and_assoc]

/-- … and whenever a D-Bus query can run (between callbacks, i.e. at any state reached by whole
    events) the "later messages of the current read" flag is clear, so the indication is exactly
    the emptiness of the buffers and transfer slots. -/
theorem C18_idle_iff_reachable (cfg : Cfg) (evs : List Ev) :
    let e := runEp { cfg := cfg } evs
    (queryVal e .idle = .bool true) ↔
      (e.rx.buf = [] ∧ e.txBuf = [] ∧ e.connBuf = [] ∧ e.rxTmp = none ∧ e.txTmp = none
        ∧ e.txPendStart = [] ∧ e.txPendAck = []) := by
  intro e
  have hm : e.rxMore = false := rxMore_run evs _ rfl
  rw [C18_idle_iff, hm]
  simp

/- ------------------------------------------------------------------ a concrete history -/

section Example
private def evsEx : List Ev :=
  [.start, .send [1, 2], .send [3], .query .txQueue, .terminate 0, .query .txQueue]

example : (run {} evsEx).2 =
    [[.sig "session_state_changed" [.str "contact-negotiating"]],
     [.ret (.str "1")], [.ret (.str "2")], [.ret (.strs ["1", "2"])],
     [.raised "RuntimeError"], [.ret (.strs ["1", "2"])]] := by decide +kernel
end Example

/- ------------------------------------------------------------------ numeric ranges -/

/-- **Every 't' argument fits 64 bits.** Over any event list — arbitrary octets from the peer in
    arbitrary chunks, any user calls, timers — in which the user hands in bundles shorter than 2^64
    octets and fewer than 2^64 octets are received in all (`RunOK`), every unsigned argument of every
    signal the endpoint emits is below 2^64: emission cannot fail on range grounds either. -/
theorem C18_uint64_args (cfg : Cfg) (evs : List Ev) (hok : RunOK { cfg := cfg } evs) :
    ∀ os ∈ (run { cfg := cfg } evs).2, ∀ o ∈ os, ∀ name args, o = .sig name args →
      ∀ n, Val.nat n ∈ args → n < 2 ^ 64 := by
  intro os hos o ho name args heq n hn
  have h := ri_run evs _ (ri_init cfg) hok os hos
  simp only [ranges, List.all_eq_true] at h
  have h1 := h o ho
  subst heq
  simp only [Out.rangeOK, List.all_eq_true] at h1
  have h2 := h1 _ hn
  simp only [Val.inRange, decide_eq_true_eq] at h2
  rw [← B64_eq]; exact h2

/-- non-vacuity: a run which meets `RunOK` and emits signals with 't' arguments -/
example : RunOK { cfg := {} } [.start, .send [1, 2, 3], .rx [0x64, 0x74, 0x6e, 0x21, 4, 0]] := by
  refine ⟨(by intro d h; cases h), (by intro c h; cases h), ?_⟩
  refine ⟨(by intro d h; cases h; decide), (by intro c h; cases h), ?_⟩
  refine ⟨(by intro d h; cases h), ?_, trivial⟩
  intro c h; cases h; decide

end Tcpcl
end DtnVerif
