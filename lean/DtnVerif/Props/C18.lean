import DtnVerif.Model.TcpclEp
namespace DtnVerif
namespace Tcpcl
theorem C18_placeholder : True := trivial
end Tcpcl
end DtnVerif
